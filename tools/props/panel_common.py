"""Shared pieces of the panel-kernel plugins (C02, C03, C04, C19, C14 …)."""
import contextlib
import io
import math

import numpy as np

from tools import panel_v
from tools.translate import gen_panel, pyx

MODEL_OF = {'Plate': 'plate_clt_donnell_bardell', 'PlateW': 'plate_clt_donnell_bardell_w',
            'CPanel': 'cpanel_clt_donnell_bardell', 'KPanel': 'kpanel_clt_donnell_bardell'}

TRUSTED_T = [
    'Lean 4.33 kernel; axioms within {propext, Classical.choice, Quot.sound} (audited each run)',
    'Mathlib v4.33 (ring, field_simp, simp)',
    'translator tools/translate/pyx.py + gen_panel.py (source text of the .pyx kernels -> Lean terms), '
    'validated on every run by interpreting its IR on random panels against the running binaries (V)',
    'operator tables lean/CompmechVerif/Spec/Kinematics.lean (Donnell kinematics, from theory/panel/*.nb) and their '
    'Python mirror tools/spec_ops.py',
    'the abstract integrals P.J are tied to the C tables by C10; exact Bardell polynomials of tools/bardell.py in the oracle',
    'Cython translation .pyx -> .so is not verified: the in-tree binaries are compared with the source model by V',
    'IEEE rounding not modelled: matrices compared to 1e-9 of the matrix scale',
]


def quiet(f, *a, **k):
    with contextlib.redirect_stdout(io.StringIO()):
        return f(*a, **k)


def gen_panel_case(rng, models=('Plate', 'PlateW', 'CPanel', 'KPanel'), max_mn=4, y12=None):
    lean_model = rng.choice(list(models))
    model = MODEL_OF[lean_model]
    m = rng.randint(1, max_mn)
    n = rng.randint(1, max_mn)
    if lean_model == 'KPanel':
        m, n = min(m, 3), min(n, 3)
    a = rng.uniform(0.3, 3.)
    b = rng.uniform(0.3, 3.)
    nply = rng.choice([1, 2, 3, 4])
    stack = [rng.choice([0, 45, -45, 90, 30, rng.uniform(-90, 90)]) for _ in range(nply)]
    case = dict(lean_model=lean_model, model=model, a=a, b=b, m=m, n=n, stack=stack,
                plyt=rng.choice([0.125e-3, 1e-3, 0.01]),
                laminaprop=rng.choice([(142.5e9, 8.7e9, 0.28, 5.1e9, 5.1e9, 5.1e9), (71e9, 71e9, 0.33), (1., 0.3, 0.25, 0.2, 0.2, 0.1)]),
                offset=rng.choice([0., 0., rng.uniform(-1, 1) * 1e-3]),
                mu=rng.choice([1300., 2700., 1.]),
                r=None, alphadeg=None, y1=None, y2=None, flags={})
    if lean_model in ('CPanel', 'KPanel'):
        case['r'] = rng.uniform(0.5, 5.)
    if lean_model == 'KPanel':
        case['alphadeg'] = rng.choice([0., 5., 20., rng.uniform(0, 50)])
        # keep the top radius positive
        case['r'] = max(case['r'], 1.5 * a * math.sin(math.radians(case['alphadeg'])) + 0.3)
    if y12 if y12 is not None else rng.random() < 0.4:
        y1 = rng.uniform(0, 0.6) * b
        case['y1'], case['y2'] = y1, rng.uniform(y1 + 0.05 * b, b)
        r_ = rng.random()
        if r_ < 0.15:
            case['y1'], case['y2'] = 0., b
        elif r_ < 0.4:
            case['y1'], case['y2'] = 0., rng.uniform(0.15, 0.9) * b          # strip starting exactly at the edge y = 0
        elif r_ < 0.55:
            case['y1'], case['y2'] = rng.uniform(0.1, 0.8) * b, b            # strip ending exactly at the edge y = b
    mode = rng.random()
    for f in 'uvw':
        for e in ('1t', '1r', '2t', '2r'):
            for d in 'xy':
                if mode < 0.25:
                    v = 1.
                elif mode < 0.7:
                    v = float(rng.choice([0, 1]))
                else:
                    v = rng.choice([0., 1., rng.uniform(-1, 2)])
                case['flags'][f + e + d] = v
    return case


def make_panel(case):
    from compmech.panel import Panel
    p = Panel(a=case['a'], b=case['b'], r=case['r'], alphadeg=case['alphadeg'], stack=list(case['stack']),
              plyt=case['plyt'], laminaprop=tuple(case['laminaprop']), mu=case['mu'], m=case['m'], n=case['n'],
              offset=case['offset'], y1=case['y1'], y2=case['y2'])
    p.model = case['model']
    for k, v in case['flags'].items():
        setattr(p, k, v)
    if case.get('force_ortho'):
        p.force_orthotropic_laminate = True          # rarely used option: every route must see the same (orthotropic) laminate
    return p


def translated(ctx):
    """kernels IR of all four models, translated from the current source once per run"""
    if not hasattr(ctx, '_panel_ir'):
        ctx._panel_ir = gen_panel.translate_all()
    return ctx._panel_ir


def rel_diff(A, B):
    s = max(np.abs(A).max(), np.abs(B).max(), 1e-300)
    return float(np.abs(A - B).max() / s)


def block_rel_diff(A, B, num, row0=0):
    """like rel_diff, but every field block (u-u, u-v, ..., w-w) is judged on ITS OWN scale: in a thin panel the bending block is
    (h/a)^2 ~ 1e-8 times the membrane block, so a comparison relative to the largest entry of the whole matrix cannot see it at all.
    Scale of block (a, b): max(|B_ab|, 1e-4 sqrt(|B_aa| |B_bb|)) (the floor keeps blocks that are zero up to rounding quiet).
    Rows/columns outside the panel's own range (padding) are compared on the global scale."""
    if num == 1:
        return rel_diff(A, B)
    n = A.shape[0]
    idx = [np.array([i for i in range(row0, n) if (i - row0) % num == a_]) for a_ in range(num)]
    S = [[max(np.abs(A[np.ix_(idx[a_], idx[b_])]).max(), np.abs(B[np.ix_(idx[a_], idx[b_])]).max()) if len(idx[a_]) and len(idx[b_]) else 0.
          for b_ in range(num)] for a_ in range(num)]
    worst = 0.
    for a_ in range(num):
        for b_ in range(num):
            if not len(idx[a_]) or not len(idx[b_]):
                continue
            sc = max(S[a_][b_], 1e-4 * (S[a_][a_] * S[b_][b_]) ** 0.5, 1e-300)
            worst = max(worst, float(np.abs(A[np.ix_(idx[a_], idx[b_])] - B[np.ix_(idx[a_], idx[b_])]).max() / sc))
    if row0:
        g = max(np.abs(A).max(), np.abs(B).max(), 1e-300)
        worst = max(worst, float(np.abs(A[:row0] - B[:row0]).max() / g), float(np.abs(A[:, :row0] - B[:, :row0]).max() / g))
    return worst


# ----------------------------------------------------------------------------- redefinition stream (shared by C03, C04, C19)
REDEF_EDITS = ['offset', 'geometry', 'alphadeg', 'mu', 'flags', 'stack', 'plyt', 'loads']


def redefinition_check(rng, t, call, models=('Plate', 'CPanel', 'KPanel'), extra=None, skip=()):
    """A Panel that was already evaluated is EDITED (one kind of edit per call, cycling with `t`) and evaluated again WITHOUT any
    other call in between; the result must be that of a freshly defined panel with the edited data.
    `call(panel)` -> dense matrix / vector; `extra(panel, case)` sets additional attributes (loads, flow, ...).
    returns (description, failure text or None)"""
    edits = [e for e in REDEF_EDITS if e not in skip]
    edit = edits[t % len(edits)]
    if edit == 'alphadeg':
        models = ('KPanel',)
    case = gen_panel_case(rng, models=models, max_mn=3, y12=False)
    case['loads'] = dict(Nxx=rng.uniform(-2, 2), Nyy=rng.uniform(-2, 2), Nxy=rng.uniform(-2, 2))
    if case['lean_model'] == 'KPanel' and not case['alphadeg']:
        case['alphadeg'] = rng.uniform(5., 30.)
        case['r'] = max(case['r'], 1.5 * case['a'] * math.sin(math.radians(case['alphadeg'])) + 0.3)
    if len(case['stack']) < 2:
        case['stack'] = list(case['stack']) + [30.]
    # no field may be switched off by its edge flags (few terms + zero flags would make every matrix vanish and the comparison void)
    case['m'], case['n'] = max(case['m'], 2), max(case['n'], 2)
    for f_ in 'uvw':
        for d_ in 'xy':
            if not case['flags'][f_ + '1r' + d_]:
                case['flags'][f_ + '1r' + d_] = 1.

    def build(c):
        p = make_panel(c)
        for k, v in c['loads'].items():
            setattr(p, k, v)
        if extra:
            extra(p, c)
        return p
    c2 = dict(case, stack=list(case['stack']), flags=dict(case['flags']), loads=dict(case['loads']))
    p = build(case)
    quiet(p.calc_k0, silent=True)
    first = call(p)
    if edit == 'offset':
        c2['offset'] = case['offset'] + rng.choice([-1., 1.]) * rng.uniform(0.3, 1.5) * case['plyt']
        p.offset = c2['offset']
    elif edit == 'geometry':
        c2['a'], c2['b'] = case['a'] * 1.25, case['b'] * 0.8
        p.a, p.b = c2['a'], c2['b']
        if case['r']:
            c2['r'] = case['r'] * 1.5
            p.r = c2['r']
    elif edit == 'alphadeg':
        c2['alphadeg'] = rng.choice([0., case['alphadeg'] * 0.5])
        p.alphadeg = c2['alphadeg']
    elif edit == 'mu':
        c2['mu'] = case['mu'] * 3.
        p.mu = c2['mu']
    elif edit == 'flags':
        for k_ in rng.sample(sorted(c2['flags']), 5):
            c2['flags'][k_] = 1. - c2['flags'][k_] if c2['flags'][k_] in (0., 1.) else 0.
            setattr(p, k_, c2['flags'][k_])
    elif edit == 'stack':
        k_ = rng.randrange(len(c2['stack']))
        c2['stack'][k_] = c2['stack'][k_] + rng.choice([15., 30., -40.])
        p.stack[k_] = c2['stack'][k_]
    elif edit == 'plyt':
        c2['plyt'] = case['plyt'] * 1.5
        p.plyt = c2['plyt']
        p.plyts = []
    else:
        c2['loads'] = dict(Nxx=case['loads']['Nxx'] * 2., Nyy=-case['loads']['Nyy'], Nxy=case['loads']['Nxy'] + 1.)
        for k, v in c2['loads'].items():
            setattr(p, k, v)
    got = call(p)
    fresh = build(c2)
    quiet(fresh.calc_k0, silent=True)
    want = call(fresh)
    d = rel_diff(np.asarray(got), np.asarray(want))
    desc = dict(case=case, edit=edit, edited=c2)
    if d > 1e-12 and edit == 'plyt' and not np.any(np.asarray(got)) and np.any(np.asarray(want)):
        # the call under test never runs Panel._rebuild(): with the per-ply list reset it sums an EMPTY list of thicknesses
        desc['identity'] = 'no-rebuild-after-plyts-reset'
    if d > 1e-12:
        return desc, ('after editing the panel\'s %s the result differs from that of a freshly defined panel with the edited data: '
                      'rel %.3e (change against the first evaluation: %.3e)' % (edit, d, rel_diff(np.asarray(first), np.asarray(want))))
    return desc, None


def independent_ABD(case):
    """6x6 laminate matrix from the case data by the independent oracle of C01 (tensor rotation by matrix products + Gauss
    quadrature through the thickness) - NOT from compmech.composite; with `force_orthotropic_laminate` the 16/26 terms of A, B, D
    are removed (what the option documents)"""
    from tools.props import C01
    A, B, D, E = C01.oracle(dict(stack=list(case['stack']), plyts=[], plyt=case['plyt'], laminaprops=[],
                                 laminaprop=tuple(case['laminaprop']), offset=case['offset']))
    F = np.block([[A, B], [B, D]])
    if case.get('force_ortho'):
        for blk in ((0, 0), (0, 3), (3, 0), (3, 3)):
            for (i, j) in ((0, 2), (1, 2), (2, 0), (2, 1)):
                F[blk[0] + i, blk[1] + j] = 0.
    return F
