"""C13 — assembled matrices = sums of placed components; size = sum of component sizes; skin partition irrelevant;
a stiffener adds a symmetric positive semi-definite contribution.

H : hand model lean/CompmechVerif/Model/Assembly.lean (index book-keeping of PanelAssembly.__init__/get_size/calc_*,
    get_k0_conn placement, StiffPanelBay.get_size/calc_k0/kG0/kM/calc_fext, stiffener block placement, make_symmetric).
    Every component call made by a global method is RECORDED (instance wrappers on panels / stiffeners, class-level
    wrapper on Panel.calc_*, module-attribute wrappers on the connection / stiffener kernels — no repo edits); the
    recorded matrices are un-shifted by the (row0, col0) the kernel was handed, sent as exact rationals to the Lean
    driver, which re-places them with the MODEL's offsets; assembled matrix (1e-9 of the scale), sizes, spans and the
    (kernel, row0, col0) call sequence (exactly) are compared with what the package did.
Implementation arm (independent of the model): global = finalised sum of the stand-alone component matrices embedded at
    offsets computed here (+ the full connection matrices for assemblies); reported size = sum of component sizes; force
    vectors = concatenation; the same bay with its skin cut elsewhere gives the same k0, kG0, kM; (bay with stiffener) -
    (bay without, embedded) is symmetric PSD for k0 and kM.
T : the nine stiffener kernels (compmech/stiffener/models/*.pyx) are regenerated into lean/CompmechVerif/Gen/Stiff/* by
    tools/translate/gen_stiff.py; Props/C13.lean proves every entry = Hessian of the penalty / beam energy of Spec/StiffInterface.lean,
    symmetry and positive semi-definiteness.
V : `stiff_validation`: the translated IR interpreted numerically (exact Bardell polynomials) against the running kernels; and the same
    three files executed from their text (tools/source_tie.py group 'stiffener_kernels').  `stiff_energy_checks`: the energies of
    Spec/StiffInterface.lean (Python mirror below) against the running kernels (implementation arm) and, in the search, against the
    source as written (source arm).
"""
import contextlib
import copy
import gc
import importlib
import json
import types

import numpy as np

from tools.common import q, unq, driver
from tools import bardell, panel_v, source_tie
from tools.props import panel_common as pc
from tools.translate import gen_stiff

EXTRA_TARGETS = ['CompmechVerif.Gen.Stiff.Blade1D', 'CompmechVerif.Gen.Stiff.Blade2D', 'CompmechVerif.Gen.Stiff.T2D',
                 'CompmechVerif.Gen.Stiff.Literals']

TRUSTED = [
    'Lean 4.33 kernel; axioms within {propext, Classical.choice, Quot.sound} (audited each run)',
    'Mathlib v4.33 (lists, ring, omega)',
    'hand-written model lean/CompmechVerif/Model/Assembly.lean of the index book-keeping - tied to the running Python by '
    'the recorded-component correspondence of this check',
    'that a kernel asked to write at (row0, col0) returns its stand-alone matrix shifted there is NOT proved: it is checked '
    'numerically on the implementation (stand-alone component matrix vs global matrix)',
    'additivity of the skin kernels over adjacent y intervals is a hypothesis of skin_split_invariant; checked numerically here',
    'translator tools/translate/gen_stiff.py (+ pyx.py) of the stiffener kernels: validated on every run against the running kernels '
    '(stiff_validation) and doubled by the source reading of the same files (tools/cyexec.py, tools/source_tie.py)',
    'operator tables lean/CompmechVerif/Spec/StiffInterface.lean and their Python mirror stiff_oracle in this plugin',
    'positive semi-definiteness of the stiffener KERNELS is a theorem for the per-pair values (Props/C13.lean); for the finalised '
    'contribution of a whole stiffener (base / flange panels + kernels, as a sparse matrix) it is checked numerically (eigvalsh, 1e-9 of the scale)',
    'scipy.sparse COO/CSR semantics (duplicates add) = Asm.toFun; numpy.linalg.eigvalsh in the PSD predicate',
    'IEEE rounding not modelled: matrices compared to 1e-9 of the matrix scale',
]
ASSUMPTIONS = [
    'panels of an assembly are connected by SSxcte / SSycte (the other kinds are placed by the same code path: C12)',
    'all skin panels of a bay share laminate and loads (uniformly laminated skin); stiffeners sit on a cut or on an outer edge',
    'PanelAssembly.k0_conn caching across calls with different conn lists is lifecycle behaviour (C20), not modelled',
]
RULE = ('assemblies of 1-6 flat/cylindrical panels, m,n<=3 all different, random order, 0-3 SSxcte/SSycte connections '
        '(either orientation of p1/p2), random finalize flags, random forces, random amplitudes for kT/fint; bays (flat and '
        'curved, m,n<=3) with the skin cut at 0-4 random positions and 0-2 stiffeners of each of the three kinds added in '
        'random order, with/without base and flange; non-trivial = >=3 panels with >=1 connection, or a bay with >=2 '
        'stiffeners of >=2 kinds; distinct by case parameters')

LP = [(142.5e9, 8.7e9, 0.28, 5.1e9, 5.1e9, 5.1e9), (71e9, 71e9, 0.33, 26.7e9, 26.7e9, 26.7e9)]
TAG = dict(panel=0, base=1, flange=2, fkCss=3, fkCsf=4, fkCff=5, fkCppy1y2=6, fkCpby1y2=7, fkCbbpby1y2=8,
           fkCBFycte11=9, fkCBFycte12=10, fkCBFycte22=11, fk0f=12, fkG0f=12, fkMf=12, c11=13, c12=14, c22=15)
KINDS = ('k0', 'kG0', 'kM')

# known-finding identities (confirmed on the unchanged tree by running the real code; see .scratch/C13_NOTES.md)
ID_FLANGELESS = 'C13-bay-flangeless-blade2d-raises'
ID_B1_BASE_KM = 'C13-blade1d-base-kM-raises'
ID_B1_NEEDS_BF = 'C13-blade1d-base-only-needs-bf'
ID_B1_HB = 'C13-blade1d-hb-never-updated'
ID_B1_MASS = 'C13-blade1d-flange-mass-coupling-doubled'
ID_B1_TWIST = 'C13-blade1d-twist-stiffness-without-modulus'
ID_T_BASE = 'C13-tstiff-base-integrated-outside-its-domain'
ID_ASM_NOCONN = 'C13-assembly-no-connections-k0-raises'
ID_ASM_FINT = 'C13-assembly-fint-raises'


STATS = dict(oracle_checks=0, psd_checks=0, split_checks=0, placed_sum_checks=0, model_matrix_comparisons=0, model_vector_comparisons=0,
             kernel_calls_recorded=0)


# ---------------------------------------------------------------------------------------------- small helpers
@contextlib.contextmanager
def no_gc():
    """the code under test calls gc.collect() after every kernel; a no-op during the runs (semantics unaffected)"""
    old = gc.collect
    gc.collect = lambda *a, **k: 0
    try:
        yield
    finally:
        gc.collect = old


def dense(M, size=None):
    if isinstance(M, (int, float)):
        return np.zeros((size, size))
    return np.asarray(M.toarray() if hasattr(M, 'toarray') else M, dtype=float)


def fin_sym(M):
    U = np.triu(M)
    return U + np.triu(M, 1).T


def rel(A, B, floor=0.):
    """largest difference relative to the scale of the two arrays (or of `floor`: the size of the pieces that were added
    up, so that a sum that cancels to rounding noise is compared with 0 sensibly)"""
    if A.shape != B.shape:
        return float('inf')
    s = max(np.abs(A).max() if A.size else 0., np.abs(B).max() if B.size else 0., floor, 1e-300)
    return float(np.abs(A - B).max() / s) if A.size else 0.


class Misplaced(Exception):
    pass


def coo_text(M, row0, col0):
    """local COO words of a recorded kernel result (global coo_matrix written at row0, col0).  The kernels return
    pre-allocated triplet arrays whose unused slots are (0, 0, 0.0): exact zeros are dropped (they denote nothing)."""
    if isinstance(M, (int, float)):
        return 'e'
    M = M.tocoo()
    out = []
    for r, c, v in zip(M.row.tolist(), M.col.tolist(), M.data.tolist()):
        if v == 0.:
            continue
        if r < row0 or c < col0:
            raise Misplaced('a kernel asked to write at (%d, %d) wrote %r at (%d, %d)' % (row0, col0, v, r, c))
        out.append('%d %d %s' % (r - row0, c - col0, q(v)))
    return ' '.join(out) if out else 'e'


def vec_text(v):
    v = list(np.asarray(v, dtype=float).ravel())
    return ' '.join(q(x) for x in v) if v else 'e'


def coo_reply_dense(words, size):
    out = np.zeros((size, size))
    w = words.split()
    for k in range(0, len(w), 3):
        r, c = int(w[k]), int(w[k + 1])
        if r >= size or c >= size:
            return None
        out[r, c] += float(unq(w[k + 2]))
    return out


def sizes_args(a, k):
    """(size, row0, col0) of a kernel call whose last three parameters are size, row0, col0"""
    names = ['size', 'row0', 'col0']
    vals = {}
    pos = list(a)
    for nm in reversed(names):
        if nm in k:
            vals[nm] = k[nm]
        else:
            vals[nm] = pos.pop()
    return int(vals['size']), int(vals['row0']), int(vals['col0'])


class Patches(object):
    """set attributes, restore on exit"""

    def __init__(self):
        self.undo = []

    def set(self, obj, name, value):
        if isinstance(obj, (type, types.ModuleType)):
            self.undo.append((obj, name, getattr(obj, name), False))
        else:
            self.undo.append((obj, name, obj.__dict__.get(name), name not in obj.__dict__))
        setattr(obj, name, value)

    def restore(self):
        for obj, name, old, was_absent in reversed(self.undo):
            if was_absent:
                try:
                    delattr(obj, name)
                    continue
                except AttributeError:
                    pass
            setattr(obj, name, old)
        self.undo = []


# ============================================================================================== ASSEMBLIES
def gen_asm(rng, corpus=None):
    n = rng.choice([1, 2, 2, 3, 3, 4, 5, 6])
    a, b = rng.uniform(0.4, 2.), rng.uniform(0.4, 2.)
    mns = [(i, j) for i in (1, 2, 3) for j in (1, 2, 3)]
    rng.shuffle(mns)
    panels = []
    for k in range(n):
        c = pc.gen_panel_case(rng, models=('Plate', 'CPanel'), max_mn=3, y12=False)
        c['m'], c['n'] = mns[k]
        c['a'], c['b'] = a, b
        c['loads'] = dict(Nxx=rng.choice([0., -1., rng.uniform(-3, 3)]), Nyy=rng.choice([0., rng.uniform(-3, 3)]),
                          Nxy=rng.choice([0., rng.uniform(-3, 3)]))
        c['forces'] = [[rng.uniform(0, a), rng.uniform(0, b), rng.uniform(-1, 1), rng.uniform(-1, 1), rng.uniform(-1, 1)]
                       for _ in range(rng.choice([0, 1, 2]))]
        c['forces_inc'] = [[rng.uniform(0, a), rng.uniform(0, b), rng.uniform(-1, 1), 0., rng.uniform(-1, 1)]
                           for _ in range(rng.choice([0, 0, 1]))]
        panels.append(c)
    conns = []
    if n >= 2:
        for _ in range(rng.choice([0, 1, 1, 2, 3])):
            i, j = rng.sample(range(n), 2)
            func = rng.choice(['SSxcte', 'SSycte', 'SSxcte', 'SSycte', 'SB', 'BFxcte', 'BFycte'])
            L = a if func in ('SSxcte', 'BFxcte') else b
            pos = lambda: rng.choice([0., L, rng.uniform(0.1, 0.9) * L])
            conns.append(dict(p1=i, p2=j, func=func, c1=pos(), c2=pos()))
    return dict(kind='asm', panels=panels, conns=conns, inc=rng.choice([1., 0.5]),
                fin=dict(k0=rng.random() < 0.8, kG0=rng.random() < 0.7, kM=rng.random() < 0.7),
                cseed=rng.randint(0, 10 ** 6))


def build_asm(case):
    from compmech.panel.assembly import PanelAssembly
    ps = []
    for c in case['panels']:
        p = pc.make_panel(c)
        for k, v in c['loads'].items():
            setattr(p, k, v)
        p.forces = [list(f) for f in c['forces']]
        p.forces_inc = [list(f) for f in c['forces_inc']]
        ps.append(p)
    conn = []
    for c in case['conns']:
        d = dict(p1=ps[c['p1']], p2=ps[c['p2']], func=c['func'])
        if c['func'] != 'SB':
            key = 'xcte' if c['func'] in ('SSxcte', 'BFxcte') else 'ycte'
            d[key + '1'], d[key + '2'] = c['c1'], c['c2']
        conn.append(d)
    return PanelAssembly(ps, conn=conn), ps, conn


def asm_c(case, size):
    return (np.random.RandomState(case['cseed']).rand(size) - 0.5) * 2e-3


def conn_kernel_names(func):
    return ['fkC%s%s' % (func, b) for b in ('11', '12', '22')]


def record_asm(case):
    """run every global method with recorders; returns dict of results / recordings / exceptions"""
    from compmech.panel import connections
    asm, ps, conn = build_asm(case)
    P = Patches()
    rec = dict(k0=[], kG0=[], kM=[], kL=[], kG=[], fext=[], fint=[], conn=[])
    state = dict(method=None)

    def wrap_panel(i, p, name, orig):
        def f(*a, **k):
            r = orig(*a, **k)
            key = name
            if state['method'] == 'kT':
                key = 'kL' if name == 'k0' else 'kG'
            if name in ('fext', 'fint'):
                rec[key].append(dict(i=i, size=k.get('size'), col0=k.get('col0', 0), v=np.array(np.asarray(r), dtype=float)))
            else:
                rec[key].append(dict(i=i, size=k.get('size'), row0=k.get('row0', 0), col0=k.get('col0', 0),
                                     finalize=k.get('finalize', True), M=r.copy()))
            return r
        return f
    for i, p in enumerate(ps):
        for name in ('k0', 'kG0', 'kM', 'fext', 'fint'):
            P.set(p, 'calc_' + name, wrap_panel(i, p, name, getattr(p, 'calc_' + name)))
    for func in set(c['func'] for c in case['conns']):
        mod = getattr(connections, 'kC' + func)
        for nm in conn_kernel_names(func):
            def mk(nm, orig):
                def f(*a, **k):
                    r = orig(*a, **k)
                    size, row0, col0 = sizes_args(a, k)
                    rec['conn'].append(dict(name=nm, size=size, row0=row0, col0=col0, M=r.copy()))
                    return r
                return f
            P.set(mod, nm, mk(nm, getattr(mod, nm)))
    out = dict(rec=rec, exc={})
    try:
        with no_gc():
            out['size'] = asm.get_size()
            out['spans'] = [(p.row_start, p.col_start, p.row_end, p.col_end) for p in ps]
            size = out['size']
            c = asm_c(case, size)
            calls = [('k0', lambda: asm.calc_k0(conn=conn, silent=True, finalize=case['fin']['k0'])),
                     ('kG0', lambda: asm.calc_kG0(silent=True, finalize=case['fin']['kG0'])),
                     ('kM', lambda: asm.calc_kM(silent=True, finalize=case['fin']['kM'])),
                     ('fext', lambda: asm.calc_fext(inc=case['inc'], silent=True)),
                     ('kT', lambda: asm.calc_kT(c=c, silent=True)),
                     ('fint', lambda: asm.calc_fint(c, silent=True))]
            for name, f in calls:
                state['method'] = name
                try:
                    r = pc.quiet(f)
                    out[name] = dense(r, size) if name not in ('fext', 'fint') else np.array(np.asarray(r), dtype=float)
                except Exception as e:
                    out['exc'][name] = '%s: %s' % (type(e).__name__, e)
    finally:
        P.restore()
    return out


def asm_lines(case, out):
    """driver lines + what each reply is compared with"""
    ps_txt = ' ; '.join('%d %d' % (c['m'], c['n']) for c in case['panels'])
    rec = out['rec']
    lines = []

    def comps(keys):
        per = [[] for _ in case['panels']]
        for key in keys:
            for r in rec[key]:
                per[r['i']].append(coo_text(r['M'], r['row0'], r['col0']))
        return ' ; '.join(' '.join(x for x in p if x != 'e') or 'e' for p in per)

    def conns_txt():
        items = []
        rc = rec['conn']
        # get_k0_conn is evaluated once (cached): the first 3*len(conns) kernel calls
        for k, c in enumerate(case['conns']):
            trip = rc[3 * k:3 * k + 3]
            if len(trip) < 3:
                return None
            items.append('%d %d : %s' % (c['p1'], c['p2'], ' : '.join(coo_text(t['M'], t['row0'], t['col0']) for t in trip)))
        return ' ; '.join(items)
    ctxt = conns_txt() if case['conns'] else ''
    if 'k0' in out and ctxt is not None:
        lines.append(('k0', 'C13 asm conn %d | %s | %s | %s' % (case['fin']['k0'], ps_txt, comps(['k0']), ctxt)))
    if 'kT' in out and ctxt is not None:
        lines.append(('kT', 'C13 asm conn 1 | %s | %s | %s' % (ps_txt, comps(['kL', 'kG']), ctxt)))
    for key in ('kG0', 'kM'):
        if key in out:
            lines.append((key, 'C13 asm noconn %d | %s | %s | ' % (case['fin'][key], ps_txt, comps([key]))))
    if 'fext' in out:
        vs = []
        for r, c in zip(rec['fext'], case['panels']):
            own = 3 * c['m'] * c['n']
            vs.append(vec_text(r['v'][r['col0']:r['col0'] + own]))
        lines.append(('fext', 'C13 vec | %s | %s' % (ps_txt, ' ; '.join(vs))))
    return lines


def compare_asm(case, out, replies):
    """model vs implementation; returns description of the first disagreement or None"""
    rec = out['rec']
    size = out['size']
    for (key, line), rep in replies:
        if rep.startswith('err'):
            return 'driver: %s on %s' % (rep, key)
        if key == 'fext':
            got = [float(unq(w)) for w in rep.split()]
            STATS['model_vector_comparisons'] += 1
            if len(got) != len(out['fext']) or rel(np.array(got), out['fext']) > 1e-9:
                return 'calc_fext: model concatenation differs from the package vector'
            continue
        f = [x.strip() for x in rep.split('|')]
        if int(f[0]) != size:
            return 'get_size: model %s, package %d' % (f[0], size)
        spans = [tuple(int(x) for x in s.split()) for s in f[1].split(';') if s.strip()]
        if spans != out['spans']:
            return '__init__ spans: model %r, package %r' % (spans, out['spans'])
        blocks = [tuple(int(x) for x in s.split()) for s in f[2].split(';') if s.strip()]
        keys = ['kL', 'kG'] if key == 'kT' else [key]
        n = len(case['panels'])
        for k in keys:
            seq = [(r['i'], r['row0'], r['col0'], r['size']) for r in rec[k]]
            want = [(i, blocks[i][1], blocks[i][2], size) for i in range(n)]
            if seq != want:
                return '%s: component calls (panel, row0, col0, size) %r, model %r' % (k, seq, want)
        if key in ('k0', 'kT') and case['conns']:
            cb = blocks[n:]
            rc = rec['conn'][:3 * len(case['conns'])]
            for t, (b, r) in enumerate(zip(cb, rc)):
                # the coupling block is recorded where the kernel wrote it; the model reports where it ends up
                ok = (b[1], b[2]) == (r['row0'], r['col0']) or (t % 3 == 1 and (b[2], b[1]) == (r['row0'], r['col0']))
                if not ok or r['size'] != size:
                    return 'connection kernel %s handed (row0, col0, size) = (%d, %d, %d), model block %r' % (
                        r['name'], r['row0'], r['col0'], r['size'], b)
        M = coo_reply_dense(f[3], size)
        if M is None:
            return '%s: model wrote outside the reported size' % key
        STATS['model_matrix_comparisons'] += 1
        STATS['kernel_calls_recorded'] += len(blocks)
        d = rel(M, out[key])
        if d > 1e-9:
            i, j = np.unravel_index(np.abs(M - out[key]).argmax(), M.shape)
            return '%s: model assembled matrix differs from the package: rel %.3e at [%d,%d] (model %.6e, package %.6e)' % (
                key, d, i, j, M[i, j], out[key][i, j])
    return None


def full_conn(case, ps, starts, size):
    """independent connection matrix: 11 and 22 finalised on their diagonal blocks, the coupling block and its transpose"""
    from compmech.panel import connections
    K = np.zeros((size, size))
    for c in case['conns']:
        p1, p2 = ps[c['p1']], ps[c['p2']]
        func = c['func']
        ctype = {'SSxcte': 'xcte', 'BFxcte': 'xcte', 'SSycte': 'ycte', 'BFycte': 'ycte', 'SB': 'bot-top'}[func]
        kt, kr = pc.quiet(connections.calc_kt_kr, p1, p2, ctype)
        mod = getattr(connections, 'kC' + func)
        s1, s2 = 3 * p1.m * p1.n, 3 * p2.m * p2.n
        loc = max(s1, s2)
        f11, f12, f22 = [getattr(mod, nm) for nm in conn_kernel_names(func)]
        if func == 'SB':
            dsb = sum(p1.plyts) / 2. + sum(p2.plyts) / 2.
            k11 = fin_sym(dense(f11(kt, dsb, p1, loc, 0, col0=0))[:s1, :s1])
            k12 = dense(f12(kt, dsb, p1, p2, loc, 0, col0=0))[:s1, :s2]
            k22 = fin_sym(dense(f22(kt, p1, p2, loc, 0, col0=0))[:s2, :s2])
        else:
            k11 = fin_sym(dense(f11(kt, kr, p1, c['c1'], loc, 0, col0=0))[:s1, :s1])
            k12 = dense(f12(kt, kr, p1, p2, c['c1'], c['c2'], loc, 0, col0=0))[:s1, :s2]
            k22 = fin_sym(dense(f22(kt, kr, p1, p2, c['c2'], loc, 0, col0=0))[:s2, :s2])
        a, b = starts[c['p1']], starts[c['p2']]
        K[a:a + s1, a:a + s1] += k11
        K[b:b + s2, b:b + s2] += k22
        K[a:a + s1, b:b + s2] += k12
        K[b:b + s2, a:a + s1] += k12.T
    return K


def predicates_asm(case):
    """property predicates directly on the implementation (fresh objects, no recorders): [(identity, text)]"""
    bad = []
    asm, ps, conn = build_asm(case)
    own = [3 * c['m'] * c['n'] for c in case['panels']]
    starts = [sum(own[:k]) for k in range(len(own))]
    total = sum(own)
    with no_gc():
        size = asm.get_size()
        if size != sum(pc.quiet(p.get_size) for p in ps) or size != total:
            bad.append((None, 'reported size %d is not the sum of the component sizes %d' % (size, total)))
            return bad
        c = asm_c(case, size)

        def placed(method, **kw):
            S = np.zeros((size, size))
            for p, s, o in zip(ps, starts, own):
                kw2 = dict(kw)
                if 'c' in kw2:
                    cl = np.zeros(o)
                    cl[:] = c[s:s + o]
                    kw2['c'] = cl
                M = dense(pc.quiet(getattr(p, method), size=o, row0=0, col0=0, silent=True, finalize=False, **kw2), o)
                S[s:s + o, s:s + o] += M
            return S

        def call(name, f):
            try:
                return pc.quiet(f), None
            except Exception as e:
                return None, '%s: %s' % (type(e).__name__, e)
        # k0
        k0, exc = call('k0', lambda: asm.calc_k0(conn=conn, silent=True))
        Kc = full_conn(case, ps, starts, size)
        if exc:
            ident = ID_ASM_NOCONN if (not conn and "'float' object has no attribute 'data'" in exc) else None
            bad.append((ident, 'calc_k0 of an assembly %s raises %s' % ('without connections' if not conn else '', exc)))
        else:
            want = fin_sym(placed('calc_k0')) + Kc
            STATS['placed_sum_checks'] += 1
            d = rel(dense(k0), want)
            if d > 1e-9:
                i, j = np.unravel_index(np.abs(dense(k0) - want).argmax(), want.shape)
                bad.append((None, 'calc_k0 is not the sum of the placed stand-alone panel matrices plus the connection matrices: '
                                  'rel %.3e at [%d,%d]' % (d, i, j)))
        for name in ('kG0', 'kM'):
            M, exc = call(name, lambda: getattr(asm, 'calc_' + name)(silent=True))
            if exc:
                bad.append((None, 'calc_%s raises %s' % (name, exc)))
                continue
            want = fin_sym(placed('calc_' + name))
            STATS['placed_sum_checks'] += 1
            d = rel(dense(M), want)
            if d > 1e-9:
                bad.append((None, 'calc_%s is not the sum of the placed stand-alone panel matrices: rel %.3e' % (name, d)))
        # fext
        v, exc = call('fext', lambda: asm.calc_fext(inc=case['inc'], silent=True))
        if exc:
            bad.append((None, 'calc_fext raises %s' % exc))
        else:
            want = np.concatenate([np.asarray(pc.quiet(p.calc_fext, inc=case['inc'], silent=True)) for p in ps])
            if len(v) != len(want) or rel(np.asarray(v), want) > 1e-9:
                bad.append((None, 'calc_fext is not the concatenation of the panels\' force vectors'))
        # kT, fint
        asm2, ps2, conn2 = build_asm(case)
        kT, exc = call('kT', lambda: asm2.calc_kT(c=c, silent=True))
        if exc:
            ident = ID_ASM_NOCONN if (not conn and ("'float' object has no attribute 'data'" in exc
                                                    or 'No connectivity dictionary' in exc)) else None
            bad.append((ident, 'calc_kT raises %s' % exc))
        else:
            want = fin_sym(placed('calc_k0', c=c, NLgeom=True) + placed('calc_kG0', c=c, NLgeom=True)) + Kc
            d = rel(dense(kT), want)
            if d > 1e-9:
                bad.append((None, 'calc_kT is not the sum of the placed panel tangents plus the connection matrices: rel %.3e' % d))
        asm3, ps3, conn3 = build_asm(case)
        for p in ps3:
            pc.quiet(p.calc_k0, silent=True)
        f, exc = call('fint', lambda: asm3.calc_fint(c, silent=True))
        if exc:
            if '_memoryviewslice' in exc and 'unsupported operand' in exc:
                ident = ID_ASM_FINT
            elif not conn and "'float' object has no attribute 'data'" in exc:
                ident = ID_ASM_NOCONN
            else:
                ident = None
            bad.append((ident, 'calc_fint raises %s' % exc))
        else:
            want = np.zeros(size)
            for p, s, o in zip(ps3, starts, own):
                want[s:s + o] += np.asarray(pc.quiet(p.calc_fint, c[s:s + o].copy(), size=o, col0=0, silent=True))
            want += Kc.dot(c)
            if rel(np.asarray(f), want) > 1e-9:
                bad.append((None, 'calc_fint is not the concatenation of the panel vectors plus k0_conn*c'))
    return bad


# ============================================================================================== BAYS
def gen_stack(rng):
    return [rng.choice([0, 45, -45, 90]) for _ in range(rng.choice([1, 2, 4]))]


def gen_flags(rng):
    """edge flags: with m, n <= 3 EVERY Bardell function is an edge function, so most flags must be 1 (free) for the
    matrices to be non-trivial"""
    pfree = rng.choice([1., 0.85, 0.7])
    return {f + e + d: float(rng.random() < pfree) for f in 'uvw' for e in ('1t', '1r', '2t', '2r') for d in 'xy'}


def gen_bay(rng):
    curved = rng.random() < 0.45
    b = rng.uniform(0.4, 1.5)
    a = b * rng.uniform(0.6, 4.)
    ncut = rng.choice([0, 1, 1, 2, 2, 3, 4])
    cuts = sorted(rng.uniform(0.08, 0.92) * b for _ in range(ncut))
    case = dict(kind='bay', curved=curved, a=a, b=b, r=(rng.uniform(1., 6.) if curved else None),
                m=rng.randint(1, 3), n=rng.randint(1, 3), stack=gen_stack(rng) + [0], plyt=rng.choice([1.25e-4, 1e-3]),
                laminaprop=rng.choice(LP), mu=rng.choice([1300., 2700.]), cuts=cuts,
                loads=dict(Nxx=rng.choice([0., -1., rng.uniform(-3, 3)]), Nyy=rng.choice([0., rng.uniform(-2, 2)]),
                           Nxy=rng.choice([0., rng.uniform(-2, 2)])),
                flags=gen_flags(rng),
                stiffs=[], forces_skin=[])
    if rng.random() < 0.4:
        # a uniform CONSTANT membrane pre-load on every skin piece (it enters calc_k0 as an initial-stress term integrated over the piece's
        # own strip - also for the piece that starts exactly at y1 = 0): splitting the skin must not change k0
        case['loads'].update(Nxx_cte=rng.choice([-1, 1]) * rng.uniform(1e4, 1e6), Nyy_cte=rng.choice([0., rng.uniform(-1e5, 1e5)]),
                             Nxy_cte=rng.choice([0., rng.uniform(-1e5, 1e5)]))
    types = []
    for t in ('b1', 'b2', 't'):
        types += [t] * rng.choice([0, 0, 1, 1, 2])
    rng.shuffle(types)
    sites = cuts + [0., b]
    for t in types:
        ys = rng.choice(cuts) if cuts and rng.random() < 0.85 else rng.choice(sites)
        s = dict(type=t, ys=ys, bb=rng.uniform(0.05, 0.2) * b, bf=rng.uniform(0.03, 0.15) * b,
                 bstack=gen_stack(rng), fstack=gen_stack(rng), bplyt=rng.choice([1.25e-4, 5e-4]),
                 fplyt=rng.choice([1.25e-4, 5e-4]), lp=rng.choice(LP), base=True, flange=True,
                 mf=rng.randint(1, 3), nf=rng.randint(1, 3), mb=rng.randint(1, 3), nb=rng.randint(1, 3),
                 Fx=rng.choice([0., -10., rng.uniform(-50, 50)]), forces_flange=[], forces_base=[],
                 fflags=(gen_flags(rng) if rng.random() < 0.7 else None))
        if t in ('b1', 'b2'):
            which = rng.random()
            if t == 'b1':
                s['base'], s['flange'] = (True, True) if which < 0.2 else ((True, False) if which < 0.3 else (False, True))
                s['give_bf'] = s['flange'] or rng.random() < 0.7
            else:
                s['base'], s['flange'] = (True, True) if which < 0.45 else ((True, False) if which < 0.57 else (False, True))
        if t in ('b2', 't') and s['flange'] and rng.random() < 0.6:
            s['forces_flange'] = [[rng.uniform(0, a), rng.uniform(0, s['bf']), rng.uniform(-1, 1), 0., rng.uniform(-1, 1)]]
        if t == 't' and rng.random() < 0.4:
            s['forces_base'] = [[rng.uniform(0, a), rng.uniform(0, s['bb']), 0., rng.uniform(-1, 1), rng.uniform(-1, 1)]]
        case['stiffs'].append(s)
    if rng.random() < 0.3:
        case['forces_skin'] = [[rng.uniform(0, a), rng.uniform(0, b), rng.uniform(-1, 1), rng.uniform(-1, 1), 1.]]
    need = sorted(set(s['ys'] for s in case['stiffs'] if 0. < s['ys'] < b))
    extra = sorted(rng.uniform(0.08, 0.92) * b for _ in range(rng.choice([0, 1, 2, 4])))
    case['alt_cuts'] = sorted(set(need + extra))
    return case


class BuildError(Exception):
    pass


def build_bay(case, cuts=None, omit=None):
    """returns (bay, [stiffener object or None per case['stiffs'] entry])"""
    from compmech.stiffpanelbay import StiffPanelBay
    bay = StiffPanelBay()
    bay.a, bay.b, bay.r = case['a'], case['b'], case['r']
    bay.m, bay.n = case['m'], case['n']
    bay.stack, bay.plyt, bay.laminaprop, bay.mu = list(case['stack']), case['plyt'], tuple(case['laminaprop']), case['mu']
    bay.model = 'cpanel_clt_donnell_bardell' if case['curved'] else 'plate_clt_donnell_bardell'
    for k, v in case['flags'].items():
        setattr(bay, k, v)
    cuts = list(case['cuts'] if cuts is None else cuts)
    ys = [0.] + cuts + [case['b']]
    for y1, y2 in zip(ys[:-1], ys[1:]):
        bay.add_panel(y1=y1, y2=y2, **case['loads'])
    objs = []
    for k, s in enumerate(case['stiffs']):
        if omit is not None and k == omit:
            objs.append(None)
            continue
        lp = tuple(s['lp'])
        kw = dict(ys=s['ys'])
        if s['base']:
            kw.update(bb=s['bb'], bstack=list(s['bstack']), bplyt=s['bplyt'], blaminaprop=lp)
        if s['flange']:
            kw.update(bf=s['bf'], fstack=list(s['fstack']), fplyt=s['fplyt'], flaminaprop=lp)
        if s['type'] == 'b1':
            if not s['flange'] and s.get('give_bf', True):
                kw['bf'] = s['bf']
            o = pc.quiet(bay.add_bladestiff1d, Fx=s['Fx'], **kw)
        elif s['type'] == 'b2':
            o = pc.quiet(bay.add_bladestiff2d, mf=s['mf'], nf=s['nf'], **kw)
            if s['flange']:
                o.flange.Nxx = s['Fx'] / 10.
                o.flange.forces = [list(f) for f in s['forces_flange']]
                for kf, vf in (s.get('fflags') or {}).items():
                    setattr(o.flange, kf, vf)
        else:
            o = pc.quiet(bay.add_tstiff2d, mb=s['mb'], nb=s['nb'], mf=s['mf'], nf=s['nf'], Nxxf=s['Fx'] / 10., **kw)
            o.flange.forces = [list(f) for f in s['forces_flange']]
            o.base.forces = [list(f) for f in s['forces_base']]
            for kf, vf in (s.get('fflags') or {}).items():
                setattr(o.flange, kf, vf)
        objs.append(o)
    bay.forces_skin = [list(f) for f in case['forces_skin']]
    return bay, objs


def bay_ranges(case, bay):
    """[(key, size)] in the order of the amplitude vector: skin, 2-D blade flanges, T bases and flanges —
    computed here from the components' own get_size()"""
    import compmech.panel.modelDB as pm
    out = [('skin', pm.db[bay.model]['num'] * bay.m * bay.n)]
    for s in bay.bladestiff2ds:
        if s.flange is not None:
            out.append((('b2f', id(s)), pc.quiet(s.flange.get_size)))
    for s in bay.tstiff2ds:
        out.append((('tb', id(s)), pc.quiet(s.base.get_size)))
        out.append((('tf', id(s)), pc.quiet(s.flange.get_size)))
    return out


def skin_fext(case, bay):
    """stand-alone force vector of the skin: a skin panel (it carries the bay's series) loaded with the bay's skin forces"""
    p = bay.panels[0]
    old = p.forces, p.forces_inc
    p.forces, p.forces_inc = [list(f) for f in case['forces_skin']], []
    try:
        return np.array(np.asarray(pc.quiet(p.calc_fext, silent=True)), dtype=float)
    finally:
        p.forces, p.forces_inc = old


def classify_bay_exc(case, exc, what, omit=None):
    stiffs = [s for k, s in enumerate(case['stiffs']) if k != omit]
    if any(s['type'] == 'b2' and not s['flange'] for s in stiffs) and 'AttributeError' in exc and "'NoneType' object has no attribute" in exc \
            and ("'get_size'" in exc or "'model'" in exc):
        return ID_FLANGELESS
    if what == 'kM' and any(s['type'] == 'b1' and s['base'] for s in stiffs) and exc.startswith('KeyError: None'):
        return ID_B1_BASE_KM
    return None


def bay_global(case, bay, what):
    """(dense matrix or vector, None) or (None, 'Type: message')"""
    try:
        with no_gc():
            if what == 'fext':
                return np.array(pc.quiet(bay.calc_fext, silent=True), dtype=float), None
            if what == 'size':
                return pc.quiet(bay.get_size), None
            r = pc.quiet(getattr(bay, 'calc_' + what), silent=True)
            return dense(r), None
    except Exception as e:
        return None, '%s: %s' % (type(e).__name__, e)


def record_bay(case):
    """global methods with every component call recorded"""
    from compmech.panel import Panel
    import compmech.stiffener.modelDB as sm
    import compmech.stiffener.tstiff2d as tmod
    out = dict(exc={}, rec={})
    try:
        bay, objs = build_bay(case)
    except Exception as e:
        out['build_exc'] = '%s: %s' % (type(e).__name__, e)
        return out
    out['bay'] = bay
    P = Patches()
    state = dict(cur=None, log=None)

    def role(pan):
        for i, p in enumerate(bay.panels):
            if p is pan:
                return ('skin', i, 'panel')
        for i, s in enumerate(bay.bladestiff1ds):
            if s.base is pan:
                return ('b1', i, 'base')
        for i, s in enumerate(bay.bladestiff2ds):
            if s.base is pan:
                return ('b2', i, 'base')
            if s.flange is pan:
                return ('b2', i, 'flange')
        for i, s in enumerate(bay.tstiff2ds):
            if s.base is pan:
                return ('t', i, 'base')
            if s.flange is pan:
                return ('t', i, 'flange')
        return ('?', -1, 'panel')

    def wrap_panel_method(name, orig):
        def f(self, *a, **k):
            r = orig(self, *a, **k)
            if state['log'] is not None:
                kind, i, part = role(self)
                state['log'].append(dict(owner=(kind, i), name=part, size=k.get('size'), row0=k.get('row0', 0),
                                         col0=k.get('col0', 0), M=r.copy()))
            return r
        return f
    for name in KINDS:
        P.set(Panel, 'calc_' + name, wrap_panel_method(name, getattr(Panel, 'calc_' + name)))

    def wrap_kernel(mod, nm):
        orig = getattr(mod, nm)

        def f(*a, **k):
            r = orig(*a, **k)
            if state['log'] is not None:
                size, row0, col0 = sizes_args(a, k)
                state['log'].append(dict(owner=state['cur'], name=nm, size=size, row0=row0, col0=col0, M=r.copy()))
            return r
        P.set(mod, nm, f)
    m1 = sm.db['bladestiff1d_clt_donnell_bardell']['matrices']
    for nm in ('fk0f', 'fkG0f', 'fkMf'):
        wrap_kernel(m1, nm)
    m2 = sm.db['bladestiff2d_clt_donnell_bardell']['connections']
    for nm in ('fkCss', 'fkCsf', 'fkCff'):
        wrap_kernel(m2, nm)
    m3 = sm.db['tstiff2d_clt_donnell_bardell']['connections']
    for nm in ('fkCppy1y2', 'fkCpby1y2', 'fkCbbpby1y2'):
        wrap_kernel(m3, nm)
    for nm in ('fkCBFycte11', 'fkCBFycte12', 'fkCBFycte22'):
        wrap_kernel(tmod, nm)

    def wrap_stiff(kind, i, s, name):
        orig = getattr(s, 'calc_' + name)

        def f(*a, **k):
            state['cur'] = (kind, i)
            if state['log'] is not None:
                state['log'].append(dict(owner=(kind, i), name='stiffcall', size=k.get('size'), row0=k.get('row0', 0),
                                         col0=k.get('col0', 0), M=None))
            try:
                return orig(*a, **k)
            finally:
                state['cur'] = None
        P.set(s, 'calc_' + name, f)
    for kind, lst in (('b1', bay.bladestiff1ds), ('b2', bay.bladestiff2ds), ('t', bay.tstiff2ds)):
        for i, s in enumerate(lst):
            for name in KINDS:
                wrap_stiff(kind, i, s, name)
    try:
        out['size'], e = bay_global(case, bay, 'size')
        if e:
            out['exc']['size'] = e
        for what in KINDS:
            state['log'] = []
            out[what], e = bay_global(case, bay, what)
            out['rec'][what] = state['log']
            state['log'] = None
            if e:
                out['exc'][what] = e
    finally:
        P.restore()
    return out


def bay_lines(case, out):
    import compmech.panel.modelDB as pm
    bay = out['bay']
    num = pm.db[bay.model]['num']
    lines = []
    for what in KINDS:
        if what in out['exc']:
            continue
        log = [r for r in out['rec'][what] if r['name'] != 'stiffcall']

        def get(owner, name):
            for r in log:
                if r['owner'] == owner and r['name'] == name:
                    return coo_text(r['M'], r['row0'], r['col0'])
            return 'e'
        skins = ' ; '.join(get(('skin', i), 'panel') for i in range(len(bay.panels)))
        b1 = ' ; '.join('%s : %s' % ('-' if s.base is None else get(('b1', i), 'base'),
                                     '-' if s.flam is None else get(('b1', i), {'k0': 'fk0f', 'kG0': 'fkG0f', 'kM': 'fkMf'}[what]))
                        for i, s in enumerate(bay.bladestiff1ds))
        b2 = ' ; '.join('%s : %d : %s : %s : %s : %s' % (
            '-' if s.base is None else get(('b2', i), 'base'),
            0 if s.flange is None else pc.quiet(s.flange.get_size),
            '-' if s.flange is None else get(('b2', i), 'flange'),
            get(('b2', i), 'fkCss'), get(('b2', i), 'fkCsf'), get(('b2', i), 'fkCff'))
            for i, s in enumerate(bay.bladestiff2ds))
        ts = ' ; '.join('%d %d : %s' % (pc.quiet(s.base.get_size), pc.quiet(s.flange.get_size), ' : '.join(
            get(('t', i), nm) for nm in ('base', 'flange', 'fkCppy1y2', 'fkCpby1y2', 'fkCbbpby1y2', 'fkCBFycte11',
                                         'fkCBFycte12', 'fkCBFycte22'))) for i, s in enumerate(bay.tstiff2ds))
        lines.append((what, 'C13 bay %s %d %d %d | %s | %s | %s | %s' % (what, num, bay.m, bay.n, skins, b1, b2, ts)))
    return lines


def bay_size_line(case, bay):
    """a `bay` line without matrices: only sizes / offsets (used when the package raises before any kernel call)"""
    import compmech.panel.modelDB as pm
    num = pm.db[bay.model]['num']
    b1 = ' ; '.join('%s : %s' % ('-' if s.base is None else 'e', '-' if s.flam is None else 'e') for s in bay.bladestiff1ds)
    b2 = ' ; '.join('%s : %d : %s : e : e : e' % ('-' if s.base is None else 'e', 0 if s.flange is None else pc.quiet(s.flange.get_size),
                                                 '-' if s.flange is None else 'e') for s in bay.bladestiff2ds)
    ts = ' ; '.join('%d %d : e : e : e : e : e : e : e : e' % (pc.quiet(s.base.get_size), pc.quiet(s.flange.get_size))
                    for s in bay.tstiff2ds)
    skins = ' ; '.join('e' for _ in bay.panels)
    return 'C13 bay k0 %d %d %d | %s | %s | %s | %s' % (num, bay.m, bay.n, skins, b1, b2, ts)


def compare_bay(case, out, replies):
    for (what, line), rep in replies:
        if rep.startswith('err'):
            return 'driver: %s on %s' % (rep, what)
        f = [x.strip() for x in rep.split('|')]
        if what == 'sizeonly':
            want = 'none' if 'size' in out['exc'] else str(out['size'])
            if f[0] != want:
                return 'get_size: model %s, package %s' % (f[0], want if want != 'none' else out['exc']['size'])
            continue
        if what == 'fext':
            if 'fext' in out['exc']:
                if rep.strip() != 'none' and classify_bay_exc(case, out['exc']['fext'], 'fext') == ID_FLANGELESS:
                    return 'calc_fext: package raises %s, model returns a vector' % out['exc']['fext']
                continue
            if rep.strip() == 'none':
                return 'calc_fext: model raises, package returns a vector'
            got = np.array([float(unq(w)) for w in rep.split()])
            STATS['model_vector_comparisons'] += 1
            if len(got) != len(out['fext']) or rel(got, out['fext']) > 1e-9:
                return 'calc_fext: model concatenation differs from the package vector'
            continue
        size = out['size']
        if f[0] != str(size):
            return 'get_size: model %s, package %s' % (f[0], size)
        blocks = [tuple(int(x) for x in s.split()) for s in f[1].split(';') if s.strip()]
        seq = [(TAG[r['name']], r['row0'], r['col0']) for r in out['rec'][what] if r['name'] != 'stiffcall']
        if blocks != seq:
            k = next((i for i, (x, y) in enumerate(zip(blocks, seq)) if x != y), min(len(blocks), len(seq)))
            return '%s: kernel call sequence (kernel, row0, col0) differs at call %d: model %r, package %r' % (
                what, k, blocks[k] if k < len(blocks) else None, seq[k] if k < len(seq) else None)
        for r in out['rec'][what]:
            if r['size'] != size:
                return '%s: a component was asked for size %r, model %d' % (what, r['size'], size)
        M = coo_reply_dense(f[2], size)
        if M is None:
            return '%s: model wrote outside the reported size' % what
        STATS['model_matrix_comparisons'] += 1
        STATS['kernel_calls_recorded'] += len(seq)
        d = rel(M, out[what])
        if d > 1e-9:
            i, j = np.unravel_index(np.abs(M - out[what]).argmax(), M.shape)
            return '%s: model assembled matrix differs from the package: rel %.3e at [%d,%d] (model %.6e, package %.6e)' % (
                what, d, i, j, M[i, j], out[what][i, j])
    return None


def standalone_sum(case, bay, what):
    """finalised sum of the stand-alone component matrices embedded at offsets computed HERE"""
    ranges = bay_ranges(case, bay)
    start = {}
    off = 0
    for key, sz in ranges:
        start[key] = off
        off += sz
    total = off
    skin = ranges[0][1]
    S = np.zeros((total, total))
    attr = what
    piece = [0.]
    with no_gc():
        pc.quiet(bay._rebuild)
        for p in bay.panels:
            Mp = dense(pc.quiet(getattr(p, 'calc_' + what), size=skin, row0=0, col0=0, silent=True, finalize=False), skin)
            piece.append(np.abs(Mp).max() if Mp.size else 0.)
            S[:skin, :skin] += Mp
        for s in bay.bladestiff1ds:
            pc.quiet(getattr(s, 'calc_' + what), size=skin, row0=0, col0=0, silent=True, finalize=False)
            S[:skin, :skin] += dense(getattr(s, attr), skin)
        for s in bay.bladestiff2ds:
            own = pc.quiet(s.flange.get_size) if s.flange is not None else 0
            loc = skin + own
            if what in ('kG0', 'kM'):
                # no connection terms: exactly the PANELS of the stiffener (pad-up on the skin amplitudes - mass only -,
                # flange at its own range), each stand-alone
                if what == 'kM' and s.base is not None:
                    Mp = dense(pc.quiet(s.base.calc_kM, size=skin, row0=0, col0=0, silent=True, finalize=False), skin)
                    piece.append(np.abs(Mp).max() if Mp.size else 0.)
                    S[:skin, :skin] += Mp
                if s.flange is not None:
                    o = start[('b2f', id(s))]
                    Mp = dense(pc.quiet(getattr(s.flange, 'calc_' + what), size=own, row0=0, col0=0, silent=True, finalize=False), own)
                    piece.append(np.abs(Mp).max() if Mp.size else 0.)
                    S[o:o + own, o:o + own] += Mp
                continue
            pc.quiet(getattr(s, 'calc_' + what), size=loc, row0=skin, col0=skin, silent=True, finalize=False)
            M = dense(getattr(s, attr), loc)
            idx = np.concatenate([np.arange(skin), (start[('b2f', id(s))] + np.arange(own)) if own else np.arange(0)]).astype(int)
            S[np.ix_(idx, idx)] += M
        for s in bay.tstiff2ds:
            bs, fs = pc.quiet(s.base.get_size), pc.quiet(s.flange.get_size)
            if what in ('kG0', 'kM'):
                # no connection terms: the T stiffener contributes exactly its two PANELS, each stand-alone at its own range
                for pan, off, sz in ((s.base, start[('tb', id(s))], bs), (s.flange, start[('tb', id(s))] + bs, fs)):
                    Mp = dense(pc.quiet(getattr(pan, 'calc_' + what), size=sz, row0=0, col0=0, silent=True, finalize=False), sz)
                    piece.append(np.abs(Mp).max() if Mp.size else 0.)
                    S[off:off + sz, off:off + sz] += Mp
                continue
            loc = skin + bs + fs
            pc.quiet(getattr(s, 'calc_' + what), size=loc, row0=skin, col0=skin, silent=True, finalize=False)
            M = dense(getattr(s, attr), loc)
            idx = np.concatenate([np.arange(skin), start[('tb', id(s))] + np.arange(bs + fs)]).astype(int)
            S[np.ix_(idx, idx)] += M
    return fin_sym(S), total, max(piece)


def embed_without(case, bay_w, objs_w, bay_o, objs_o, K_o):
    """matrix of the bay without one stiffener, embedded in the index set of the bay with it"""
    def keyed(case, bay, objs):
        rev = {}
        for k, o in enumerate(objs):
            if o is not None:
                rev[id(o)] = k
        out = []
        off = 0
        for key, sz in bay_ranges(case, bay):
            kk = 'skin' if key == 'skin' else (key[0], rev[key[1]])
            out.append((kk, off, sz))
            off += sz
        return out, off
    rw, tw = keyed(case, bay_w, objs_w)
    ro, to = keyed(case, bay_o, objs_o)
    pos = {k: (off, sz) for k, off, sz in rw}
    idx = np.zeros(to, dtype=int)
    for k, off, sz in ro:
        idx[off:off + sz] = pos[k][0] + np.arange(sz)
    E = np.zeros((tw, tw))
    E[np.ix_(idx, idx)] = K_o
    return E


def oracle_checks(ctx, case, bay, G, rng, PIECE):
    """energy-definition oracle (exact Bardell polynomials, tools/panel_v.py) for the components that integrate over a
    sub-domain: the skin panels together must give the energy of the WHOLE skin; the base of a T stiffener must give the
    energy of the base strip"""
    bad = []
    skin = bay_ranges(case, bay)[0][1]
    params = dict(case['loads'])
    if bay.panels and rng.random() < ctx.scale(0.35, 0.5):
        p0 = bay.panels[0]
        for what in KINDS:
            if G.get(what) is None:
                continue
            S = np.zeros((skin, skin))
            with no_gc():
                for p in bay.panels:
                    S += dense(pc.quiet(getattr(p, 'calc_' + what), size=skin, row0=0, col0=0, silent=True, finalize=False), skin)
            prm = dict(params, delta=p0.offset)
            want = panel_v.oracle_matrix(bay.model, p0, what, prm, skin, 0, 0, None)
            if what == 'k0' and any(case['loads'].get(k_) for k_ in ('Nxx_cte', 'Nyy_cte', 'Nxy_cte')):
                want = want + panel_v.oracle_matrix(bay.model, p0, 'kG0', dict(Nxx=case['loads'].get('Nxx_cte', 0.), Nyy=case['loads'].get('Nyy_cte', 0.),
                                                                               Nxy=case['loads'].get('Nxy_cte', 0.)), skin, 0, 0, None)
            STATS['oracle_checks'] += 1
            d = rel(fin_sym(S), fin_sym(want), PIECE.get(what, 0.))
            if d > 1e-8:
                bad.append((None, 'the skin panels cut at %r do not add up to the %s of the whole skin (energy oracle): rel %.3e' % (
                    case['cuts'], what, d)))
    for s in bay.tstiff2ds[:1]:
        base = s.base
        sz = pc.quiet(base.get_size)
        with no_gc():
            K = fin_sym(dense(pc.quiet(base.calc_k0, size=sz, row0=0, col0=0, silent=True, finalize=False), sz))
        own = fin_sym(panel_v.oracle_matrix(base.model, base, 'k0', {}, sz, 0, 0, None))
        STATS['oracle_checks'] += 1
        d = rel(K, own)
        if d > 1e-8:
            asis = fin_sym(panel_v.oracle_matrix(base.model, base, 'k0', {}, sz, 0, 0, (base.y1, base.y2)))
            ident = ID_T_BASE if rel(K, asis) < 1e-8 else None
            bad.append((ident, 'the stiffness of the base of a T stiffener (width bb=%.4g at ys=%.4g) is not the strain energy of the '
                               'base strip: rel %.3e; it is the integral over eta in [%.3f, %.3f] of the base\'s own series '
                               '(y1, y2 given in bay coordinates to a panel of width bb)' % (
                                   base.b, s.ys, d, 2 * base.y1 / base.b - 1, 2 * base.y2 / base.b - 1)))
    return bad


def predicates_bay(ctx, case, rng):
    """property predicates directly on the implementation: [(identity, text)]"""
    bad = []
    try:
        bay, objs = build_bay(case)
    except Exception as e:
        exc = '%s: %s' % (type(e).__name__, e)
        ident = ID_B1_NEEDS_BF if ("unsupported operand type(s) for /: 'NoneType' and 'float'" in exc and any(
            s['type'] == 'b1' and not s['flange'] and not s.get('give_bf', True) for s in case['stiffs'])) else None
        return [(ident, 'building the bay raises %s (1-D blade stiffener with a base only and no flange width)' % exc)]
    # sizes
    want_total = sum(sz for _, sz in bay_ranges(case, bay))
    size, e = bay_global(case, bay, 'size')
    if e:
        bad.append((classify_bay_exc(case, e, 'size'), 'get_size raises %s; the sum of the component sizes is %d' % (e, want_total)))
    elif size != want_total:
        bad.append((None, 'reported size %d is not the sum of the component sizes %d' % (size, want_total)))
    # 1-D blade: the flange offset handed to the mass kernel
    for s in bay.bladestiff1ds:
        if s.base is not None and s.flam is not None:
            pc.quiet(s._rebuild)
            hb = sum(s.bplyts)
            if abs(s.hb - hb) > 1e-12 * hb:
                bad.append((ID_B1_HB, 'BladeStiff1D.hb = %r although the base is %r thick: fkMf places the flange mass at h/2 + bf/2 '
                                      'instead of h/2 + hb + bf/2' % (s.hb, hb)))
                break
    G = {}
    PIECE = {}
    for what in KINDS:
        G[what], e = bay_global(case, bay, what)
        if e:
            bad.append((classify_bay_exc(case, e, what), 'calc_%s raises %s' % (what, e)))
            continue
        want, total, PIECE[what] = standalone_sum(case, bay, what)
        STATS['placed_sum_checks'] += 1
        d = rel(G[what], want, PIECE[what])
        if d > 1e-9:
            i, j = np.unravel_index(np.abs(G[what] - want).argmax(), want.shape) if G[what].shape == want.shape else (-1, -1)
            bad.append((None, 'calc_%s is not the finalised sum of the stand-alone component matrices placed at their ranges: '
                              'rel %.3e at [%d,%d] (shape %r vs %r)' % (what, d, i, j, G[what].shape, want.shape)))
        if np.abs(G[what] - G[what].T).max() > 0:
            bad.append((None, 'calc_%s is not symmetric' % what))
    bad += oracle_checks(ctx, case, bay, G, rng, PIECE)
    # force vector
    v, e = bay_global(case, bay, 'fext')
    if e:
        bad.append((classify_bay_exc(case, e, 'fext'), 'calc_fext raises %s' % e))
    else:
        parts = [skin_fext(case, bay)]
        for s in bay.bladestiff2ds:
            if s.flange is not None:
                parts.append(np.asarray(pc.quiet(s.flange.calc_fext, silent=True)))
        for s in bay.tstiff2ds:
            parts.append(np.asarray(pc.quiet(s.base.calc_fext, silent=True)))
            parts.append(np.asarray(pc.quiet(s.flange.calc_fext, silent=True)))
        want = np.concatenate(parts)
        if len(v) != len(want) or rel(v, want) > 1e-9:
            bad.append((None, 'calc_fext is not the concatenation of the component force vectors'))
    # skin split invariance
    bay2, _ = build_bay(case, cuts=case['alt_cuts'])
    for what in KINDS:
        if G.get(what) is None:
            continue
        M2, e = bay_global(case, bay2, what)
        if e:
            bad.append((classify_bay_exc(case, e, what), 'calc_%s of the same bay with the skin cut at %r raises %s' % (
                what, case['alt_cuts'], e)))
            continue
        d = rel(G[what], M2, PIECE.get(what, 0.))
        STATS['split_checks'] += 1
        if d > 1e-9:
            bad.append((None, 'calc_%s changes when the skin is cut at %r instead of %r: rel %.3e' % (
                what, case['alt_cuts'], case['cuts'], d)))
    # stiffener contribution symmetric PSD
    if case['stiffs']:
        ks = list(range(len(case['stiffs'])))
        rng.shuffle(ks)
        for k in ks[:ctx.scale(2, 6)]:
            bay_o, objs_o = build_bay(case, omit=k)
            for what in ('k0', 'kM'):
                if G.get(what) is None:
                    continue
                Ko, e = bay_global(case, bay_o, what)
                if e:
                    bad.append((classify_bay_exc(case, e, what, omit=k), 'calc_%s without stiffener %d raises %s' % (what, k, e)))
                    continue
                D = G[what] - embed_without(case, bay, objs, bay_o, objs_o, Ko)
                sc = max(np.abs(D).max(), 1e-300)
                if np.abs(D - D.T).max() > 1e-12 * sc + 1e-13 * np.abs(G[what]).max():
                    bad.append((None, 'contribution of stiffener %d (%s) to %s is not symmetric' % (k, case['stiffs'][k]['type'], what)))
                    continue
                w = np.linalg.eigvalsh((D + D.T) / 2)
                STATS['psd_checks'] += 1
                # D is a difference of two global matrices: its rounding noise scales with THEIR entries
                if w.min() < -(1e-9 * max(abs(w).max(), 1e-300) + 1e-13 * np.abs(G[what]).max()):
                    st = case['stiffs'][k]
                    ident = None
                    if st['type'] == 'b1' and st['flange']:
                        if what == 'kM':
                            ident = ID_B1_MASS
                        elif any(abs(ang) % 90 != 0 for ang in st['fstack']):
                            ident = ID_B1_TWIST
                    bad.append((ident, 'contribution of stiffener %d (%s, base=%s, flange=%s) to %s is not positive semi-definite: '
                                      'min eigenvalue %.3e, max %.3e' % (k, case['stiffs'][k]['type'], case['stiffs'][k]['base'],
                                                                         case['stiffs'][k]['flange'], what, w.min(), w.max())))
    return bad


def bay_fext_line(case, out):
    bay = out['bay']
    b2 = ' ; '.join('-' if s.flange is None else vec_text(pc.quiet(s.flange.calc_fext, silent=True)) for s in bay.bladestiff2ds)
    ts = ' ; '.join('%s : %s' % (vec_text(pc.quiet(s.base.calc_fext, silent=True)), vec_text(pc.quiet(s.flange.calc_fext, silent=True)))
                    for s in bay.tstiff2ds)
    return 'C13 bayfext | %s | %s | %s' % (vec_text(skin_fext(case, bay)), b2, ts)


# ============================================================================================== driver of the check
def corpus():
    """deterministic witnesses of the listed known findings + minimised past disagreements: run first"""
    import random
    rng = random.Random(1313)
    out = []
    a1 = gen_asm(rng)
    a1['panels'] = a1['panels'][:1]
    a1['conns'] = []
    out.append(a1)                                       # single panel: no connections possible
    for _ in range(40):
        b = gen_bay(rng)
        if len(b['cuts']) >= 1 and not b['forces_skin']:
            break
    base = dict(type='b2', ys=b['cuts'][0], bb=0.1 * b['b'], bf=0.08 * b['b'], bstack=[0, 90], fstack=[0, 90], bplyt=1.25e-4,
                fplyt=1.25e-4, lp=LP[0], base=True, flange=False, mf=2, nf=2, mb=2, nb=2, Fx=0., forces_flange=[], forces_base=[],
                fflags=None)
    b1 = dict(b, stiffs=[dict(base)], forces_skin=[])
    b1['alt_cuts'] = [b['cuts'][0]]
    out.append(b1)                                       # flange-less 2-D blade
    b2 = dict(b, stiffs=[dict(base, type='b1', flange=True, give_bf=True)], forces_skin=[])
    b2['alt_cuts'] = [b['cuts'][0]]
    out.append(b2)                                       # 1-D blade with base and flange: kM, hb
    b3 = dict(b, stiffs=[dict(base, type='b1', flange=False, give_bf=False)], forces_skin=[])
    b3['alt_cuts'] = [b['cuts'][0]]
    out.append(b3)                                       # 1-D blade base only, no bf
    b4 = dict(b, stiffs=[], forces_skin=[[0.3 * b['a'], 0.4 * b['b'], 0., 0., 1.]])
    b4['alt_cuts'] = []
    out.append(b4)                                       # skin force
    free = {f + e + d: 1. for f in 'uvw' for e in ('1t', '1r', '2t', '2r') for d in 'xy'}
    b5 = dict(b, flags=free, m=3, n=3, forces_skin=[],
              stiffs=[dict(base, type='b1', base=False, flange=True, give_bf=True, fstack=[45, 0], fplyt=5e-4)])
    b5['alt_cuts'] = [b['cuts'][0]]
    out.append(b5)                                       # 1-D blade flange with an off-axis ply: mass and stiffness not PSD
    b6 = dict(b, flags=free, m=3, n=2, forces_skin=[], stiffs=[dict(base, type='t', base=True, flange=True, mb=2, nb=3, mf=3, nf=2)])
    b6['alt_cuts'] = [b['cuts'][0]]
    out.append(b6)                                       # T stiffener: base integrated outside its strip
    return out


def run_cases(ctx, cases, rng):
    """returns list of per-case results; records violations itself"""
    lines = []
    todo = []
    for case in cases:
        ctx.evaluations += 1
        if case['kind'] == 'asm':
            out = record_asm(case)
            try:
                ls = asm_lines(case, out)
            except Misplaced as e:
                ls = []
                out['misplaced'] = str(e)
        else:
            out = record_bay(case)
            ls = []
            if 'bay' in out:
                try:
                    ls = bay_lines(case, out)
                except Misplaced as e:
                    out['misplaced'] = str(e)
                ls.append(('sizeonly', bay_size_line(case, out['bay'])))
                v, e = bay_global(case, out['bay'], 'fext')
                if e:
                    out['exc']['fext'] = e
                else:
                    out['fext'] = v
                ls.append(('fext', bay_fext_line(case, out)))
        todo.append((case, out, len(lines), len(ls), ls))
        lines += [l for _, l in ls]
    replies = driver(lines, pid='C13') if lines else []
    if len(replies) != len(lines):
        raise RuntimeError('driver returned %d replies for %d lines' % (len(replies), len(lines)))
    for case, out, k0, n, ls in todo:
        reps = list(zip(ls, replies[k0:k0 + n]))
        if case['kind'] == 'asm':
            props = predicates_asm(case)
            d = compare_asm(case, out, reps)
        else:
            props = predicates_bay(ctx, case, rng)
            d = compare_bay(case, out, reps) if 'bay' in out else None
        out.pop('bay', None)
        d = out.get('misplaced') or d
        real = False
        for ident, text in props:
            if ctx.violation('C13 fails on the implementation: ' + text, dict(case=case), identity=ident):
                real = True
        if d and not real:
            ctx.violation('model/implementation disagreement (%s); the property predicates hold on this case' % d,
                          dict(case=case, correspondence='Model/Assembly.lean vs assembly.py / stiffpanelbay.py'),
                          found_input=False)
            real = True
        if real and len(ctx.violations) >= 5:
            return False
    return True


# ---------------------------------------------------------------------------------------------- stiffener kernels: T, V, energies
def translate(ctx):
    if not hasattr(ctx, '_stiff_ir'):
        ctx._stiff_ir = gen_stiff.translate_all()
    return ctx._stiff_ir


def stiff_rel(A, B, args):
    """max |A - B| on the scale of the larger matrix.  Basis functions that vanish on the stiffener line (eta = -1 or 1, edge flags 0, or
    the functions above the fourth, whose value and slope vanish at both ends) are evaluated there to ~1e-16 instead of 0 by the C code and
    by numpy, differently; a matrix (block) that should be null then holds noise of about 1e-15 x the largest argument (kt, E1, mu ...),
    which is discounted"""
    noise = 1e-12 * max([1.] + [abs(x) for x in args if isinstance(x, float)])
    return float(max(np.abs(A - B).max() - noise, 0.) / max(np.abs(A).max(), np.abs(B).max(), 1e-300))


def stiff_raw(A, B, args):
    """plain max |A - B| / max |.| for the evidence; 0 for matrices that are null up to the noise described above"""
    noise = 1e-12 * max([1.] + [abs(x) for x in args if isinstance(x, float)])
    sc = max(np.abs(A).max(), np.abs(B).max())
    return float(np.abs(A - B).max() / sc) if sc > 1e6 * noise else 0.


def stiff_args(name, rng, n):
    return [a for a, _ in source_tie.stiffener_cases(name, rng.randrange(1 << 30), n + 1)[1:]]


def stiff_validation(ctx, rng):
    """V: every translated stiffener kernel, interpreted numerically from the IR (loop nest, dof map, atoms, locals, entries; integrals and
    point values from the exact Bardell polynomials of tools/bardell.py), against the running kernel on random realistic arguments"""
    ir = translate(ctx)
    worst = {}
    for model, (kernels, consts) in ir.items():
        mod = pc.quiet(importlib.import_module, 'compmech.stiffener.models.' + gen_stiff.FILES[model])
        for name, K in kernels.items():
            for args in stiff_args(name, rng, ctx.scale(5, 40)):
                ctx.evaluations += 1
                real = np.asarray(getattr(mod, name)(*args).toarray(), dtype=float)
                mine = gen_stiff.interp(K, consts, args)
                d = stiff_rel(real, mine, args)
                worst[name] = max(worst.get(name, 0.), d, stiff_raw(real, mine, args))
                if d > 1e-9:
                    i, j = np.unravel_index(np.abs(real - mine).argmax(), real.shape)
                    ctx.violation('translated %s (tools/translate/gen_stiff.py, %s) interpreted on these arguments differs from the running '
                                  'kernel: rel %.3e at [%d,%d] (kernel %.9e, translated source %.9e) - the translator is wrong or source and '
                                  'binary have diverged' % (name, gen_stiff.FILES[model], d, i, j, real[i, j], mine[i, j]),
                                  dict(kind='stiffener kernel V', kernel=name, args=args), found_input=False)
                    return False
    ctx.cov['stiffener_kernel_V'] = dict(max_rel_diff=worst, tolerance=1e-9,
                                         what='IR of gen_stiff.py interpreted with exact Bardell polynomials vs compiled kernels')
    return True


# Python mirror of lean/CompmechVerif/Spec/StiffInterface.lean (operator tables: {pan: {field: {component: [(coef, d_xi, d_eta)]}}})
def _fl(P, f, d, suf=''):
    return tuple(float(P['%s%s%s%s' % (f, e, d, suf)]) for e in ('1t', '1r', '2t', '2r'))


def stiff_oracle(model, name, K, args):
    """dense matrix of the energy Hessian the Lean theorems state for kernel `name`, at the (row0, col0) the kernel is handed;
    diagonal blocks: upper triangle mirrored (what finalize_symmetric_matrix makes of the kernel's output)"""
    P = dict(zip(K.params, args))
    size, row0, col0 = int(P['size']), int(P['row0']), int(P['col0'])
    out = np.zeros((size, size))
    a, b = P['a'], P.get('b')
    one = [(1., 0, 0)]
    if model == 'Blade1D':
        eta = 2 * P['ys'] / b - 1.
        if name == 'fk0f':
            ops = {'u': {0: [(2 / a, 1, 0)]}, 'w': {0: [(P['df'] * 4 / (a * a), 2, 0)], 1: [(4 / (a * a), 2, 0)], 2: [(4 / (a * b), 1, 1)]}}
            bf = P['bf']
            W = [[bf * P['E1'], 0., -bf * P['S1']], [0., bf * P['F1'], 0.], [-bf * P['S1'], 0., bf * P['Jxx']]]
        elif name == 'fkG0f':
            ops = {'w': {0: [(2 / a, 1, 0)]}}
            W = [[P['Fx']]]
        else:
            M = P['mu'] * P['bf'] * P['hf']
            hh = P['h'] + 2 * P['hb']
            I = (4 * P['bf'] ** 2 + 6 * P['bf'] * hh + 3 * hh ** 2) / 12.
            cpl = 2. * P['df']                       # AS ENCODED (finding C13-blade1d-flange-mass-coupling-doubled: the energy has df)
            ops = {'u': {0: one}, 'v': {1: one}, 'w': {2: one, 3: [(2 / a, 1, 0)], 4: [(2 / b, 0, 1)]}}
            W = [[0.] * 5 for _ in range(5)]
            W[0][0] = W[1][1] = W[2][2] = M
            W[3][3] = W[4][4] = M * I
            W[0][3] = W[3][0] = W[1][4] = W[4][1] = M * cpl
        m, n = int(P['m']), int(P['n'])
        flds = [f for f in 'uvw' if ('%s1tx' % f) in P]
        for fa in flds:
            for fb in flds:
                for i in range(m):
                    for k in range(m):
                        for j in range(n):
                            for l in range(n):
                                tot = 0.
                                for p_, row in ops.get(fa, {}).items():
                                    for q_, col in ops.get(fb, {}).items():
                                        if W[p_][q_] == 0:
                                            continue
                                        for (cs, sx, sy) in row:
                                            for (ct_, tx, ty) in col:
                                                tot += W[p_][q_] * cs * ct_ * bardell.J(sx, i, _fl(P, fa, 'x'), tx, k, _fl(P, fb, 'x')) \
                                                    * bardell.phi(sy, j, _fl(P, fa, 'y'), eta) * bardell.phi(ty, l, _fl(P, fb, 'y'), eta)
                                out[row0 + 3 * (j * m + i) + 'uvw'.index(fa), col0 + 3 * (l * m + k) + 'uvw'.index(fb)] += a / 2. * tot
        return panel_v.finalize_sym(out)
    pa, pb = gen_stiff.FUNCS[model][name][1]
    suf2 = gen_stiff.SUFFIX2[model]
    suf = {'p1': '', 'p2': suf2}
    mn = {'p1': (int(P.get('m', 0)), int(P.get('n', 0))), 'p2': (int(P.get('m1', 0)), int(P.get('n1', 0)))}
    sgn = {'p1': 1., 'p2': -1.}
    if model == 'Blade2D':
        bf = P.get('bf')
        ops = {'p1': {'u': {0: one}, 'v': {1: one}, 'w': {2: one, 3: [(2 / b, 0, 1)] if b else []}},
               'p2': {'u': {0: one}, 'w': {1: one, 3: [(2 / bf, 0, 1)] if bf else []}, 'v': {2: [(-1., 0, 0)]}}}
        W = [P['kt'], P['kt'], P['kt'], P['kr']]
        pt = {'p1': (2 * P['ys'] / b - 1.) if b else None, 'p2': -1.}
        fac = a / 2.

        def yint(pA, fA, sy, j, pB, fB, ty, l):
            return bardell.phi(sy, j, _fl(P, fA, 'y', suf[pA]), pt[pA]) * bardell.phi(ty, l, _fl(P, fB, 'y', suf[pB]), pt[pB])
    else:
        e1, e2 = 2 * P['y1'] / b - 1., 2 * P['y2'] / b - 1.
        c0, c1 = 0.5 * (e1 + e2), 0.5 * (e2 - e1)
        dpb = P.get('dpb', 0.)
        ops = {'p1': {'u': {0: one}, 'v': {1: one}, 'w': {2: one, 0: [(dpb * 2 / a, 1, 0)], 1: [(dpb * 2 / b, 0, 1)]}},
               'p2': {'u': {0: one}, 'v': {1: one}, 'w': {2: one}}}
        W = [P['kt'], P['kt'], P['kt'], 0.]
        fac = a * (P['y2'] - P['y1']) / 4.

        def yint(pA, fA, sy, j, pB, fB, ty, l):
            if (pA, pB) == ('p1', 'p1'):
                return bardell.J(sy, j, _fl(P, fA, 'y'), ty, l, _fl(P, fB, 'y'), e1, e2) / c1
            if (pA, pB) == ('p1', 'p2'):
                return gen_stiff.mapped_integral(ty, l, _fl(P, fB, 'y', suf2), sy, j, _fl(P, fA, 'y'), c0, c1)
            return bardell.J(sy, j, _fl(P, fA, 'y', suf2), ty, l, _fl(P, fB, 'y', suf2))
    (mA, nA), (mB, nB) = mn[pa], mn[pb]
    for fa in 'uvw':
        for fb in 'uvw':
            for i in range(mA):
                for k in range(mB):
                    for j in range(nA):
                        for l in range(nB):
                            tot = 0.
                            for c_ in range(4):
                                if W[c_] == 0:
                                    continue
                                for (cs, sx, sy) in ops[pa].get(fa, {}).get(c_, []):
                                    for (ct_, tx, ty) in ops[pb].get(fb, {}).get(c_, []):
                                        jx = bardell.J(sx, i, _fl(P, fa, 'x', suf[pa]), tx, k, _fl(P, fb, 'x', suf[pb]))
                                        if model == 'Blade2D':
                                            # line penalty: dx = order along the line, dy = order normal to it
                                            tot += W[c_] * cs * ct_ * jx * yint(pa, fa, sy, j, pb, fb, ty, l)
                                        else:
                                            tot += W[c_] * cs * ct_ * jx * yint(pa, fa, sy, j, pb, fb, ty, l)
                            out[row0 + 3 * (j * mA + i) + 'uvw'.index(fa), col0 + 3 * (l * mB + k) + 'uvw'.index(fb)] += \
                                sgn[pa] * sgn[pb] * fac * tot
    return panel_v.finalize_sym(out) if pa == pb else out


def stiff_energy_checks(ctx, rng, source=False, ncases=None):
    """the energies of Spec/StiffInterface.lean against the running kernels (source=False: implementation arm) or against the translated
    source as written (source=True: source arm of the search).  returns None or (text, replay)"""
    ir = translate(ctx)
    worst = {}
    for model, (kernels, consts) in ir.items():
        mod = pc.quiet(importlib.import_module, 'compmech.stiffener.models.' + gen_stiff.FILES[model])
        for name, K in kernels.items():
            diag = gen_stiff.FUNCS[model][name][1][0] == gen_stiff.FUNCS[model][name][1][1]
            for args in stiff_args(name, rng, ncases or ctx.scale(3, 20)):
                ctx.evaluations += 1
                if source:
                    got = gen_stiff.interp(K, consts, args)
                else:
                    got = np.asarray(getattr(mod, name)(*args).toarray(), dtype=float)
                if diag:
                    got = panel_v.finalize_sym(got)
                want = stiff_oracle(model, name, K, args)
                d = stiff_rel(got, want, args)
                worst[name] = max(worst.get(name, 0.), d, stiff_raw(got, want, args))
                if d > 1e-9:
                    i, j = np.unravel_index(np.abs(got - want).argmax(), got.shape)
                    return ('%s %s: the matrix differs from the Hessian of the energy of Spec/StiffInterface.lean (%s): rel %.3e at [%d,%d] '
                            '(%s %.9e, energy %.9e)' % (gen_stiff.FILES[model] + '.' + name,
                                                        '(source as written)' if source else '(running kernel)',
                                                        {'Blade1D': 'beam on the skin line', 'Blade2D': 'skin-flange penalty on the line y = ys',
                                                         'T2D': 'skin-base penalty over the strip'}[model], d, i, j,
                                                        'source' if source else 'kernel', got[i, j], want[i, j]),
                            dict(kind='stiffener kernel energy', kernel=name, args=args, source=source))
    ctx.cov['stiffener_kernel_energy_%s' % ('source' if source else 'binary')] = dict(max_rel_diff=worst, tolerance=1e-9)
    return None


class _Params(object):
    """stand-in for the translated kernel when the translator refuses the source: parameter names read off the executed source function"""
    def __init__(self, names):
        self.params = list(names)


def stiff_source_reading_predicate(ctx, rng):
    """translator-independent source arm: the three kernel files EXECUTED from their text (tools/cyexec.py, C integrals compiled from lib/src)
    against the energies of Spec/StiffInterface.lean - works also when gen_stiff.py refuses an edited source.  returns None or (text, replay)"""
    import inspect
    from tools import cyexec, cyexec_check as cc
    try:
        ext = source_tie.stiffener_externs()
    except Exception as e:                                   # noqa
        ctx.log('C library for the source reading unusable: %r' % (e,))
        return None
    for model, fname in gen_stiff.FILES.items():
        try:
            ns = cyexec.load(cc.source('stiffener/models/%s.pyx' % fname), repo=cc.REPO, externs=ext)
        except Exception as e:                               # noqa
            ctx.log('source reading of %s unusable: %r' % (fname, e))
            continue
        for name in sorted(gen_stiff.FUNCS[model]):
            if name not in ns:
                continue
            K = _Params(inspect.signature(ns[name]).parameters)
            diag = gen_stiff.FUNCS[model][name][1][0] == gen_stiff.FUNCS[model][name][1][1]
            for args in stiff_args(name, rng, ctx.scale(6, 20)):
                ctx.evaluations += 1
                try:
                    got = np.asarray(ns[name](*args).toarray(), dtype=float)
                    if diag:
                        got = panel_v.finalize_sym(got)
                    want = stiff_oracle(model, name, K, args)
                except Exception as e:                       # noqa
                    ctx.log('source reading of %s.%s: %r' % (fname, name, e))
                    break
                d = stiff_rel(got, want, args)
                if d > 1e-9:
                    i, j = np.unravel_index(np.abs(got - want).argmax(), got.shape)
                    return ('%s.%s (source as written, executed from its text): the matrix differs from the Hessian of the energy of Spec/StiffInterface.lean: '
                            'rel %.3e at [%d,%d] (source %.9e, energy %.9e)' % (fname, name, d, i, j, got[i, j], want[i, j]),
                            dict(kind='stiffener kernel energy (source reading)', kernel=name, args=args))
    return None


def describe(case, dist):
    if case['kind'] == 'asm':
        n = len(case['panels'])
        dist['asm_panels'][n] = dist['asm_panels'].get(n, 0) + 1
        dist['asm_conns'][len(case['conns'])] = dist['asm_conns'].get(len(case['conns']), 0) + 1
        dist['asm_p1_after_p2'] += sum(1 for c in case['conns'] if c['p1'] > c['p2'])
        dist['asm_models'] += sum(1 for c in case['panels'] if c['lean_model'] == 'CPanel')
        return n >= 3 and len(case['conns']) >= 1
    dist['bay_curved'] += case['curved']
    nc = len(case['cuts'])
    dist['bay_cuts'][nc] = dist['bay_cuts'].get(nc, 0) + 1
    kinds = [s['type'] for s in case['stiffs']]
    key = 'b1=%d b2=%d t=%d' % (kinds.count('b1'), kinds.count('b2'), kinds.count('t'))
    dist['bay_stiffeners'][key] = dist['bay_stiffeners'].get(key, 0) + 1
    for s in case['stiffs']:
        if s['type'] != 't':
            k = '%s base=%d flange=%d' % (s['type'], s['base'], s['flange'])
            dist['bay_variants'][k] = dist['bay_variants'].get(k, 0) + 1
    return len(kinds) >= 2 and len(set(kinds)) >= 2


BAY_EDITS = ['mu', 'stack', 'loads', 'mu_one_panel']


def bay_redefinition(ctx, rng, t):
    """ONE bay object is evaluated, the definition of its skin panels is edited (density, a ply angle, the membrane loads; on every panel or on one
    panel only), and it is evaluated again: the global matrices must be those of a freshly built bay with the edited data - the sum of the
    components as they are NOW.  returns (description, failure text or None)"""
    edit = BAY_EDITS[t % len(BAY_EDITS)]
    case = gen_bay(rng)
    case['stiffs'] = [s_ for s_ in case['stiffs'] if not (s_['type'] == 'b1' and s_['base'])][:1]      # (b1 with base: recorded finding for kM)
    if not case['cuts']:
        case['cuts'] = [0.37 * case['b']]
    try:
        bay, _ = build_bay(case)
    except Exception:                                # noqa
        return None, None
    what = dict(mu='kM', mu_one_panel='kM', stack='k0', loads='kG0')[edit]
    first, e = bay_global(case, bay, what)
    if e:
        return None, None

    def apply(b_):
        for k_, p_ in enumerate(b_.panels):
            if edit == 'mu' or (edit == 'mu_one_panel' and k_ == len(b_.panels) - 1):
                p_.mu = 3.5 * case['mu']
            elif edit == 'stack':
                p_.stack = [a_ + 25. for a_ in p_.stack]
            elif edit == 'loads':
                p_.Nxx, p_.Nyy, p_.Nxy = -2.5, 0.75, 1.25
    apply(bay)
    again, e = bay_global(case, bay, what)
    fresh_bay, _ = build_bay(case)
    apply(fresh_bay)
    want, e2 = bay_global(case, fresh_bay, what)
    desc = dict(kind='bay redefinition', edit=edit, matrix=what, cuts=case['cuts'], curved=case['curved'],
                stiffs=[(s_['type'], s_['base'], s_['flange']) for s_ in case['stiffs']])
    if e or e2:
        return desc, ('calc_%s raises %s after the edit' % (what, e)) if (e and not e2) else None
    d = rel(again, want)
    if d > 1e-12:
        return desc, ('calc_%s of a bay whose skin panels were edited (%s) after a first evaluation differs from that of a freshly built bay with the '
                      'same edited panels: rel %.3e (the edit itself changes the matrix by %.3e)' % (what, edit, d, rel(first, want)))
    return desc, None


def correspondence(ctx):
    rng = ctx.rng
    for t in range(ctx.scale(len(BAY_EDITS), 4 * len(BAY_EDITS))):
        desc, bad = bay_redefinition(ctx, rng, t)
        ctx.evaluations += 1
        if bad and ctx.violation('C13 fails on the implementation: ' + bad, dict(case=desc)):
            return
    # stiffener kernels: translator validation, source reading, energies on the running kernels
    if not stiff_validation(ctx, rng):
        return
    if source_tie.check(ctx, 'C13', ('stiffener_kernels',), predicate=lambda: stiff_energy_checks(ctx, rng, source=True)):
        return
    found = stiff_energy_checks(ctx, rng)
    if found:
        ctx.violation('C13 fails on the implementation: ' + found[0], found[1])
        return
    dist = dict(asm_panels={}, asm_conns={}, asm_p1_after_p2=0, asm_models=0, bay_curved=0, bay_cuts={}, bay_stiffeners={},
                bay_variants={})
    cases = corpus()
    for _ in range(ctx.scale(40, 400)):
        cases.append(gen_asm(rng))
    for _ in range(ctx.scale(70, 700)):
        cases.append(gen_bay(rng))
    for c in cases:
        if describe(c, dist):
            ctx.nontrivial.add(json.dumps(c, sort_keys=True, default=str)[:400])
    for c in cases[7:10] + cases[47:50]:
        if c['kind'] == 'asm':
            ctx.sample(dict(kind='asm', mn=[(p['m'], p['n'], p['lean_model']) for p in c['panels']], conns=c['conns']))
        else:
            ctx.sample(dict(kind='bay', curved=c['curved'], m=c['m'], n=c['n'], cuts=c['cuts'],
                            stiffs=[(s['type'], s['base'], s['flange']) for s in c['stiffs']]))
    chunk = 25
    for k in range(0, len(cases), chunk):
        if not run_cases(ctx, cases[k:k + chunk], rng):
            break
        if k % 100 == 0:
            ctx.log('cases %d/%d' % (min(k + chunk, len(cases)), len(cases)))
    ctx.cov['input_distribution'] = dist
    ctx.cov['checks_made'] = dict(STATS)
    ctx.cov['modelled_functions'] = ['PanelAssembly.__init__', 'get_size', 'get_k0_conn (placement)', 'calc_k0', 'calc_kG0',
                                     'calc_kM', 'calc_kT', 'calc_fext', 'StiffPanelBay.get_size', 'calc_k0', 'calc_kG0',
                                     'calc_kM', 'calc_fext', 'BladeStiff1D/BladeStiff2D/TStiff2D.calc_k0/kG0/kM (placement)',
                                     'sparse.make_symmetric']


def search(ctx, reason):
    """source arm for the stiffener kernels (the translated source as written against the energies of the theorems), then the
    implementation arm: the predicates do not need the model"""
    rng = ctx.rng
    try:
        found = stiff_energy_checks(ctx, rng, source=True, ncases=ctx.scale(30, 120))
    except Exception as e:                        # noqa  (the translator itself may be what broke)
        ctx.log('source arm of the stiffener kernels not available: %r' % (e,))
        found = None
    if not found:
        try:
            found = stiff_source_reading_predicate(ctx, rng)
        except Exception as e:                    # noqa
            ctx.log('source reading arm of the stiffener kernels not available: %r' % (e,))
    if found:
        ctx.violation('C13 fails on the source as written: ' + found[0] + ' [after: %s]' % '; '.join(reason)[:300], found[1])
        return True
    cases = corpus() + [gen_asm(rng) for _ in range(ctx.scale(40, 200))] + [gen_bay(rng) for _ in range(ctx.scale(60, 300))]
    found = False
    for case in cases:
        ctx.evaluations += 1
        props = predicates_asm(case) if case['kind'] == 'asm' else predicates_bay(ctx, case, rng)
        for ident, text in props:
            if ctx.violation('C13 fails on the implementation: ' + text + ' [after: %s]' % '; '.join(reason)[:300],
                             dict(case=case), identity=ident):
                found = True
        if found:
            return True
    return False


def replay(ctx, data):
    import random
    r = data['replay']
    if 'case' not in r:
        print('replay names a broken obligation, no input:', data['what'])
        return 1
    case = r['case']
    rng = random.Random(0)
    if case['kind'] == 'asm':
        out = record_asm(case)
        ls = asm_lines(case, out)
        reps = driver([l for _, l in ls], pid='C13') if ls else []
        d = compare_asm(case, out, list(zip(ls, reps)))
        props = predicates_asm(case)
    else:
        out = record_bay(case)
        d = None
        if 'bay' in out:
            ls = bay_lines(case, out) + [('sizeonly', bay_size_line(case, out['bay']))]
            reps = driver([l for _, l in ls], pid='C13')
            d = compare_bay(case, out, list(zip(ls, reps)))
        props = predicates_bay(ctx, case, rng)
    print('exceptions of the global methods:', out.get('exc'), out.get('build_exc'))
    print('model/implementation disagreement:', d)
    print('property predicates:', props)
    from tools.common import load_findings
    known = set(f['id'] for f in load_findings('C13') if f.get('status', 'known') == 'known')
    new = [p for p in props if p[0] not in known]
    return 1 if (new or d) else 0
