"""C19 — piston-theory aerodynamic matrices.
T: Gen/Panel (fkAx, fkAy, fcA) regenerated, Props/C19.lean re-checked.
V: IR vs Panel.calc_kA(finalize=False) / fcA.  H: Model/Piston.lean (coefficients from Mach etc.) vs the
beta/gamma/aeromu that Panel.calc_kA hands to the kernels (recorded by wrapping the kernel module functions).
Implementation arm: full bilinear-form oracle beta*int(w_A dw_B/dflow) - gamma*int(w_A w_B) and -aeromu*int(w_A w_B)*1j
against calc_kA()/calc_cA() for panels whose w is restrained on the flow edges; stiffened-bay delegation.
H (bay): Model/BayAero.lean vs StiffPanelBay.calc_kA and the aerodynamic part of tstiff2d_1stiff_flutter (tools/props/C19_bay.py).
"""
import numpy as np

from tools import bardell, panel_v
from tools.common import q, unq, driver
from tools.props import panel_common as pc
from tools.translate import pyx

TRUSTED = pc.TRUSTED_T + [
    'hand model lean/CompmechVerif/Model/Piston.lean of the coefficient derivation (q = (Mach^2-1)**0.5 is a parameter fed '
    'with the float the code computes)',
    'make_skew_symmetric / finalize glue of calc_kA, calc_cA are covered by the oracle comparison on explored panels only (their hand model '
    'Model/PanelGlue.lean is tied by the C02 glue correspondence)',
    'hand model lean/CompmechVerif/Model/BayAero.lean of StiffPanelBay.calc_kA (which exceptions the bay raises itself, the Mach == 1 patch on '
    'the bay, the ten attributes copied onto panels[0] in order, the delegation Panel.calc_kA(size=bay size, row0=0, col0=0, finalize=True)) and '
    'of the aerodynamic part of tstiff2d_1stiff_flutter: tied to the running code by the recorded-call correspondence tools/props/C19_bay.py '
    '(model run at Q on the exact float inputs through drivers/C19.lean) on the explored bays only; the stiffeners\' _rebuild outcome and the '
    'get_size() of the stiffener parts are parameters of that model, measured on a deep copy of the bay; the compiled kernels are parameters',
]
ASSUMPTIONS = ['conical panels are rejected by calc_kA (NotImplementedError) and are outside C19',
               'flow along y carries no curvature term in any kernel (stated in the theorems)']
RULE = ('random flat / w-only / cylindrical panels, both flow directions, w restrained on the flow edges, other flags '
        'random, coefficients given directly or derived from (Mach, rho, V, a_inf); non-trivial = m*n >= 4 and gamma != 0 '
        'or Mach route; distinct by case parameters')
KERNELS = ('fkAx', 'fkAy', 'fcA')


def translate(ctx):
    pc.translated(ctx)


def gen(ctx, rng):
    case = pc.gen_panel_case(rng, models=('Plate', 'PlateW', 'CPanel'), max_mn=ctx.scale(4, 5), y12=False)
    case['flow'] = rng.choice(['x', 'y'])
    for e in ('1t', '2t'):
        case['flags']['w' + e + case['flow']] = 0.
    if rng.random() < 0.5:
        case['aero'] = dict(beta=rng.uniform(0.5, 50), gamma=rng.choice([None, rng.uniform(0.1, 5)]),
                            aeromu=rng.choice([None, rng.uniform(0.1, 5)]), Mach=None, rho_air=None, V=None, speed_sound=None)
    else:
        M = rng.choice([1., 1.2, 2., 3.5, rng.uniform(1.05, 5)])
        ainf = rng.uniform(200, 350)
        case['aero'] = dict(beta=None, gamma=None, aeromu=None, Mach=M, rho_air=rng.uniform(0.1, 1.3), V=M * ainf,
                            speed_sound=ainf)
    return case


def bilinear_oracle(p, case, beta, gamma, kind):
    num = 1 if case['lean_model'] == 'PlateW' else 3
    m, n = p.m, p.n
    size = num * m * n
    out = np.zeros((size, size))
    flx = pc.panel_v.panel_flags(p, 'w', 'x')
    fly = pc.panel_v.panel_flags(p, 'w', 'y')
    for i in range(m):
        for k in range(m):
            for j in range(n):
                for l in range(n):
                    row = num * (j * m + i) + (num - 1)
                    col = num * (l * m + k) + (num - 1)
                    ww = bardell.J(0, i, flx, 0, k, flx) * bardell.J(0, j, fly, 0, l, fly)
                    if kind == 'cA':
                        out[row, col] = -beta * p.a * p.b / 4 * ww
                        continue
                    if case['flow'] == 'x':
                        wd = bardell.J(0, i, flx, 1, k, flx) * (2 / p.a) * bardell.J(0, j, fly, 0, l, fly)
                    else:
                        wd = bardell.J(0, i, flx, 0, k, flx) * bardell.J(0, j, fly, 1, l, fly) * (2 / p.b)
                    out[row, col] = p.a * p.b / 4 * (beta * wd - gamma * ww)
    return out


def run_case(ctx, case, ir, lines):
    """returns (V disagreement, property failure, H line or None, impl coefficients)"""
    import importlib
    kernels, schemas, consts = ir[case['lean_model']]
    p = pc.make_panel(case)
    p.flow = case['flow']
    for k, v in case['aero'].items():
        setattr(p, k, v)
    pc.quiet(p.calc_k0, silent=True)
    mod = importlib.import_module('compmech.panel.models.' + case['model'])
    seen = {}
    from compmech.panel import modelDB

    class Rec(object):
        def __getattr__(self, nm):
            f = getattr(mod, nm)
            if nm in ('fkAx', 'fkAy', 'fcA'):
                def g(*a, **k):
                    seen.setdefault(nm, []).append(a)
                    return f(*a, **k)
                return g
            return f
    old = modelDB.db[case['model']]['matrices']
    modelDB.db[case['model']]['matrices'] = Rec()
    try:
        try:
            raw = pc.quiet(p.calc_kA, silent=True, finalize=False).toarray()
            err = None
        except ValueError as e:
            raw, err = None, str(e)
    finally:
        modelDB.db[case['model']]['matrices'] = old
    a = case['aero']
    M = a['Mach']
    if M is not None:
        Me = 1.0001 if M == 1 else M
        qv = (Me ** 2 - 1) ** 0.5
    else:
        qv = 1.
    f = lambda x: '-' if x is None else q(x)
    r = p.r if p.r is not None else 0.
    line = 'C19 coefs %s %s %s %s %s %s %s %s %s' % (f(a['beta']), f(a['gamma']), f(a['aeromu']), f(M), q(a['rho_air'] or 0.),
                                                  q(a['V'] or 0.), q(a['speed_sound'] or 1.), q(r), q(qv))
    if err is not None:
        return None, 'calc_kA raised %s' % err, line, None
    kn = 'fkAx' if case['flow'] == 'x' else 'fkAy'
    # coefficients handed to the kernel (the matrices are linear in them: several calls add up)
    beta = sum(a_[0] for a_ in seen[kn])
    gamma = sum(a_[1] for a_ in seen[kn]) if kn == 'fkAx' else 0.
    handed = (beta, gamma)
    if case['lean_model'] != 'CPanel':
        gamma = 0.          # 'gamma only for curved panels': the flat kernels have no curvature term (theorem kAx_entry_plate)
    size = raw.shape[0]
    mine = panel_v.interp_kernel(kernels[kn], consts, p, dict(beta=beta, gamma=gamma), size, 0, 0)
    v_bad = p_bad = None
    d = pc.rel_diff(raw, mine)
    if d > 1e-9:
        v_bad = 'translated %s interpreted on this panel differs from Panel.calc_kA(finalize=False): rel %.3e' % (kn, d)
    full = pc.quiet(p.calc_kA, silent=True).toarray()
    want = bilinear_oracle(p, case, beta, gamma, 'kA')
    d2 = pc.rel_diff(full, want)
    if d2 > 1e-8:
        i, j = np.unravel_index(np.abs(full - want).argmax(), full.shape)
        low = i > j
        p_bad = ('calc_kA differs from beta*int(w_A dw_B/d%s) - gamma*int(w_A w_B): rel %.3e at [%d,%d] (%s triangle; code %.6e, '
                 'form %.6e; gamma handed to the kernel = %r)' % (case['flow'], d2, i, j, 'lower' if low else 'upper',
                                                                full[i, j], want[i, j], gamma))
    # damping
    aeromu = a['aeromu'] if a['aeromu'] is not None else 1.3
    pc.quiet(p.calc_cA, aeromu, silent=True)
    cA = p.cA.toarray()
    wantc = bilinear_oracle(p, case, aeromu, 0., 'cA') * 1j
    if p_bad is None and pc.rel_diff(cA, wantc) > 1e-8:
        p_bad = 'calc_cA differs from -aeromu*int(w_A w_B)*1j: rel %.3e' % pc.rel_diff(cA, wantc)
    # linear in the coefficient it is CALLED with - including zero, negative and tiny values, whatever the panel's own aeromu attribute says
    if p_bad is None:
        sc = max(np.abs(cA).max(), 1e-300)
        for other in (0., -0.37 * aeromu, 1e-9 * aeromu, 2.5 * aeromu):
            try:
                pc.quiet(p.calc_cA, other, silent=True)
            except Exception as e:                           # noqa
                p_bad = 'calc_cA(%r) raised %s: %s (calc_cA(%r) on the same panel succeeds)' % (other, type(e).__name__, str(e)[:120], aeromu)
                break
            d3 = np.abs(p.cA.toarray() - cA * (other / aeromu)).max() / sc
            if d3 > 1e-8 * max(abs(other / aeromu), 1.):
                p_bad = ('calc_cA(%r) is not %r/%r times calc_cA(%r) (deviation %.3e of the matrix scale; panel attribute aeromu = %r): the damping matrix '
                         'is not linear in the coefficient' % (other, other, aeromu, aeromu, d3, p.aeromu))
                break
    return v_bad, p_bad, line, handed


def bay_delegation(ctx, rng):
    """StiffPanelBay.calc_kA must represent the same law as the skin panel it delegates to - in the amplitude space OF THE BAY (2-D
    stiffeners carry amplitudes of their own, on which the aerodynamic matrix vanishes), flat and cylindrical (the curvature term is
    symmetric, the flow term skew-symmetric: both must survive the completion from the upper triangle)"""
    from compmech.stiffpanelbay import StiffPanelBay
    from compmech.panel import Panel
    bay = StiffPanelBay()
    bay.a, bay.b = rng.uniform(0.5, 2), rng.uniform(0.5, 2)
    bay.m = bay.n = rng.choice([3, 4])
    bay.stack = [0, 90, 0]
    bay.plyt = 1e-3
    lp = (142.5e9, 8.7e9, 0.28, 5.1e9, 5.1e9, 5.1e9)
    bay.laminaprop = lp
    bay.mu = 1500.
    curved = rng.random() < 0.5
    if curved:
        bay.r = rng.uniform(1., 5.)
        bay.model = 'cpanel_clt_donnell_bardell'
    use_beta = rng.random() < 0.5
    if use_beta:
        bay.beta = rng.uniform(1, 20)
        if curved:
            bay.gamma = rng.uniform(0.1, 3.)
    else:
        bay.Mach, bay.rho_air, bay.speed_sound = 2., 0.4, 300.
        bay.V = 600.
    stiff = rng.choice(['none', 'blade2d', 't2d'])
    if stiff == 'none':
        bay.add_panel(y1=0, y2=bay.b, plyt=bay.plyt)
    else:
        ys = bay.b * rng.uniform(0.3, 0.7)
        bay.add_panel(y1=0, y2=ys, plyt=bay.plyt)
        bay.add_panel(y1=ys, y2=bay.b, plyt=bay.plyt)
        kw = dict(ys=ys, bf=0.08 * bay.b, fstack=[0, 90], fplyt=1e-3, flaminaprop=lp, mf=3, nf=3)
        if stiff == 'blade2d':
            pc.quiet(bay.add_bladestiff2d, **kw)
        else:
            pc.quiet(bay.add_tstiff2d, bb=0.15 * bay.b, bstack=[0, 90], bplyt=1e-3, blaminaprop=lp, mb=3, nb=3, **kw)
    desc = dict(a=bay.a, b=bay.b, r=bay.r, m=bay.m, beta=getattr(bay, 'beta', None), gamma=getattr(bay, 'gamma', None),
                Mach=getattr(bay, 'Mach', None), stiffener=stiff)
    try:
        pc.quiet(bay.calc_k0, silent=True)
        size = pc.quiet(bay.get_size)
        kA = pc.quiet(bay.calc_kA, silent=True).toarray()
    except Exception as e:
        return desc, 'StiffPanelBay.calc_kA with %s raised %s: %s' % (
            'beta given' if use_beta else 'Mach given', type(e).__name__, e), ('C19-bay-ignores-beta' if use_beta else None)
    if kA.shape != (size, size):
        return desc, 'StiffPanelBay.calc_kA returned shape %r for a bay of %d amplitudes (stiffener: %s)' % (kA.shape, size, stiff), None
    # the stand-alone skin panel with the bay's data (single panels are tied to the piston-theory oracle by run_case), embedded
    q = Panel(a=bay.a, b=bay.b, r=bay.r, m=bay.m, n=bay.n, stack=list(bay.stack), plyt=bay.plyt, laminaprop=lp, mu=bay.mu)
    q.model = bay.model
    for fl in [f + e + d for f in 'uvw' for e in ('1t', '1r', '2t', '2r') for d in 'xy']:
        setattr(q, fl, getattr(bay, fl))
    for k in ('beta', 'gamma', 'aeromu', 'Mach', 'rho_air', 'speed_sound', 'V', 'flow'):
        setattr(q, k, getattr(bay, k))
    try:
        want = pc.quiet(q.calc_kA, size=size, row0=0, col0=0, silent=True).toarray()
    except Exception as e:
        return None, None, None
    d = pc.rel_diff(kA, want)
    if d > 1e-12:
        sym = np.abs(kA + kA.T).max() / max(np.abs(kA).max(), 1e-300)
        return desc, ('StiffPanelBay.calc_kA differs from the aerodynamic matrix of its skin panel taken alone (same data, bay size): rel %.3e; '
                      'symmetric part of the bay matrix %.3e of its scale, of the panel matrix %.3e'
                      % (d, sym, np.abs(want + want.T).max() / max(np.abs(want).max(), 1e-300))), None
    return None, None, None


def second_flow_state(ctx, rng):
    """a panel whose flow data (Mach, density, speed) are changed between two evaluations gives the matrices of a freshly
    defined panel with the new data: derived coefficients are not remembered"""
    case = pc.gen_panel_case(rng, models=('Plate', 'CPanel'), max_mn=3, y12=False)
    case['flow'] = 'x'
    ainf = rng.uniform(250, 340)
    st = []
    for _ in range(2):
        M = rng.choice([1.3, 2., 3.5, rng.uniform(1.1, 4.)])
        st.append(dict(Mach=M, rho_air=rng.uniform(0.2, 1.2), V=M * ainf, speed_sound=ainf))

    def setup(p, a):
        p.flow = 'x'
        p.beta = p.gamma = p.aeromu = None
        for k, v in a.items():
            setattr(p, k, v)
    p = pc.make_panel(case)
    setup(p, st[0])
    try:
        pc.quiet(p.calc_k0, silent=True)
        pc.quiet(p.calc_kA, silent=True)
        for k, v in st[1].items():
            setattr(p, k, v)
        got = pc.quiet(p.calc_kA, silent=True).toarray()
        q = pc.make_panel(case)
        setup(q, st[1])
        pc.quiet(q.calc_k0, silent=True)
        want = pc.quiet(q.calc_kA, silent=True).toarray()
    except Exception as e:
        return None, None
    d = pc.rel_diff(got, want)
    if d > 1e-12:
        return dict(case=case, states=st), ('calc_kA after changing the flow state (Mach, rho_air, V) of the same panel differs from a freshly '
                                             'defined panel with the new state: rel %.3e (remembered coefficients)' % d)
    return None, None


def flutter_assembly(ctx, rng, flow):
    """the packaged flutter assembly (compmech.panel.assembly.tstiff2d_1stiff_flutter) with the flow direction it is asked for: the
    aerodynamic matrix every skin panel contributed (panel.kA, placed at the panel's offsets) is that of a freshly defined panel
    with the same data and THE ASSEMBLY'S flow direction - single panels are tied to the piston-theory oracle by run_case"""
    from compmech.panel import Panel
    from compmech.panel.assembly import tstiff2d_1stiff_flutter
    kw = dict(a=rng.uniform(1.5, 3.), b=1., ys=rng.uniform(0.4, 0.6), bb=0.2, bf=0.1, defect_a=rng.choice([0.1, 0.25]), mu=1.3e3, plyt=0.125e-3,
              laminaprop=(142.5e9, 8.7e9, 0.28, 5.1e9, 5.1e9, 5.1e9), stack_skin=[0, 45, -45, 90, -45, 45, 0], stack_base=[0, 90, 0] * 2,
              stack_flange=[0, 90, 0] * 3, m=4, n=3, mb=3, nb=3, mf=3, nf=3, air_speed=rng.uniform(500., 900.), rho_air=rng.uniform(0.3, 1.3),
              Mach=rng.choice([1.5, 2., 3.]), speed_sound=343., flow=flow, run_static_case=False)
    try:
        assy = pc.quiet(tstiff2d_1stiff_flutter, **kw)[0]
    except Exception as e:
        return kw, 'tstiff2d_1stiff_flutter(flow=%r) raised %s: %s' % (flow, type(e).__name__, str(e)[:160])
    size = assy.get_size()
    skin = [q for q in assy.panels if q.group == 'skin']
    if len(skin) != 9:
        return kw, 'the flutter assembly has %d skin panels' % len(skin)
    FLAGS = [f + e + d for f in 'uvw' for e in ('1t', '1r', '2t', '2r') for d in 'xy']
    for k, q in enumerate(skin):
        if getattr(q, 'kA', None) is None:
            return kw, 'skin panel %d of the flutter assembly carries no aerodynamic matrix' % (k + 1)
        f = Panel(a=q.a, b=q.b, r=q.r, m=q.m, n=q.n, plyt=q.plyt, stack=list(q.stack), laminaprop=q.laminaprop, mu=q.mu,
                  rho_air=kw['rho_air'], speed_sound=kw['speed_sound'], Mach=kw['Mach'], V=kw['air_speed'], flow=flow)
        f.model = q.model
        for fl in FLAGS:
            setattr(f, fl, getattr(q, fl))
        want = pc.quiet(f.calc_kA, size=size, row0=q.row_start, col0=q.col_start, silent=True, finalize=False).toarray()
        got = q.kA.toarray()
        d = pc.rel_diff(got, want)
        if d > 1e-12:
            other = 'y' if flow == 'x' else 'x'
            f.flow = other
            alt = pc.quiet(f.calc_kA, size=size, row0=q.row_start, col0=q.col_start, silent=True, finalize=False).toarray()
            hint = ' (it is the flow-%s matrix)' % other if pc.rel_diff(got, alt) < 1e-12 else ''
            return dict(kw, panel=k + 1), ('tstiff2d_1stiff_flutter(flow=%r): the aerodynamic matrix of skin panel %d differs from that of a freshly '
                                           'defined panel with the same data and flow=%r: rel %.3e%s' % (flow, k + 1, flow, d, hint))
    return None, None


def entry_point_witnesses(ctx):
    """fixed witnesses of the two listed findings about entry points that raise before any matrix is delivered (a legitimate
    definition, an exception of the package = a failing input of the property).  Each is listed only in its exact form; a different
    exception, or a returned result that is wrong, is a new violation."""
    from compmech.panel import Panel
    from compmech.stiffpanelbay import StiffPanelBay
    lp = (142.5e9, 8.7e9, 0.28, 5.1e9, 5.1e9, 5.1e9)

    def mkbay():
        bay = StiffPanelBay()
        bay.a, bay.b, bay.m, bay.n, bay.stack, bay.plyt, bay.mu = 2., 1., 4, 4, [0, 90, 90, 0], 1.25e-4, 1500.
        bay.laminaprop, bay.model, bay.beta, bay.aeromu = lp, 'plate_clt_donnell_bardell', 5., 0.1
        bay.add_panel(0, 1.)
        return bay
    # (1) the aerodynamic matrix of a bay that was never asked for its size
    bay = mkbay()
    try:
        kA = pc.quiet(bay.calc_kA, silent=True)
        ref = mkbay()
        pc.quiet(ref.calc_k0, silent=True)
        d = pc.rel_diff(kA.toarray(), pc.quiet(ref.calc_kA, silent=True).toarray())
        if d > 1e-12:
            ctx.violation('C19 fails on the implementation: StiffPanelBay.calc_kA as first call on a bay differs from the call after calc_k0: rel %.3e' % d,
                          dict(case='fresh bay', derived='entry points'))
            return True
    except Exception as e:
        exact = isinstance(e, AttributeError) and "no attribute 'size'" in str(e)
        if ctx.violation('C19 fails on the implementation: StiffPanelBay.calc_kA as FIRST call on a freshly defined bay raises %s: %s'
                         % (type(e).__name__, e), dict(case='fresh bay (a=2, b=1, m=n=4, beta=5), calc_kA() first', derived='entry points'),
                         identity='C19-bay-kA-needs-size-attribute' if exact else None):
            return True
    # (2) the damping matrix through the analysis entry points
    p = Panel(a=1., b=.5, m=4, n=4, stack=[0, 90, 0], plyt=1e-3, laminaprop=lp, mu=1500., beta=5., aeromu=0.1)
    p.model = 'plate_clt_donnell_bardell'
    bay = mkbay()
    pc.quiet(bay.calc_k0, silent=True)
    for name, call in (('Panel.freq(atype=2, damping=True, sparse_solver=False)',
                        lambda: pc.quiet(p.freq, atype=2, damping=True, sparse_solver=False, silent=True)),
                       ('StiffPanelBay.calc_cA()', lambda: pc.quiet(bay.calc_cA, silent=True))):
        try:
            call()
        except Exception as e:
            exact = isinstance(e, TypeError) and 'calc_cA()' in str(e) and ('aeromu' in str(e) or "'size'" in str(e))
            if ctx.violation('C19 fails on the implementation: %s raises %s: %s' % (name, type(e).__name__, e),
                             dict(case=name, derived='entry points'), identity='C19-calc_cA-callers-not-updated' if exact else None):
                return True
    return False


def correspondence(ctx):
    ir = pc.translated(ctx)
    rng = ctx.rng
    dist = dict(models={}, flow={}, mach_route=0, gamma_nonzero=0)
    cases, lines, impl = [], [], []
    for t in range(ctx.scale(40, 400)):
        case = gen(ctx, rng)
        ctx.evaluations += 1
        dist['models'][case['lean_model']] = dist['models'].get(case['lean_model'], 0) + 1
        dist['flow'][case['flow']] = dist['flow'].get(case['flow'], 0) + 1
        dist['mach_route'] += case['aero']['Mach'] is not None
        ctx.sample({k: v for k, v in case.items() if k != 'flags'}, limit=3)
        v_bad, p_bad, line, coef = run_case(ctx, case, ir, lines)
        if coef and coef[1]:
            dist['gamma_nonzero'] += 1
        if case['m'] * case['n'] >= 4 and (case['aero']['Mach'] is not None or (coef and coef[1])):
            ctx.nontrivial.add(repr(sorted(case.items(), key=str)))
        if p_bad:
            ident = 'C19-curvature-term-made-skew' if ('lower triangle' in p_bad and coef and coef[1]
                                                       and case['lean_model'] == 'CPanel') else None
            if ctx.violation('C19 fails on the implementation: ' + p_bad, dict(case=case), identity=ident):
                return
        if v_bad:
            ctx.violation(v_bad, dict(case=case, tie='V kA'), found_input=False)
            return
        cases.append(case); lines.append(line); impl.append(coef)
    # H: coefficient model vs what calc_kA handed to the kernel
    for case, rep, coef in zip(cases, driver(lines), impl):
        tok = rep.split()
        if coef is None:
            continue
        if tok[0] != 'ok':
            ctx.violation('coefficient model says %s, implementation produced coefficients' % rep, dict(case=case), found_input=False)
            return
        mb, mg, ma = [unq(x) for x in tok[1:4]]
        gm = mg if case['flow'] == 'x' else 0
        if abs(float(mb) - coef[0]) > 1e-9 * abs(coef[0]) or abs(float(gm) - coef[1]) > 1e-9 * max(abs(coef[1]), 1e-300):
            ctx.violation('model/implementation disagreement on the piston-theory coefficients: model (%r, %r) vs code %r'
                          % (float(mb), float(gm), coef), dict(case=case, tie='H Model/Piston.lean'), found_input=False)
            return
    # H: StiffPanelBay.calc_kA and the aerodynamic part of tstiff2d_1stiff_flutter against Model/BayAero.lean (recorded kernel calls)
    from tools.props import C19_bay
    if entry_point_witnesses(ctx):
        return
    # a disagreement of the bay / flutter glue models that is no failing input by itself is a broken tie: go on looking for an input
    has_input = lambda: any(v['found_input'] for v in ctx.violations)
    if C19_bay.bay_glue_correspondence(ctx, rng) and has_input():
        return
    if C19_bay.flutter_glue_correspondence(ctx, rng) and has_input():
        return
    for t in range(ctx.scale(8, 40)):
        c, bad, ident = bay_delegation(ctx, rng)
        ctx.evaluations += 1
        if bad and ctx.violation('C19 fails on the implementation: ' + bad, dict(case=c, derived='bay'), identity=ident):
            return
    for t in range(ctx.scale(6, 40)):
        c, bad = second_flow_state(ctx, rng)
        ctx.evaluations += 1
        if bad:
            ctx.violation('C19 fails on the implementation: ' + bad, dict(case=c, derived='second flow state'))
            return
    for flow in (['y'] if ctx.tier == 'quick' else ['y', 'x', 'y']):
        c, bad = flutter_assembly(ctx, rng, flow)
        ctx.evaluations += 1
        if bad:
            ctx.violation('C19 fails on the implementation: ' + bad, dict(case=c, derived='flutter assembly'))
            return
    def aero(p, c):
        p.beta, p.gamma, p.flow = 7.5, (0.8 if c['r'] else None), 'x'
    for t in range(ctx.scale(7, 35)):
        c, bad = pc.redefinition_check(rng, t, lambda p: pc.quiet(p.calc_kA, silent=True).toarray(), models=('Plate', 'CPanel'),
                                       extra=aero, skip=('alphadeg',))
        ctx.evaluations += 1
        if bad and ctx.violation('C19 fails on the implementation: calc_kA ' + bad, dict(case=c, derived='redefinition')):
            return
    ctx.cov['input_distribution'] = dist
    ctx.cov['translated_kernels'] = ['%s.%s' % (m, k) for m in ('Plate', 'PlateW', 'CPanel') for k in KERNELS]


def source_arm(ctx, ir, reason):
    """model arm: the aerodynamic kernels AS WRITTEN IN THE SOURCE (translated, interpreted) against the bilinear form of the pressure law
    on the triangle the kernels fill; panels whose edge flags differ between the x and the y edges, both flow directions"""
    rng = ctx.rng
    for t in range(ctx.scale(36, 120)):
        case = gen(ctx, rng)
        case['m'], case['n'] = 5, 5                    # beyond the four edge functions: the flags cannot switch the whole field off
        case['flow'] = 'xy'[t % 2]
        for e in ('1t', '2t'):
            case['flags']['w' + e + case['flow']] = 0.
        for k in case['flags']:
            if k[0] == 'w' and k[1:3] in ('1r', '2r'):
                case['flags'][k] = float((t // 2 + (k[3] == 'y') + (k[1] == '2')) % 2)       # rotations restrained on some edges only
        kernels, schemas, consts = ir[case['lean_model']]
        p = pc.make_panel(case)
        pc.quiet(p.calc_k0, silent=True)
        size = p.get_size()
        beta, gamma, aeromu = 2.5, (0.7 if (case['lean_model'] == 'CPanel' and case['flow'] == 'x') else 0.), 0.9
        for kn, params, kind, co in (('fkA' + case['flow'], dict(beta=beta, gamma=gamma), 'kA', (beta, gamma)),
                                     ('fcA', dict(aeromu=aeromu), 'cA', (aeromu, 0.))):
            ctx.evaluations += 1
            try:
                mine = panel_v.interp_kernel(kernels[kn], consts, p, params, size, 0, 0)
            except Exception as e:                                   # noqa
                continue
            want = bilinear_oracle(p, case, co[0], co[1], kind)
            up = np.triu(np.ones_like(want))
            d = np.abs((mine - want) * up).max() / max(np.abs(want).max(), 1e-300)
            if d > 1e-8:
                i, j = np.unravel_index(np.abs((mine - want) * up).argmax(), want.shape)
                ctx.violation('C19 fails on the source as written: %s.%s interpreted on this panel gives %.6e at [%d,%d], the bilinear form of the '
                              'piston-theory pressure law %.6e (flow along %s; rel %.3e); the running binary is stale w.r.t. this source if the '
                              'implementation arm stays quiet' % (case['model'], kn, mine[i, j], i, j, want[i, j], case['flow'], d),
                              dict(case=case, kernel=kn, source_arm=True, broken=reason))
                return True
    return False


def search(ctx, reason):
    try:
        ir = pc.translated(ctx)
    except Exception as e:
        ctx.log('translator unusable: %s' % e)
        return False
    if source_arm(ctx, ir, reason):
        return True
    for t in range(ctx.scale(30, 200)):
        case = gen(ctx, ctx.rng)
        ctx.evaluations += 1
        try:
            v_bad, p_bad, line, coef = run_case(ctx, case, ir, [])
        except pyx.TranslateError:
            continue
        if p_bad:
            ident = 'C19-curvature-term-made-skew' if ('lower triangle' in p_bad and coef and coef[1]) else None
            if ctx.violation('C19 fails on the implementation: ' + p_bad, dict(case=case, broken=reason), identity=ident):
                return True
    return False


def replay(ctx, data):
    r = data['replay']
    if r.get('bay_glue'):
        # exactly this bay: the recorded-call correspondence with Model/BayAero.lean, then the property-level predicate
        from tools.props import C19_bay
        g = r['bay_glue']
        bad = C19_bay.bay_glue_correspondence(ctx, ctx.rng, cases=[g])
        p_bad = C19_bay.bay_property_bad(g)
        print('bay glue model vs implementation:', 'disagree' if bad else 'agree', '| property on implementation:', p_bad)
        for v in ctx.violations:
            print('   ', v['what'])
        return 1 if (bad or p_bad) else 0
    if r.get('case') and not r.get('derived'):
        v_bad, p_bad, line, coef = run_case(ctx, r['case'], pc.translated(ctx), [])
        print('V:', v_bad, '| property on implementation:', p_bad)
        return 1 if (v_bad or p_bad) else 0
    print('replay:', data['what'])
    return 1
