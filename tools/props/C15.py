"""C15 — Ritz eigenvalues: monotone in the series order (decided by proof in its algebraic half) and bounded
below by / converging to the closed-form values (NOT decided by proof: continuum statement; evaluated here
numerically for the record and as a tripwire).
T: Gen/Panel regenerated (entries have no m, n argument: theorem entries_independent_of_series_order).
Implementation arm: nested matrices are principal sub-matrices along the dof embedding; lowest buckling
multipliers / frequencies never rise when terms are added; closed forms for simply supported specially
orthotropic plates.
"""
import math

import numpy as np
from scipy.linalg import eigh

from tools.props import panel_common as pc

TRUSTED = pc.TRUSTED_T + [
    'Courant-Fischer (the solvers return the min-max values) is NOT in Mathlib and is assumed, not formalised',
    'LAPACK eigh for the numeric evaluation',
]
ASSUMPTIONS = [
    'the closed-form clause (Ritz >= and -> double-sine values) is a statement about the continuum problem (Sobolev-space '
    'minimisation, completeness of polynomials): no executable model of this code base can express it; it is evaluated '
    'numerically only (labelled a test)',
]
RULE = ('random plates (restraint patterns, laminates, load ratios), m,n in 2..7 and their increments: sub-matrix embedding and '
        'monotonicity; simply supported cross-ply/single-ply plates, aspect ratios 0.3..3, m = n in 4..10 against the closed forms; '
        'non-trivial = unsymmetric restraint pattern or biaxial load; distinct by case parameters')


def translate(ctx):
    pc.translated(ctx)


def mats(case, N=(-1., 0., 0.)):
    p = pc.make_panel(case)
    p.Nxx, p.Nyy, p.Nxy = N
    K = pc.quiet(p.calc_k0, silent=True).toarray()
    KG = pc.quiet(p.calc_kG0, silent=True).toarray()
    M = pc.quiet(p.calc_kM, silent=True).toarray()
    return K, KG, M


def lowest_buckling(K, KG, k=3):
    act = np.where(np.abs(K).sum(axis=0) != 0)[0]
    if len(act) == 0:
        return np.array([])
    mu = eigh(-KG[np.ix_(act, act)], K[np.ix_(act, act)], eigvals_only=True)
    if len(mu) == 0 or abs(mu).max() == 0:
        return np.array([])
    pos = np.sort(1. / mu[mu > 1e-12 * abs(mu).max()])
    return pos[:k]


def lowest_freq(K, M, k=3):
    act = np.where(np.abs(M).sum(axis=0) != 0)[0]
    act = np.array([a for a in act if abs(K[a]).sum() != 0], dtype=int)
    if len(act) == 0:
        return np.array([])
    w2 = eigh(K[np.ix_(act, act)], M[np.ix_(act, act)], eigvals_only=True)
    return np.sqrt(np.abs(w2[:k]))


def monotone_case(ctx, rng):
    case = pc.gen_panel_case(rng, models=('Plate',), max_mn=5, y12=False)
    case['m'], case['n'] = rng.randint(2, 5), rng.randint(2, 5)
    case['offset'] = 0.
    for k in case['flags']:
        case['flags'][k] = float(rng.choice([0, 1]))
    for f in 'uvw':
        case['flags'][f + '1tx'] = case['flags'][f + '1ty'] = 0.     # enough restraint for a positive definite K
    case['flags']['w2tx'] = 0.
    N = (-1., rng.choice([0., -0.5, -2.]), 0.)
    grow = rng.choice(['m', 'n', 'both'])
    big = dict(case, m=case['m'] + (grow in ('m', 'both')), n=case['n'] + (grow in ('n', 'both')))
    K1, G1, M1 = mats(case, N)
    K2, G2, M2 = mats(big, N)
    # principal sub-matrix along the dof embedding
    idx = [3 * (j * big['m'] + i) + a for j in range(case['n']) for i in range(case['m']) for a in range(3)]
    for nm, A, B in (('k0', K1, K2), ('kG0', G1, G2), ('kM', M1, M2)):
        d = pc.rel_diff(A, B[np.ix_(idx, idx)])
        if d > 1e-12:
            return dict(case=case, big=(big['m'], big['n'])), '%s with (m,n)=(%d,%d) is not the principal sub-matrix of the (%d,%d) one (rel %.3e)' % (
                nm, case['m'], case['n'], big['m'], big['n'], d)
    try:
        b1, b2 = lowest_buckling(K1, G1), lowest_buckling(K2, G2)
        f1, f2 = lowest_freq(K1, M1), lowest_freq(K2, M2)
    except (np.linalg.LinAlgError, ValueError):
        return None, None
    for nm, x1, x2 in (('buckling multiplier', b1, b2), ('frequency', f1, f2)):
        k = min(len(x1), len(x2))
        if k and np.any(x2[:k] > x1[:k] * (1 + 1e-8)):
            return dict(case=case, big=(big['m'], big['n']), N=N), \
                'adding terms RAISED a lowest %s: %r -> %r' % (nm, x1[:k].tolist(), x2[:k].tolist())
    return None, None


def own_D(stack, plyts, lp):
    """bending stiffness of a cross-ply laminate by classical lamination theory, computed here (independent of compmech.composite)"""
    e1, e2, nu12, g12 = lp[0], lp[1], lp[2], lp[3]
    nu21 = nu12 * e2 / e1
    den = 1 - nu12 * nu21
    q = dict(q11=e1 / den, q12=nu12 * e2 / den, q22=e2 / den, q66=g12)
    D = np.zeros((3, 3))
    z = -sum(plyts) / 2.
    for ang, t in zip(stack, plyts):
        q11, q22 = (q['q11'], q['q22']) if ang % 180 == 0 else (q['q22'], q['q11'])
        Qb = np.array([[q11, q['q12'], 0.], [q['q12'], q22, 0.], [0., 0., q['q66']]])
        D += Qb * ((z + t) ** 3 - z ** 3) / 3.
        z += t
    return D


def closed_form_case(ctx, rng, forced=None):
    """simply supported, specially orthotropic rectangular plate"""
    from compmech.panel import Panel
    a = rng.uniform(0.3, 3.)
    b = 1.
    stack = rng.choice([[0], [0, 90, 90, 0], [90, 0, 0, 90], [0, 90, 0]])
    lp = rng.choice([(142.5e9, 8.7e9, 0.28, 5.1e9, 5.1e9, 5.1e9), (71e9, 71e9, 0.33, 26.7e9, 26.7e9, 26.7e9)])
    mn = rng.choice([6, 8, 10])
    ratio = rng.choice([0., 0.5, 1.])
    # equal plies, or a mid-plane symmetric stack of UNEQUAL plies
    plyts = [1e-3] * len(stack)
    if len(stack) > 1 and rng.random() < 0.5:
        half = [rng.choice([0.5e-3, 1e-3, 2.5e-3]) for _ in range((len(stack) + 1) // 2)]
        plyts = half + half[:len(stack) // 2][::-1]
    if forced:
        a, stack, plyts, mn = forced
    p = Panel(a=a, b=b, stack=stack, plyts=plyts, laminaprops=[lp] * len(stack), mu=1500., m=mn, n=mn)
    p.model = 'plate_clt_donnell_bardell'
    # the option that drops the 16 / 26 coupling terms must be a no-op on a specially orthotropic laminate (it has none)
    p.force_orthotropic_laminate = bool(rng.random() < 0.4) if not forced else (len(stack) == 3)
    for f in 'uv':      # in-plane free (membrane pre-stress is prescribed), w simply supported (defaults)
        for e in ('1t', '1r', '2t', '2r'):
            for d in 'xy':
                setattr(p, f + e + d, 1.)
    p.u1tx = p.v1ty = 0.       # remove rigid-body modes
    p.u1ty = 0.
    p.Nxx, p.Nyy, p.Nxy = -1., -ratio, 0.
    K = pc.quiet(p.calc_k0, silent=True).toarray()
    KG = pc.quiet(p.calc_kG0, silent=True).toarray()
    M = pc.quiet(p.calc_kM, silent=True).toarray()
    D = own_D(stack, plyts, lp)      # the closed form is evaluated with THIS laminate theory, not with the package's
    best = min(math.pi ** 2 * (D[0, 0] * (i / a) ** 4 + 2 * (D[0, 1] + 2 * D[2, 2]) * (i / a) ** 2 * (j / b) ** 2 + D[1, 1] * (j / b) ** 4)
               / ((i / a) ** 2 + ratio * (j / b) ** 2) for i in range(1, 12) for j in range(1, 12))
    try:
        lam = lowest_buckling(K, KG, 1)[0]
    except (np.linalg.LinAlgError, ValueError, IndexError):
        return None, None
    desc = dict(a=a, stack=stack, plyts=plyts, mn=mn, ratio=ratio, ritz=float(lam), closed_form=float(best),
                force_orthotropic_laminate=p.force_orthotropic_laminate)
    if lam < best * (1 - 1e-9):
        return desc, 'Ritz buckling load %.9e is BELOW the closed-form value %.9e' % (lam, best)
    waves_ = min((math.pi ** 2 * (D[0, 0] * (i / a) ** 4 + 2 * (D[0, 1] + 2 * D[2, 2]) * (i / a) ** 2 * (j / b) ** 2 + D[1, 1] * (j / b) ** 4)
                   / ((i / a) ** 2 + ratio * (j / b) ** 2), max(i, j)) for i in range(1, 12) for j in range(1, 12))[1]
    if 0.5 <= a <= 2. and lam > best * (1 + 5e-2) and 2 * waves_ + 2 <= mn:
        return desc, 'Ritz buckling load %.9e has not converged to the closed-form value %.9e with m=n=%d' % (lam, best, mn)
    # frequencies with rotary inertia: w^2 = D-form / (mu h (1 + h^2/12 * pi^2 (i^2/a^2 + j^2/b^2)))
    h = sum(p.plyts)
    wcf = min(math.sqrt(math.pi ** 4 * (D[0, 0] * (i / a) ** 4 + 2 * (D[0, 1] + 2 * D[2, 2]) * (i / a) ** 2 * (j / b) ** 2 + D[1, 1] * (j / b) ** 4)
                        / (p.mu * h * (1 + h * h / 12. * math.pi ** 2 * ((i / a) ** 2 + (j / b) ** 2))))
              for i in range(1, 6) for j in range(1, 6))
    act = [k for k in range(K.shape[0]) if k % 3 == 2 and abs(M[k]).sum() != 0 and abs(K[k]).sum() != 0]
    w2 = eigh(K[np.ix_(act, act)], M[np.ix_(act, act)], eigvals_only=True)
    wr = math.sqrt(w2[0])
    desc.update(ritz_freq=wr, closed_form_freq=wcf)
    if wr < wcf * (1 - 1e-9) or (0.5 <= a <= 2. and wr > wcf * (1 + 5e-2)):
        return desc, 'Ritz frequency %.9e vs closed form %.9e (m=n=%d)' % (wr, wcf, mn)
    return None, None


UNITS = {      # (length, modulus, density) factors of a consistent unit system relative to SI; frequencies scale by sqrt(e/q)/s
    'SI': (1., 1., 1.), 'mm-kg-ms-GPa': (1e3, 1e-9, 1e-9), 'mm-t-s-MPa': (1e3, 1e-6, 1e-12)}


def closed_forms(a, b, D, mu, h, ratio):
    cands = [(math.pi ** 2 * (D[0, 0] * (i / a) ** 4 + 2 * (D[0, 1] + 2 * D[2, 2]) * (i / a) ** 2 * (j / b) ** 2 + D[1, 1] * (j / b) ** 4)
              / ((i / a) ** 2 + ratio * (j / b) ** 2), max(i, j)) for i in range(1, 14) for j in range(1, 14)]
    best, waves = min(cands)
    wcf = min(math.sqrt(math.pi ** 4 * (D[0, 0] * (i / a) ** 4 + 2 * (D[0, 1] + 2 * D[2, 2]) * (i / a) ** 2 * (j / b) ** 2 + D[1, 1] * (j / b) ** 4)
                        / (mu * h * (1 + h * h / 12. * math.pi ** 2 * ((i / a) ** 2 + (j / b) ** 2))))
              for i in range(1, 6) for j in range(1, 6))
    closed_forms.waves = waves        # half-waves of the critical buckling mode in its wavier direction
    return best, wcf


def resolvable(waves, mn):
    """the 5 % convergence demand is made only when the series can represent the critical mode: `mn` Bardell terms per direction resolve about
    (mn - 2) / 2 half-waves to that accuracy (a [90/0/0/90] plate with a/b = 1.7 buckles in 3 half-waves; m = n = 6 is then 6.7 % high - not a
    defect, and not what the property promises: 'converging to' is a statement about refinement; false alarm of the quick tier at VERIF_SEED=4)"""
    return 2 * waves + 2 <= mn


def analysis_case(ctx, rng, t):
    """The multipliers / frequencies AS THE PACKAGE'S ANALYSES DELIVER THEM (Panel.lb, Panel.freq, compmech.analysis.lb / freq, sparse and
    dense) for simply supported specially orthotropic plates: never below the closed form, within 5 % of it for moderate aspect ratios, and
    not raised by added terms - in three consistent unit systems (frequencies of order 1e-2 in mm-kg-ms), for very thin large plates with a
    rich basis, and for ONE Panel object swept through several aspect ratios / term counts (refinement study as users run it)."""
    from compmech.panel import Panel
    from compmech import analysis as an
    thin = (t % 4 == 3)
    unit = 'SI' if thin else list(UNITS)[t % 3]       # (thin plates in ms units: eigs with its fixed shift -1 does not converge at all)
    s_, e_, q_ = UNITS[unit]
    stack = rng.choice([[0], [0, 90, 90, 0], [90, 0, 0, 90], [0, 90, 0]])
    lp0 = rng.choice([(142.5e9, 8.7e9, 0.28, 5.1e9, 5.1e9, 5.1e9), (71e9, 71e9, 0.33, 26.7e9, 26.7e9, 26.7e9)])
    lp = tuple(v * e_ if k != 2 else v for k, v in enumerate(lp0))
    plyt = (0.2e-3 / len(stack) if thin else rng.choice([0.5e-3, 1e-3])) * s_
    b = (5. if thin else 1.) * s_
    mu = 1500. * q_
    ratio = rng.choice([0., 0.5, 1.])
    mn0 = 16 if thin else rng.choice([6, 8])
    sweep = [(12. / 5. if thin else rng.uniform(0.6, 1.8), mn0)]
    if not thin:
        sweep += [(rng.uniform(0.6, 1.8), mn0), (sweep[0][0], mn0 + 2)]          # same object: other aspect ratio, then more terms
    p = Panel(a=sweep[0][0] * b, b=b, stack=stack, plyt=plyt, laminaprop=lp, mu=mu, m=mn0, n=mn0)
    p.model = 'plate_clt_donnell_bardell'
    p.force_orthotropic_laminate = (t % 5 == 2)      # a no-op on a specially orthotropic laminate
    for f in 'uv':
        for e in ('1t', '1r', '2t', '2r'):
            for d in 'xy':
                setattr(p, f + e + d, 1.)
    p.u1tx = p.v1ty = 0.
    p.u1ty = 0.
    p.num_eigvalues = 6
    D = own_D(stack, [plyt] * len(stack), lp)
    h = plyt * len(stack)
    prev = {}
    for step, (ar, mn) in enumerate(sweep):
        p.a, p.m, p.n = ar * b, mn, mn
        best, wcf = closed_forms(p.a, b, D, mu, h, ratio)
        p.Nxx, p.Nyy, p.Nxy = -best / 2., -ratio * best / 2., 0.         # reference load = half the critical one: multiplier 2
        desc = dict(unit=unit, thin=thin, stack=stack, plyt=plyt, a=p.a, b=b, mn=mn, ratio=ratio, step=step, closed_form_load=best, closed_form_freq=wcf,
                    force_orthotropic_laminate=p.force_orthotropic_laminate)
        got = {}
        dense = (step + t) % 2 == 1 and mn <= 10
        try:
            pc.quiet(p.lb, silent=True, sparse_solver=not dense)
            ev = np.asarray(p.eigvals, dtype=float)
            got['Panel.lb'] = (float(ev[ev > 0].min()) * best / 2., best)
            K, KG, M = p.k0, p.kG0, None
            ev = np.asarray(pc.quiet(an.lb, K, KG, silent=True, sparse_solver=not dense, num_eigvalues=6)[0], dtype=float)
            got['analysis.lb'] = (float(ev[ev > 0].min()) * best / 2., best)
            pc.quiet(p.freq, silent=True, sparse_solver=not dense)
            ev = np.asarray(p.eigvals).real
            got['Panel.freq'] = (float(ev.min()) if len(ev) else float('inf'), wcf)
            ev = np.asarray(pc.quiet(an.freq, p.k0, p.kM, silent=True, sparse_solver=not dense, num_eigvalues=6)[0]).real
            got['analysis.freq'] = (float(ev.min()) if len(ev) else float('inf'), wcf)
        except Exception as e:                                            # noqa
            if 'ArpackNoConvergence' in type(e).__name__:
                return None, None          # no result delivered: nothing to judge (solver accuracy is a recorded assumption of C05/C06)
            return desc, 'analysis raised %s: %s' % (type(e).__name__, str(e)[:120])
        for name, (val, cf) in got.items():
            desc[name] = val
            if val < cf * (1 - 1e-6):
                return desc, '%s delivers %.9e as lowest value, BELOW the closed form %.9e (%s, m=n=%d, step %d of a sweep on one object)' % (
                    name, val, cf, unit, mn, step)
            if 0.5 <= ar <= 2.5 and val > cf * (1 + 5e-2) and (name.endswith('freq') or resolvable(closed_forms.waves, mn)):
                return desc, '%s delivers %.9e as lowest value; it has not converged to the closed form %.9e (%s, m=n=%d, step %d of a sweep on one object)' % (
                    name, val, cf, unit, mn, step)
            if step == 2 and name in prev and val > prev[name] * (1 + 1e-7):
                return desc, '%s: adding terms (m=n %d -> %d) on the same object RAISED the lowest value %.9e -> %.9e' % (name, mn - 2, mn, prev[name], val)
        if step == 0:
            prev = {k: v[0] for k, v in got.items()}
    return None, None


def correspondence(ctx):
    pc.translated(ctx)
    rng = ctx.rng
    dist = dict(monotone=0, closed_form=0)
    for t in range(ctx.scale(8, 48)):
        c, bad = analysis_case(ctx, rng, t)
        ctx.evaluations += 1
        dist['analysis_route'] = dist.get('analysis_route', 0) + 1
        ctx.nontrivial.add(('analysis', t))
        if bad:
            ctx.violation('C15 fails on the implementation: ' + bad, dict(case=c, part='analysis route'))
            return
    for t in range(ctx.scale(15, 150)):
        c, bad = monotone_case(ctx, rng)
        ctx.evaluations += 1
        dist['monotone'] += 1
        ctx.nontrivial.add(('mono', t))
        if bad:
            ctx.violation('C15 fails on the implementation: ' + bad, dict(case=c, part='monotone'))
            return
    forced = [(1.3, [0, 90, 90, 0], [2.5e-3, 0.5e-3, 0.5e-3, 2.5e-3], 8), (0.8, [90, 0, 90], [0.5e-3, 2.5e-3, 0.5e-3], 8)]
    for t in range(ctx.scale(6, 60) + len(forced)):
        c, bad = closed_form_case(ctx, rng, forced=forced[t] if t < len(forced) else None)
        ctx.evaluations += 1
        dist['closed_form'] += 1
        if c is None and bad is None:
            continue
        if bad:
            ctx.violation('C15 (closed-form clause, numeric test) fails on the implementation: ' + bad, dict(case=c, part='closed form'))
            return
        ctx.sample(c, limit=3)
    ctx.cov['input_distribution'] = dist
    ctx.cov['explanation'] = ('monotonicity: proof (min-max inclusion) + numeric evaluation; closed forms: numeric test only '
                              '(continuum statement, not expressible as a theorem about an executable model)')


def search(ctx, reason):
    rng = ctx.rng
    for t in range(ctx.scale(30, 150)):
        for fn in (monotone_case, closed_form_case):
            c, bad = fn(ctx, rng)
            ctx.evaluations += 1
            if bad:
                ctx.violation('C15 fails on the implementation: ' + bad, dict(case=c, broken=reason))
                return True
    return False


def replay(ctx, data):
    print('replay:', data['what'])
    return 1
