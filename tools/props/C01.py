"""C01 — laminate ABD/ABDE: correspondence of Model/Laminate.lean with compmech/composite/*.py,
plus an oracle that is independent of the nine closed formulas (tensor rotation by matrix
products, Gauss quadrature through the thickness) used as failing-input search.
"""
import contextlib
import io
import math
import numpy as np
from fractions import Fraction

from tools.common import q, unq, close, driver

TRUSTED = [
    'Lean 4.33 kernel; axioms of every theorem within {propext, Classical.choice, Quot.sound} (audited each run)',
    'Mathlib v4.33 (interval integrals, ring, field_simp, nlinarith)',
    'hand-written model lean/CompmechVerif/Model/Laminate.lean of read_laminaprop, Lamina.rebuild (QL), '
    'read_stack, Laminate.calc_constitutive_matrix - tied to the running Python only by this correspondence check',
    'hand-written model lean/CompmechVerif/Model/LaminationParams.lean of MatLamina.rebuild (c, q, invariants u), the Laminate OBJECT '
    '(calc_constitutive_matrix with its numpy views, calc_lamination_parameters, calc_ABDE_from_lamination_parameters, '
    'read_lamination_parameters, force_balanced_LP, force_symmetric_LP, force_orthotropic, force_symmetric, calc_equivalent_modulus) '
    '- tied to the running Python by the call-sequence correspondence of this check (one object, every reported attribute after every call)',
    'np.linalg.inv (a parameter of the model of calc_equivalent_modulus; the driver substitutes exact Gauss-Jordan elimination over Q)',
    'numpy deg2rad/cos/sin (the model receives the float cos/sin as exact rationals)',
    'IEEE rounding is not modelled: outputs compared to 1e-9 of the block scale',
]
ASSUMPTIONS = [
    'the ply attributes cos2t/sin2t/cos4t/sin4t that calc_lamination_parameters reads are never set by the package (known finding); '
    'the sequences that exercise the rest of that method set them from numpy cos/sin of the doubled angles',
    'materials with e1 = 0, e2 = 0 or a vanishing 3-D determinant (ZeroDivisionError inside read_laminaprop) are not generated',
]
RULE = ('stacks generated from one PRNG (VERIF_SEED): 1-12 plies, angles from {0,+-45,90,30,-60} or random reals, '
        'random/dyadic thicknesses, 3/6/9-entry material tuples, offsets of both signs, uniform and per-ply '
        'argument forms, plus a malformed stream; non-trivial = valid stack with >=2 plies, at least one '
        'angle that is not a multiple of 90 and a non-zero offset or unsymmetric stacking; distinct by input text.  '
        'Object stream: one Laminate (fresh / read_stack with one or several materials, zero and non-zero offset / '
        'read_lamination_parameters) and 2-9 method calls or attribute assignments on it (calc_*, force_*, offset, matobj, '
        'xi*, ply trig attributes); every reported attribute is compared with the model after every call (1e-12 of the block scale), '
        'exception classes exactly')

ORDER = ['q11', 'q12', 'q22', 'q16', 'q26', 'q66', 'q44', 'q45', 'q55']
IDX5 = {'q11': (0, 0), 'q12': (0, 1), 'q22': (1, 1), 'q16': (0, 2), 'q26': (1, 2), 'q66': (2, 2),
        'q44': (3, 3), 'q45': (3, 4), 'q55': (4, 4)}


def gen_prop(rng, n=None):
    n = n or rng.choice([3, 6, 6, 6, 9])
    e1 = rng.choice([142.5e9, 70e9, 1.0, rng.uniform(1, 200)])
    e2 = e1 if n == 3 else rng.choice([e1 * 8.7 / 142.5, e1, rng.uniform(0.05, 1) * e1])
    nu12 = rng.choice([0.28, 0.3, 0.0, rng.uniform(-0.2, 0.45)])
    g = [rng.uniform(0.01, 0.5) * e1 for _ in range(3)]
    assert 1 - nu12 * nu12 * e2 / e1 > 0.5
    if n == 3:
        return (e1, e2, nu12)
    if n == 6:
        return (e1, e2, nu12, g[0], g[1], g[2])
    return (e1, e2, nu12, g[0], g[1], g[2], rng.uniform(0.5, 1) * e2, rng.uniform(0, 0.3), rng.uniform(0, 0.3))


def gen_case(rng):
    kind = rng.random()
    nply = rng.choice([1, 1, 2, 3, 4, 4, 6, 8, 12])
    angles = [rng.choice([0, 45, -45, 90, 30, -60, rng.uniform(-180, 180)]) for _ in range(nply)]
    if rng.random() < 0.2:   # symmetric stack
        angles = angles + angles[::-1]
    offset = rng.choice([0., 0., rng.choice([-1, 1]) * rng.choice([0.125, 0.5, 1e-3]), rng.uniform(-2, 2) * 1e-3])
    tscale = rng.choice([0.125e-3, 1., 0.25, 0.125e-3, 1.25e-6, 2e-7])      # m, mm, and micrometre-thin plies in m
    if tscale < 1e-5:
        offset = rng.choice([0., 0., rng.uniform(-2, 2) * tscale])
    case = dict(stack=angles, offset=offset, plyt=None, laminaprop=None, plyts=[], laminaprops=[])
    if rng.random() < 0.5:
        case['plyt'] = tscale * rng.choice([1., rng.uniform(0.5, 2)])
    else:
        case['plyts'] = [tscale * rng.choice([1., 2., rng.uniform(0.5, 2)]) for _ in angles]
    if rng.random() < 0.5:
        case['laminaprop'] = gen_prop(rng)
    else:
        case['laminaprops'] = [gen_prop(rng) for _ in angles]
    if kind < 0.12:          # malformed stream
        m = rng.choice(['nothick', 'noprop', 'zerothick', 'badlen', 'short_plyts', 'emptyprop'])
        case['malformed'] = m
        if m == 'nothick':
            case['plyt'], case['plyts'] = None, []
        elif m == 'zerothick':
            case['plyt'], case['plyts'] = 0.0, []
        elif m == 'noprop':
            case['laminaprop'], case['laminaprops'] = None, []
        elif m == 'emptyprop':
            case['laminaprop'], case['laminaprops'] = (), []
        elif m == 'badlen':
            p = gen_prop(rng, 9)
            case['laminaprop'], case['laminaprops'] = p[:rng.choice([0, 1, 2, 4, 5, 7, 8])] or None, []
            if case['laminaprop'] is None:
                case['laminaprop'] = p[:4]
        elif m == 'short_plyts':
            case['plyt'], case['plyts'] = None, [tscale] * max(1, len(angles) - 1)
    return case


def cs_of(theta):
    t = np.deg2rad(float(theta))
    return float(np.cos(t)), float(np.sin(t))


def case_line(case):
    cs = ' ; '.join('%s %s' % (q(c), q(s)) for c, s in map(cs_of, case['stack']))
    f = lambda x: '-' if x is None else q(x)
    fl = lambda x: '-' if x is None else ' '.join(q(v) for v in x)
    return 'C01 stack %s | %s | %s | %s | %s | %s' % (
        q(case['offset']), f(case['plyt']), fl(case['laminaprop']),
        ' '.join(q(v) for v in case['plyts']),
        ' ; '.join(' '.join(q(v) for v in p) for p in case['laminaprops']), cs)


HISTORY = []      # valid cases already run in this process (read_stack must not depend on them)


def run_impl(case):
    """the real code; returns ('ok', lam) or ('err', kind).  Arguments the case does not give are OMITTED, so that the
    function's own defaults are exercised; the caller's lists and the defaults must come back unchanged."""
    from compmech.composite import laminate as _lm
    read_stack = _lm.read_stack
    kw = dict(offset=case['offset'])
    if case['plyt'] is not None:
        kw['plyt'] = case['plyt']
    if case['laminaprop'] is not None:
        kw['laminaprop'] = case['laminaprop']
    if case['plyts']:
        kw['plyts'] = list(case['plyts'])
    if case['laminaprops']:
        kw['laminaprops'] = list(case['laminaprops'])
    stack = list(case['stack'])
    before = (list(stack), list(kw.get('plyts', [])), list(kw.get('laminaprops', [])))
    try:
        with contextlib.redirect_stdout(io.StringIO()):
            lam = read_stack(stack, **kw)
    except ValueError:
        return 'err', 'ValueError'
    except IndexError:
        return 'err', 'IndexError'
    except ZeroDivisionError:
        return 'err', 'ZeroDivisionError'
    finally:
        dfl = read_stack.__defaults__ or ()
        if any(isinstance(d, (list, dict)) and len(d) for d in dfl):
            case['_leak'] = 'read_stack changed its own default arguments to %r: later calls depend on earlier ones' % (dfl,)
        if (stack, list(kw.get('plyts', [])), list(kw.get('laminaprops', []))) != before:
            case['_leak'] = 'read_stack modified the lists supplied by the caller'
    return 'ok', lam


def oracle(case):
    """independent of the closed formulas: Qbar = T^-1 Q T^-T by matrix products, thickness integral by
    3-point Gauss per ply.  Returns (A,B,D (3x3), E (2x2))."""
    n = len(case['stack'])
    ts = case['plyts'] if case['plyts'] else [case['plyt']] * n
    ps = case['laminaprops'] if case['laminaprops'] else [case['laminaprop']] * n
    m = min(n, len(ts), len(ps))
    ts, ps, angs = ts[:m], ps[:m], case['stack'][:m]
    T = sum(ts)
    z = -T / 2. + case['offset']
    A = np.zeros((3, 3)); B = np.zeros((3, 3)); D = np.zeros((3, 3)); E = np.zeros((2, 2))
    gx = np.array([-math.sqrt(3 / 5.), 0., math.sqrt(3 / 5.)]); gw = np.array([5 / 9., 8 / 9., 5 / 9.])
    for t, p, th in zip(ts, ps, angs):
        if len(p) == 3:
            e1, e2, nu12 = p[0], p[0], p[2]
            g12 = g13 = g23 = e1 / (2 * (1 + nu12))
        else:
            e1, e2, nu12, g12, g13, g23 = p[:6]
        nu21 = nu12 * e2 / e1
        S = np.array([[1 / e1, -nu21 / e2, 0], [-nu12 / e1, 1 / e2, 0], [0, 0, 1 / g12]])
        Q = np.linalg.inv(S)
        c, s = cs_of(th)
        Ts = np.array([[c * c, s * s, 2 * s * c], [s * s, c * c, -2 * s * c], [-s * c, s * c, c * c - s * s]])
        Rr = np.diag([1., 1., 2.])
        Qb = np.linalg.inv(Ts) @ Q @ Rr @ Ts @ np.linalg.inv(Rr)
        R2 = np.array([[c, -s], [s, c]])          # (gyz, gxz) -> ply axes
        Cs = np.diag([g23, g13])
        Eb = R2.T @ Cs @ R2
        zs = z + t / 2. * (gx + 1)
        for zi, wi in zip(zs, gw * t / 2.):
            A += wi * Qb; B += wi * zi * Qb; D += wi * zi * zi * Qb; E += wi * Eb
        z += t
    return A, B, D, E


def nontrivial(case):
    a = case['stack']
    return (len(a) >= 2 and any(abs(x) % 90 != 0 for x in a)
            and (case['offset'] != 0 or a != a[::-1]) and 'malformed' not in case)


def compare(case, reply):
    """returns None if model and implementation agree, else a description"""
    kind, lam = run_impl(case)
    tok = reply.split()
    if kind == 'err':
        if tok[0] == 'err':
            want = {'noThickness': 'ValueError', 'noLaminaprop': 'ValueError', 'badLaminaprop': 'IndexError'}
            if want.get(tok[1]) == lam:
                return None
            return 'implementation raised %s, model says %s' % (lam, reply)
        return 'implementation raised %s, model returned a laminate' % lam
    if tok[0] != 'ok':
        return 'model says %s, implementation returned a laminate' % reply
    vals = [unq(x) for x in tok[1:]]
    t, A, B, D = vals[0], vals[1:10], vals[10:19], vals[19:28]
    if not close(lam.t, t, abs(lam.t)):
        return 't: impl %r model %r' % (lam.t, float(t))
    sA = float(np.abs(lam.A_general).max()); L = abs(lam.t) / 2. + abs(case['offset'])
    for name, model, impl, scale in (('A', A, lam.A_general, sA), ('B', B, lam.B_general, sA * L),
                                     ('D', D, lam.D_general, sA * L * L)):
        for k, key in enumerate(ORDER):
            i, j = IDX5[key]
            for (a, b) in ((i, j), (j, i)):
                if not close(impl[a, b], model[k], scale):
                    return '%s[%d,%d]: impl %r model %r' % (name, a, b, impl[a, b], float(model[k]))
        # zero pattern of the 5x5 general matrices
        for a in range(5):
            for b in range(5):
                if (a < 3) != (b < 3) and impl[a, b] != 0:
                    return '%s_general[%d,%d] should be 0' % (name, a, b)
    # reported matrices are the stated blocks
    ABD = np.block([[lam.A_general[:3, :3], lam.B_general[:3, :3]], [lam.B_general[:3, :3], lam.D_general[:3, :3]]])
    ABDE = np.zeros((8, 8)); ABDE[:6, :6] = ABD; ABDE[6:, 6:] = lam.A_general[3:, 3:]
    for name, got, want in (('A', lam.A, ABD[:3, :3]), ('B', lam.B, ABD[:3, 3:]), ('D', lam.D, ABD[3:, 3:]),
                            ('E', lam.E, ABDE[6:, 6:]), ('ABD', lam.ABD, ABD), ('ABDE', lam.ABDE, ABDE)):
        if got.shape != want.shape or not np.array_equal(got, want):
            return 'reported %s is not the stated block of A/B/D_general' % name
    return None


def oracle_check(case):
    """property predicate evaluated on the implementation, independent of the model"""
    kind, lam = run_impl(case)
    if case.get('_leak'):
        return case['_leak']
    if kind != 'ok':
        return None
    A, B, D, E = oracle(case)
    sA = max(np.abs(A).max(), np.abs(lam.A).max(), 1e-300); L = abs(lam.t) / 2. + abs(case['offset'])
    for name, got, want, scale in (('A', lam.A, A, sA), ('B', lam.B, B, sA * L), ('D', lam.D, D, sA * L * L),
                                   ('E', lam.E, E, max(np.abs(E).max(), 1e-300))):
        if np.abs(got - want).max() > 1e-8 * scale:
            return '%s differs from the through-thickness integral of the rotated ply stiffness (max diff %.3e, scale %.3e)' % (
                name, np.abs(got - want).max(), scale)
    if not np.allclose(lam.ABD, lam.ABD.T, rtol=0, atol=0):
        return 'ABD not symmetric'
    return None


def derived_checks(rng, case):
    """the 'hence' clauses of C01 evaluated on the implementation for one valid case"""
    from compmech.composite.laminate import read_stack
    kind, lam = run_impl(case)
    if kind != 'ok' or 'malformed' in case:
        return None
    kw = {}
    if case['plyt'] is not None:
        kw['plyt'] = case['plyt']
    if case['laminaprop'] is not None:
        kw['laminaprop'] = case['laminaprop']
    if case['plyts']:
        kw['plyts'] = list(case['plyts'])
    if case['laminaprops']:
        kw['laminaprops'] = list(case['laminaprops'])
    sA = max(float(np.abs(lam.A).max()), 1e-300)
    # offset shift
    d = rng.choice([-1, 1]) * rng.uniform(0.1, 1) * lam.t
    lam2 = read_stack(list(case['stack']), offset=case['offset'] + d, **kw)
    L = abs(lam.t) / 2. + abs(case['offset']) + abs(d)
    S = {'A': sA, 'B': sA * L, 'D': sA * L * L}
    if np.abs(lam2.A - lam.A).max() > 1e-9 * sA:
        return 'offset changed A'
    if np.abs(lam2.B - (lam.B + d * lam.A)).max() > 1e-9 * S['B']:
        return 'B(offset+d) != B + d*A'
    if np.abs(lam2.D - (lam.D + 2 * d * lam.B + d * d * lam.A)).max() > 1e-9 * S['D']:
        return 'D(offset+d) != D + 2dB + d^2 A'
    # the SAME Laminate object evaluated again: idempotent; after moving the reference surface it gives what a freshly read stack gives
    # (the matrices belong to the current definition, not to the history of the object)
    keep = {n_: np.array(getattr(lam, n_)) for n_ in ('A', 'B', 'D', 'E', 'ABD', 'ABDE')}
    lam.calc_constitutive_matrix()
    for n_, v_ in keep.items():
        if not np.array_equal(np.asarray(getattr(lam, n_)), v_):
            return 'calc_constitutive_matrix() evaluated a second time on the same Laminate changes %s (max change %.3e)' % (
                n_, np.abs(np.asarray(getattr(lam, n_)) - v_).max())
    lam.offset = case['offset'] + d
    lam.calc_constitutive_matrix()
    for n_ in 'ABD':
        if np.abs(getattr(lam, n_) - getattr(lam2, n_)).max() > 1e-12 * S[n_]:
            return ('after lam.offset is changed and calc_constitutive_matrix() re-run on the same Laminate, %s differs from that of a freshly read '
                    'stack with the new offset (max diff %.3e)' % (n_, np.abs(getattr(lam, n_) - getattr(lam2, n_)).max()))
    lam.offset = case['offset']
    lam.calc_constitutive_matrix()
    for n_, v_ in keep.items():
        if np.abs(np.asarray(getattr(lam, n_)) - v_).max() > 1e-12 * max(np.abs(v_).max(), 1e-300):
            return 'moving the reference surface away and back on the same Laminate does not restore %s' % n_
    # positive definiteness
    w = np.linalg.eigvalsh(lam.ABD)
    if w.min() <= 0:
        return 'ABD not positive definite (min eig %.3e)' % w.min()
    # mirror
    lam3 = read_stack([-a for a in case['stack']], offset=case['offset'], **kw)
    sgn = np.array([[1, 1, -1], [1, 1, -1], [-1, -1, 1]])
    for n_ in 'ABD':
        if np.abs(getattr(lam3, n_) - sgn * getattr(lam, n_)).max() > 1e-9 * S[n_]:
            return 'mirroring the angles does not flip exactly the 16/26 entries of ' + n_
    # +90
    lam4 = read_stack([a + 90 for a in case['stack']], offset=case['offset'], **kw)
    P = np.array([[0, 1, 0], [1, 0, 0], [0, 0, -1.]])
    for n_ in 'ABD':
        if np.abs(getattr(lam4, n_) - P @ getattr(lam, n_) @ P.T).max() > 1e-8 * S[n_]:
            return 'rotating every ply by 90 degrees does not permute ' + n_ + ' as tensor rotation prescribes'
    return None


def correspondence(ctx):
    n = ctx.scale(250, 5000)
    rng = ctx.rng
    cases = [gen_case(rng) for _ in range(n)]
    lines = [case_line(c) for c in cases]
    replies = driver(lines)
    assert len(replies) == len(lines), (len(replies), len(lines))
    dist = dict(plies={}, tuple_len={}, malformed={}, uniform_t=0, uniform_prop=0, offset_nonzero=0, errors=0)
    for c, line, rep in zip(cases, lines, replies):
        ctx.evaluations += 1
        dist['plies'][len(c['stack'])] = dist['plies'].get(len(c['stack']), 0) + 1
        for p in ([c['laminaprop']] if c['laminaprop'] else []) + list(c['laminaprops']):
            dist['tuple_len'][len(p)] = dist['tuple_len'].get(len(p), 0) + 1
        if 'malformed' in c:
            dist['malformed'][c['malformed']] = dist['malformed'].get(c['malformed'], 0) + 1
        dist['uniform_t'] += c['plyt'] is not None and not c['plyts']
        dist['uniform_prop'] += c['laminaprop'] is not None and not c['laminaprops']
        dist['offset_nonzero'] += c['offset'] != 0
        dist['errors'] += rep.startswith('err')
        if nontrivial(c):
            ctx.nontrivial.add(line)
        ctx.sample(dict(case=c, model_reply=rep[:200]), limit=3)
        bad = compare(c, rep)
        hist = [h for h in HISTORY[-4:]]
        HISTORY.append({k: v for k, v in c.items() if not k.startswith('_')})
        if bad:
            # model and implementation differ: is the property itself violated on the implementation?
            o = oracle_check(c) or derived_checks(rng, c)
            if o:
                ctx.violation('C01 fails on the implementation: ' + o, dict(case=c, model_disagreement=bad, history=hist))
            else:
                ctx.violation('model/implementation disagreement (%s); the independent oracle found no failing '
                              'input for this case' % bad, dict(case=c, correspondence='Model/Laminate.lean vs read_stack'),
                              found_input=False)
            return
        o = oracle_check(c)
        if o is None and ctx.evaluations % 5 == 0:
            o = derived_checks(rng, c)
        if o:
            ctx.violation('C01 fails on the implementation: ' + o, dict(case=c, history=hist))
            return
    ctx.cov['input_distribution'] = dist
    if not object_stream(ctx):
        return
    ctx.cov['traces_validated_against_impl'] = ctx.evaluations


def search(ctx, reason):
    """proof or tie broken: look for an input on which the implementation violates C01"""
    rng = ctx.rng
    for k in range(ctx.scale(400, 4000)):
        c = gen_case(rng)
        ctx.evaluations += 1
        o = oracle_check(c) or derived_checks(rng, c)
        if o:
            ctx.violation('C01 fails on the implementation: ' + o + ' [after: %s]' % '; '.join(reason)[:300], dict(case=c))
            return True
    for k in range(ctx.scale(60, 600)):          # the lamination-parameter route, judged by the property itself
        ctx.evaluations += 1
        for ident, text, rp in lp_route_checks(rng):
            if ctx.violation('C01 fails on the implementation: ' + text + ' [after: %s]' % '; '.join(reason)[:300], rp, identity=ident):
                return True
    return False


def replay(ctx, data):
    if data['replay'].get('sequence'):
        sq = data['replay']['sequence']
        rep = driver([seq_line(sq)])[0]
        bad = compare_seq(sq, rep)
        print('object model-vs-impl:', bad)
        return 1 if bad else 0
    if data['replay'].get('laminaprop') and not data['replay'].get('case'):
        bad = compare_mat(data['replay']['laminaprop'], driver([mat_line(data['replay']['laminaprop'])])[0])
        print('MatLamina.rebuild model-vs-impl:', bad)
        return 1 if bad else 0
    if data['replay'].get('lp_route'):
        print('the lamination-parameter predicates are re-drawn from the seed; recorded case:', data['replay']['lp_route'])
        res = [r for _ in range(40) for r in lp_route_checks(ctx.rng)]
        unknown = [t for i, t, _ in res if i is None]
        for t in unknown[:3]:
            print('  ', t)
        return 1 if unknown else 0
    c = data['replay'].get('case')
    if not c:
        print('replay names a broken obligation, no input:', data['what'])
        return 1
    c['laminaprop'] = tuple(c['laminaprop']) if c['laminaprop'] is not None else None
    for h in data['replay'].get('history', []):         # calls made earlier in the same process
        h['laminaprop'] = tuple(h['laminaprop']) if h.get('laminaprop') is not None else None
        run_impl(h)
    o = oracle_check(c) or derived_checks(ctx.rng, c)
    rep = driver([case_line(c)])[0]
    bad = compare(c, rep)
    print('oracle:', o, '| model-vs-impl:', bad)
    return 1 if (o or bad) else 0


# ============================================================================= the Laminate OBJECT: lamination parameters, force_*, moduli
# One object, a constructor and a sequence of method calls / attribute assignments; after EVERY stage every reported
# attribute of the real object is compared with the model (Model/LaminationParams.lean), exception classes exactly.
SEQ_FIELDS = ['xiA', 'xiB', 'xiD', 'xiE', 'A', 'B', 'D', 'E', 'ABD', 'ABDE', 'A_general', 'B_general', 'D_general']
SCALARS = ['t', 'e1', 'e2', 'g12', 'nu12', 'nu21']
METHODS = {'cc': 'calc_constitutive_matrix', 'rebuild': 'rebuild', 'clp': 'calc_lamination_parameters',
           'abde': 'calc_ABDE_from_lamination_parameters', 'fbal': 'force_balanced_LP', 'fsymlp': 'force_symmetric_LP',
           'forth': 'force_orthotropic', 'fsym': 'force_symmetric', 'eqmod': 'calc_equivalent_modulus'}
REL = 1e-12


def trig_of(theta):
    t = np.deg2rad(float(theta))
    return [float(np.cos(2 * t)), float(np.sin(2 * t)), float(np.cos(4 * t)), float(np.sin(4 * t))]


def gen_planar_prop(rng):
    """nine entries with nu13 = nu23 = 0: the 3-D stiffnesses of MatLamina.rebuild reduce to the plane-stress ones"""
    p = list(gen_prop(rng, 9))
    p[7] = 0.
    p[8] = 0.
    return tuple(p)


def stack_thicknesses(case):
    n = len(case['stack'])
    return list(case['plyts']) if case['plyts'] else [case['plyt']] * n


def xis_of_stack(angles, ts, offset=0.):
    """the sixteen lamination parameters of a stack by their definition (z from the mid-plane), computed here"""
    T = float(sum(ts))
    z = -T / 2. + offset
    out = np.zeros((4, 4))
    for a, t in zip(angles, ts):
        z0, z1 = z, z + t
        f = np.array(trig_of(a))
        out[0] += (t / T) * f
        out[1] += (2. / T ** 2) * (z1 ** 2 - z0 ** 2) * f
        out[2] += (4. / T ** 3) * (z1 ** 3 - z0 ** 3) * f
        out[3] += (t / T) * f
        z = z1
    return [float(v) for v in out.ravel()]


def gen_seq(rng):
    r = rng.random()

    def body(pool, lo, hi, T):
        out = []
        for _ in range(rng.randint(lo, hi)):
            o = rng.choice(pool)
            if o == 'offset0':
                out.append(['offset', 0.])
            elif o == 'offsetd':
                out.append(['offset', rng.choice([-1, 1]) * rng.uniform(0.05, 1.5) * T])
            elif o == 'xi':
                out.append([rng.choice(['xiA', 'xiB', 'xiD', 'xiE']),
                            [rng.choice([0., 1., rng.uniform(-1, 1)]) for _ in range(5)]])
            elif o == 't':
                out.append(['t', T * rng.choice([1., 2., rng.uniform(0.5, 2)])])
            else:
                out.append([o])
        return out

    if r < 0.06:
        ctor = dict(kind='fresh')
        steps = body(list(METHODS), 1, 4, 1.)
        if rng.random() < 0.5:
            steps.insert(rng.randint(0, len(steps)), ['matobj', list(gen_prop(rng))])
    elif r < 0.72:
        while True:
            case = gen_case(rng)
            if 'malformed' not in case:
                break
        if rng.random() < 0.6:          # one material; half of them with nu13 = nu23 = 0
            case['laminaprop'] = gen_planar_prop(rng) if rng.random() < 0.5 else gen_prop(rng)
            case['laminaprops'] = []
        T = float(sum(stack_thicknesses(case)))
        case['offset'] = 0. if rng.random() < 0.5 else rng.choice([-1, 1]) * rng.uniform(0.05, 1.5) * T
        ctor = dict(kind='stack', case=case)
        mat = case['laminaprop'] if case['laminaprop'] is not None else rng.choice(case['laminaprops'])
        pre = []
        if rng.random() < 0.8:
            pre.append(['matobj', list(mat)])
        if rng.random() < 0.8:
            pre.append(['trig', [trig_of(a) for a in case['stack']]])
        rng.shuffle(pre)
        b = body(['clp', 'abde', 'clp', 'abde', 'fbal', 'fsymlp', 'forth', 'forth', 'fsym', 'eqmod', 'cc', 'rebuild',
                  'offset0', 'offset0', 'offsetd', 'xi'], 2, 7, T)
        if len(pre) == 2 and rng.random() < 0.7:      # the round trip proper, then whatever follows
            pre = pre + [['clp']] + ([['abde']] if rng.random() < 0.7 else [])
        steps = pre + b if rng.random() < 0.8 else b[:1] + pre + b[1:]
    else:
        T = rng.choice([1., 0.25, 1e-3, rng.uniform(0.1, 3)])
        prop = gen_planar_prop(rng) if rng.random() < 0.4 else gen_prop(rng)
        if rng.random() < 0.6:
            n = rng.randint(1, 6)
            angs = [rng.choice([0, 45, -45, 90, 30, rng.uniform(-90, 90)]) for _ in range(n)]
            xis = xis_of_stack(angs, [T / n] * n)
        else:
            xis = [rng.choice([0., rng.uniform(-1, 1)]) for _ in range(16)]
        ctor = dict(kind='lp', thickness=T, laminaprop=list(prop), xis=xis)
        steps = body(['abde', 'fbal', 'fbal', 'fsymlp', 'fsymlp', 'forth', 'forth', 'fsym', 'fsym', 'eqmod', 'eqmod', 'xi', 'xi',
                      'clp', 'cc', 'offsetd', 'offset0', 't'], 2, 7, T)
    return dict(ctor=ctor, steps=steps)


def seq_line(sq):
    c = sq['ctor']
    if c['kind'] == 'fresh':
        head = 'fresh'
    elif c['kind'] == 'stack':
        head = 'stack ' + case_line(c['case'])[len('C01 stack '):]
    else:
        head = 'lp %s | %s | %s' % (q(c['thickness']), ' '.join(q(v) for v in c['laminaprop']), ' '.join(q(v) for v in c['xis']))
    parts = [head]
    for st in sq['steps']:
        op = st[0]
        if len(st) == 1:
            parts.append(op)
        elif op in ('offset', 't'):
            parts.append('%s %s' % (op, q(st[1])))
        elif op == 'trig':
            parts.append('trig ' + ' ; '.join(' '.join(q(v) for v in g) for g in st[1]))
        else:
            parts.append(op + ' ' + ' '.join(q(v) for v in st[1]))
    return 'C01 lam ' + ' # '.join(parts)


def snap_impl(lam, exc):
    d = dict(status='ok' if exc is None else 'err ' + type(exc).__name__)
    for name in SCALARS:
        v = getattr(lam, name, None)
        d[name] = None if v is None else float(v)
    for name in SEQ_FIELDS:
        v = getattr(lam, name, None)
        d[name] = None if v is None else np.array(v, dtype=float)     # a copy: several attributes are views
    return d


def apply_step(lam, st):
    from compmech.composite.matlamina import read_laminaprop
    op = st[0]
    if op in METHODS:
        getattr(lam, METHODS[op])()
    elif op == 'offset':
        lam.offset = st[1]
    elif op == 't':
        lam.t = st[1]
    elif op == 'matobj':
        lam.matobj = read_laminaprop(tuple(st[1]))
    elif op == 'trig':
        for ply, g in zip(lam.plies, st[1]):
            ply.cos2t, ply.sin2t, ply.cos4t, ply.sin4t = g
    elif op in ('xiA', 'xiB', 'xiD', 'xiE'):
        setattr(lam, op, np.array(st[1], dtype=float))
    else:
        raise KeyError(op)


def run_seq_impl(sq):
    """the real object; returns (list of snapshots, lam) or ('ctor-err <kind>', None)"""
    import warnings
    from compmech.composite import laminate as _lm
    c = sq['ctor']
    snaps = []
    with warnings.catch_warnings(), np.errstate(all='ignore'), contextlib.redirect_stdout(io.StringIO()):
        warnings.simplefilter('ignore')
        try:
            if c['kind'] == 'fresh':
                lam = _lm.Laminate()
            elif c['kind'] == 'stack':
                kind, lam = run_impl(dict(c['case']))
                if kind == 'err':
                    return 'ctor-err ' + lam, None
            else:
                lam = _lm.read_lamination_parameters(c['thickness'], tuple(c['laminaprop']), *c['xis'])
        except Exception as e:
            return 'ctor-err ' + type(e).__name__, None
        snaps.append(snap_impl(lam, None))
        for st in sq['steps']:
            exc = None
            try:
                apply_step(lam, st)
            except Exception as e:
                exc = e
            snaps.append(snap_impl(lam, exc))
    return snaps, lam


def parse_seq_reply(rep):
    if rep.startswith('err'):
        return rep
    out = []
    for part in rep.split(' # '):
        f = [x.strip() for x in part.split(' ; ')]
        d = dict(status=f[0])
        d['t'] = None if f[1] == '-' else unq(f[1])
        e = f[2].split()
        for k, name in enumerate(SCALARS[1:]):
            d[name] = None if e[k] == '-' else unq(e[k])
        for k, name in enumerate(SEQ_FIELDS):
            v = f[3 + k]
            d[name] = None if v == '-' else [unq(x) for x in v.split()]
        out.append(d)
    return out


def seq_scales(sq, model):
    """stiffness scale, thickness scale and the largest |z| the object ever had"""
    from compmech.composite.matlamina import read_laminaprop
    c = sq['ctor']
    Qs, T, off = 0., 0., 0.
    props = []
    if c['kind'] == 'stack':
        cs = c['case']
        props += [cs['laminaprop']] if cs['laminaprop'] is not None else list(cs['laminaprops'])
        T = float(sum(abs(x) for x in stack_thicknesses(cs)))
        off = abs(cs['offset'])
    elif c['kind'] == 'lp':
        props.append(c['laminaprop'])
        T = abs(c['thickness'])
    for st in sq['steps']:
        if st[0] == 'matobj':
            props.append(st[1])
        elif st[0] == 'offset':
            off = max(off, abs(st[1]))
        elif st[0] == 't':
            T = max(T, abs(st[1]))
    for p in props:
        m = read_laminaprop(tuple(p))
        Qs = max(Qs, float(np.abs(m.u).max()), float(m.e1) / (1 - m.nu12 * m.nu21))
    for d in model if isinstance(model, list) else []:
        if d['t'] is not None:
            T = max(T, abs(float(d['t'])))
    return Qs, T, T / 2. + off


def cmp_block(name, got, want, scale, rel=REL):
    """got: ndarray (impl), want: list of Fraction (model), same C order"""
    g = np.asarray(got, dtype=float).ravel()
    if len(g) != len(want):
        return '%s: shape %r, the model has %d entries' % (name, np.shape(got), len(want))
    tol = Fraction(rel) * Fraction(scale) + Fraction(1, 10 ** 300)
    for k, (x, y) in enumerate(zip(g, want)):
        if not math.isfinite(x):
            return '%s[%d] is %r' % (name, k, x)
        if abs(Fraction(x) - y) > tol:
            return '%s (flat index %d): impl %r model %r (tolerance %.3e)' % (name, k, x, float(y), float(tol))
    return None


def sub(flat, n, rows, cols):
    return [flat[i * n + j] for i in rows for j in cols]


def compare_seq(sq, reply):
    """None if the real object and the model agree after every stage, else (stage, description)"""
    got = run_seq_impl(sq)
    model = parse_seq_reply(reply)
    if isinstance(model, str):
        if got[1] is None:
            want = {'err badLaminaprop': 'ctor-err IndexError', 'err noThickness': 'ctor-err ValueError',
                    'err noLaminaprop': 'ctor-err ValueError'}
            return None if want.get(model) == got[0] else (0, 'constructor: impl %s, model %s' % (got[0], model))
        return 0, 'constructor: model says %s, the implementation returned an object' % model
    if got[1] is None:
        return 0, 'constructor: implementation raised %s, the model returned an object' % got[0]
    snaps = got[0]
    if len(snaps) != len(model):
        return 0, 'stage count %d vs %d' % (len(snaps), len(model))
    Qs, T, L = seq_scales(sq, model)
    mx = lambda v: max([abs(float(x)) for x in v] + [0.])
    names = ['constructor'] + [' '.join([st[0]] + ([] if len(st) == 1 else ['…'])) for st in sq['steps']]
    for k, (g, m) in enumerate(zip(snaps, model)):
        where = 'after stage %d (%s): ' % (k, names[k])
        if g['status'] != m['status']:
            return k, where + 'implementation %s, model %s' % (g['status'], m['status'])
        for name in SCALARS + SEQ_FIELDS:
            if (g[name] is None) != (m[name] is None):
                return k, where + '%s is %s on the object, %s in the model' % (
                    name, 'None' if g[name] is None else 'set', 'None' if m[name] is None else 'set')
        if m['t'] is not None and abs(Fraction(g['t']) - m['t']) > Fraction(REL) * abs(m['t']):
            return k, where + 't: impl %r model %r' % (g['t'], float(m['t']))
        for name in SCALARS[1:]:
            # a model value that is exactly 0 is a division by an exact zero (x/0 = 0 in the model; the implementation divides by rounding
            # noise, e.g. AI[0,0] of [[A, B], [B, 0]]): no margin, not judged
            if m[name] is not None and m[name] != 0 and math.isfinite(g[name]):
                if abs(Fraction(g[name]) - m[name]) > Fraction(1e-9) * abs(m[name]) + Fraction(1, 10 ** 300):
                    return k, where + '%s: impl %r model %r' % (name, g[name], float(m[name]))
        for name in ('xiA', 'xiB', 'xiD', 'xiE'):
            if m[name] is not None:
                bad = cmp_block(name, g[name], m[name], max(1., mx(m[name])) * max(1., L / max(T, 1e-300)))
                if bad:
                    return k, where + bad
        # floors of the block scales: the rounding of u.xi (isotropic material: u2 = u3 = 0 only up to rounding), of h_k^2 - h_{k-1}^2, h_k^3 - h_{k-1}^3
        fl = {'A': Qs * T, 'E': Qs * T, 'B': Qs * L ** 2, 'D': Qs * L ** 3}
        for name in 'ABD':
            if m[name] is not None:
                bad = cmp_block(name, g[name], m[name], max(mx(m[name]), fl[name]))
                if bad:
                    return k, where + bad
        if m['E'] is not None:
            bad = cmp_block('E', g['E'], m['E'], max(mx(m['E']), fl['E']))
            if bad:
                return k, where + bad
        for name, n in (('ABD', 6), ('ABDE', 8)):
            if m[name] is None:
                continue
            if np.shape(g[name]) != (n, n):
                return k, where + '%s has shape %r' % (name, np.shape(g[name]))
            gm = np.asarray(g[name])
            blocks = [('A', range(0, 3), range(0, 3)), ('B', range(0, 3), range(3, 6)), ('B', range(3, 6), range(0, 3)),
                      ('D', range(3, 6), range(3, 6))]
            if n == 8:
                blocks += [('E', range(6, 8), range(6, 8)), ('0', range(0, 6), range(6, 8)), ('0', range(6, 8), range(0, 6))]
            for bn, rows, cols in blocks:
                want = sub(m[name], n, rows, cols)
                bad = cmp_block('%s[%s block rows %d.. cols %d..]' % (name, bn, rows[0], cols[0]),
                                gm[np.ix_(list(rows), list(cols))], want, max(mx(want), fl.get(bn, 0.)))
                if bad:
                    return k, where + bad
        for name, key in (('A_general', 'A'), ('B_general', 'B'), ('D_general', 'D')):
            if m[name] is not None:
                bad = cmp_block(name + '[0:3,0:3]', np.asarray(g[name])[:3, :3], sub(m[name], 5, range(3), range(3)),
                                max(mx(sub(m[name], 5, range(3), range(3))), fl[key]))
                bad = bad or cmp_block(name + '[3:5,3:5]', np.asarray(g[name])[3:, 3:], sub(m[name], 5, range(3, 5), range(3, 5)),
                                       max(mx(sub(m[name], 5, range(3, 5), range(3, 5))), fl[key]))
                bad = bad or cmp_block(name + ' off-diagonal blocks', np.asarray(g[name])[:3, 3:], sub(m[name], 5, range(3), range(3, 5)), 0.)
                bad = bad or cmp_block(name + ' off-diagonal blocks', np.asarray(g[name])[3:, :3], sub(m[name], 5, range(3, 5), range(3)), 0.)
                if bad:
                    return k, where + bad
    return None


def mat_line(prop):
    return 'C01 mat ' + ' '.join(q(v) for v in prop)


def compare_mat(prop, reply):
    """MatLamina.rebuild: c, q.., u"""
    import warnings
    from compmech.composite.matlamina import read_laminaprop
    with warnings.catch_warnings():
        warnings.simplefilter('ignore')
        m = read_laminaprop(tuple(prop))
    tok = reply.split()
    if tok[0] != 'ok':
        return 'model: ' + reply
    v = [unq(x) for x in tok[1:]]
    c, qq, u = v[:9], v[9:21], v[21:]
    ci = [m.c[0, 0], m.c[0, 1], m.c[0, 2], m.c[1, 1], m.c[1, 2], m.c[2, 2], m.c[3, 3], m.c[4, 4], m.c[5, 5]]
    qi = [m.q11, m.q12, m.q13, m.q21, m.q22, m.q23, m.q31, m.q32, m.q33, m.q44, m.q55, m.q66]
    sc = max(abs(float(x)) for x in c + qq)
    # c and q.. pass through 1/delta resp. 1/den (one rounding of a difference of O(1) numbers): relative 1e-12 of the scale
    # is kept for u (the task's tolerance); c and q are conditioned by den, so they get 1e-10
    bad = cmp_block('matobj.c', ci, c, sc, 1e-10) or cmp_block('matobj.q..', [float(x) for x in qi], qq, sc, 1e-10)
    bad = bad or cmp_block('matobj.u', m.u, u, max(abs(float(x)) for x in u), 1e-10)
    if not bad and np.count_nonzero(m.c) > 12:
        bad = 'matobj.c has entries outside the orthotropic pattern'
    return bad


# ----------------------------------------------------------------------------- implementation predicates for the lamination-parameter route
def lp_route_checks(rng):
    """C01 evaluated on the implementation for the lamination-parameter route, independent of the model: a laminate
    described by the lamination parameters of a real single-material stack must report that stack's A, B, D, E.
    Returns a list of (identity or None, text, replay)."""
    import warnings
    from compmech.composite.laminate import read_stack, read_lamination_parameters
    from compmech.composite.matlamina import read_laminaprop
    out = []
    n = rng.choice([1, 2, 3, 4, 6])
    angs = [rng.choice([0, 45, -45, 90, 30, -60, rng.uniform(-90, 90)]) for _ in range(n)]
    ts = [rng.choice([0.125, 0.25, rng.uniform(0.1, 0.3)]) for _ in range(n)]
    planar = rng.random() < 0.5
    prop = gen_planar_prop(rng) if planar else gen_prop(rng)
    if rng.random() < 0.3 and len(prop) >= 6:
        prop = tuple(prop[:4]) + (prop[4], prop[4]) + tuple(prop[6:])          # g13 = g23
    m = read_laminaprop(tuple(prop))
    planar = (m.nu31 == 0 and m.nu32 == 0)
    offset = 0. if rng.random() < 0.6 else rng.choice([-1, 1]) * rng.uniform(0.1, 1) * sum(ts)
    desc = dict(stack=angs, plyts=ts, laminaprop=list(prop), offset=offset)
    with warnings.catch_warnings(), np.errstate(all='ignore'):
        warnings.simplefilter('ignore')
        ref = read_stack(list(angs), plyts=list(ts), laminaprop=prop, offset=offset)
        T = ref.t
        sA = float(np.abs(ref.A).max())
        L = T / 2. + abs(offset)
        S = dict(A=sA, B=sA * L, D=sA * L * L, E=float(np.abs(ref.E).max()))
        want = dict(A=np.array(ref.A), B=np.array(ref.B), D=np.array(ref.D), E=np.array(ref.E))

        # (1) the object's own route, exactly as the package leaves the plies
        lam = read_stack(list(angs), plyts=list(ts), laminaprop=prop, offset=offset)
        lam.matobj = lam.plies[0].matobj
        try:
            lam.calc_lamination_parameters()
            ran = True
        except AttributeError as e:
            ran = False
            out.append(('C01-lp-ply-trig-attributes-missing',
                        'calc_lamination_parameters() raises AttributeError (%s) on a laminate read by read_stack: no lamination '
                        'parameters, hence no LP matrices, can be obtained from a stack' % e, dict(lp_route=desc, step='clp')))
        # (2) the same with the four attributes supplied by the caller
        for ply, a in zip(lam.plies, angs):
            ply.cos2t, ply.sin2t, ply.cos4t, ply.sin4t = trig_of(a)
        lam.calc_lamination_parameters()
        lam.calc_ABDE_from_lamination_parameters()
        routes = [('calc_lamination_parameters + calc_ABDE_from_lamination_parameters (ply attributes set by the caller)', lam, offset)]
        # (3) read_lamination_parameters with the parameters of the stack (it has no offset argument: only for offset 0)
        if offset == 0.:
            lam2 = read_lamination_parameters(T, prop, *xis_of_stack(angs, ts))
            routes.append(('read_lamination_parameters(t, laminaprop, parameters of the stack)', lam2, 0.))
        u1 = m.u[0, 0]
        u4 = m.u[2, 0]
        u5 = m.u[6, 0]
        G0 = np.array([[u1, u4, 0], [u4, u1, 0], [0, 0, u5]])
        for rname, lm, off in routes:
            for key in 'ABDE':
                got = np.asarray(getattr(lm, key), dtype=float)
                if np.abs(got - want[key]).max() <= 1e-9 * S[key]:
                    continue
                ident = None
                why = ''
                if key == 'E':
                    if np.abs(got - want['E'][::-1, ::-1]).max() <= 1e-9 * S['E']:
                        ident = 'C01-lp-E-order-swapped'
                        why = ' (it is the stack\'s E with the two shear directions exchanged: [[E55, E45], [E45, E44]])'
                elif not planar:
                    ident = 'C01-lp-invariants-from-3d-stiffness'
                    why = ' (matobj.u is built from the 3-D stiffnesses c_ij, nu13 = %g, nu23 = %g, not from the plane-stress Q_ij)' % (m.nu13, m.nu23)
                elif off != 0. and key in 'BD':
                    miss = off * T * G0 if key == 'B' else off * off * T * G0
                    if np.abs(got + miss - want[key]).max() <= 1e-9 * S[key]:
                        ident = 'C01-lp-offset-ignored-in-constant-term'
                        why = ' (xiB[0] = 0 and xiD[0] = 1 are hard-coded: the isotropic part d*t*Gamma0 resp. d^2*t*Gamma0 is missing)'
                out.append((ident, '%s: %s differs from the through-thickness integral of the stack it describes '
                            '(max diff %.3e, scale %.3e)%s' % (rname, key, np.abs(got - want[key]).max(), S[key], why),
                            dict(lp_route=desc, route=rname, matrix=key)))
    return out


def seq_nontrivial(sq):
    ops = [st[0] for st in sq['steps']]
    return sq['ctor']['kind'] != 'fresh' and len(set(ops) & set(METHODS)) >= 2


def object_stream(ctx):
    """correspondence of the object model + the LP-route predicates; returns False after a recorded violation"""
    rng = ctx.rng
    n = ctx.scale(220, 4000)
    seqs = [gen_seq(rng) for _ in range(n)]
    props = [gen_prop(rng) for _ in range(ctx.scale(30, 300))]
    lines = [seq_line(s) for s in seqs] + [mat_line(p) for p in props]
    replies = driver(lines)
    assert len(replies) == len(lines), (len(replies), len(lines))
    dist = dict(ctor={}, ops={}, errors={}, stages=0, offset_nonzero=0, mixed_material=0)
    for sq, line, rep in zip(seqs, lines, replies):
        ctx.evaluations += 1
        k = sq['ctor']['kind']
        dist['ctor'][k] = dist['ctor'].get(k, 0) + 1
        if k == 'stack':
            dist['offset_nonzero'] += sq['ctor']['case']['offset'] != 0
            dist['mixed_material'] += bool(sq['ctor']['case']['laminaprops'])
        for st in sq['steps']:
            dist['ops'][st[0]] = dist['ops'].get(st[0], 0) + 1
        for part in rep.split(' # '):
            if part.startswith('err '):
                e = part.split(' ;')[0]
                dist['errors'][e] = dist['errors'].get(e, 0) + 1
        dist['stages'] += rep.count(' # ') + 1
        if seq_nontrivial(sq):
            ctx.nontrivial.add(line)
        ctx.sample(dict(sequence=sq, model_reply=rep[:160]), limit=5)
        bad = compare_seq(sq, rep)
        if bad:
            stage, text = bad
            ctx.violation('C01 object model/implementation disagreement: the Laminate object differs from Model/LaminationParams.lean '
                          + text, dict(sequence=sq, stage=stage, correspondence='Model/LaminationParams.lean vs compmech/composite/laminate.py'))
            return False
    for p, rep in zip(props, replies[len(seqs):]):
        ctx.evaluations += 1
        bad = compare_mat(p, rep)
        if bad:
            ctx.violation('MatLamina.rebuild differs from Model/LaminationParams.lean: ' + bad, dict(laminaprop=list(p)))
            return False
    hits = {}
    for _ in range(ctx.scale(40, 600)):
        ctx.evaluations += 1
        for ident, text, rp in lp_route_checks(rng):
            hits[ident] = hits.get(ident, 0) + 1
            if ctx.violation('C01 fails on the implementation: ' + text, rp, identity=ident):
                return False
    dist['lp_route_findings_hit'] = {str(k): v for k, v in hits.items()}
    ctx.cov['object_stream'] = dist
    return True
