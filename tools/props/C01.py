"""C01 — laminate ABD/ABDE: correspondence of Model/Laminate.lean with compmech/composite/*.py,
plus an oracle that is independent of the nine closed formulas (tensor rotation by matrix
products, Gauss quadrature through the thickness) used as failing-input search.
"""
import contextlib
import io
import math
import numpy as np
from fractions import Fraction

from tools.common import q, unq, close, driver

TRUSTED = [
    'Lean 4.33 kernel; axioms of every theorem within {propext, Classical.choice, Quot.sound} (audited each run)',
    'Mathlib v4.33 (interval integrals, ring, field_simp, nlinarith)',
    'hand-written model lean/CompmechVerif/Model/Laminate.lean of read_laminaprop, Lamina.rebuild (QL), '
    'read_stack, Laminate.calc_constitutive_matrix - tied to the running Python only by this correspondence check',
    'numpy deg2rad/cos/sin (the model receives the float cos/sin as exact rationals)',
    'IEEE rounding is not modelled: outputs compared to 1e-9 of the block scale',
]
ASSUMPTIONS = [
    'MatLamina.rebuild (3-D c_ij and invariants u) is not modelled: it does not feed ABD/ABDE',
    'lamination-parameter route (read_lamination_parameters) is outside C01 as stated',
]
RULE = ('stacks generated from one PRNG (VERIF_SEED): 1-12 plies, angles from {0,+-45,90,30,-60} or random reals, '
        'random/dyadic thicknesses, 3/6/9-entry material tuples, offsets of both signs, uniform and per-ply '
        'argument forms, plus a malformed stream; non-trivial = valid stack with >=2 plies, at least one '
        'angle that is not a multiple of 90 and a non-zero offset or unsymmetric stacking; distinct by input text')

ORDER = ['q11', 'q12', 'q22', 'q16', 'q26', 'q66', 'q44', 'q45', 'q55']
IDX5 = {'q11': (0, 0), 'q12': (0, 1), 'q22': (1, 1), 'q16': (0, 2), 'q26': (1, 2), 'q66': (2, 2),
        'q44': (3, 3), 'q45': (3, 4), 'q55': (4, 4)}


def gen_prop(rng, n=None):
    n = n or rng.choice([3, 6, 6, 6, 9])
    e1 = rng.choice([142.5e9, 70e9, 1.0, rng.uniform(1, 200)])
    e2 = e1 if n == 3 else rng.choice([e1 * 8.7 / 142.5, e1, rng.uniform(0.05, 1) * e1])
    nu12 = rng.choice([0.28, 0.3, 0.0, rng.uniform(-0.2, 0.45)])
    g = [rng.uniform(0.01, 0.5) * e1 for _ in range(3)]
    assert 1 - nu12 * nu12 * e2 / e1 > 0.5
    if n == 3:
        return (e1, e2, nu12)
    if n == 6:
        return (e1, e2, nu12, g[0], g[1], g[2])
    return (e1, e2, nu12, g[0], g[1], g[2], rng.uniform(0.5, 1) * e2, rng.uniform(0, 0.3), rng.uniform(0, 0.3))


def gen_case(rng):
    kind = rng.random()
    nply = rng.choice([1, 1, 2, 3, 4, 4, 6, 8, 12])
    angles = [rng.choice([0, 45, -45, 90, 30, -60, rng.uniform(-180, 180)]) for _ in range(nply)]
    if rng.random() < 0.2:   # symmetric stack
        angles = angles + angles[::-1]
    offset = rng.choice([0., 0., rng.choice([-1, 1]) * rng.choice([0.125, 0.5, 1e-3]), rng.uniform(-2, 2) * 1e-3])
    tscale = rng.choice([0.125e-3, 1., 0.25, 0.125e-3, 1.25e-6, 2e-7])      # m, mm, and micrometre-thin plies in m
    if tscale < 1e-5:
        offset = rng.choice([0., 0., rng.uniform(-2, 2) * tscale])
    case = dict(stack=angles, offset=offset, plyt=None, laminaprop=None, plyts=[], laminaprops=[])
    if rng.random() < 0.5:
        case['plyt'] = tscale * rng.choice([1., rng.uniform(0.5, 2)])
    else:
        case['plyts'] = [tscale * rng.choice([1., 2., rng.uniform(0.5, 2)]) for _ in angles]
    if rng.random() < 0.5:
        case['laminaprop'] = gen_prop(rng)
    else:
        case['laminaprops'] = [gen_prop(rng) for _ in angles]
    if kind < 0.12:          # malformed stream
        m = rng.choice(['nothick', 'noprop', 'zerothick', 'badlen', 'short_plyts', 'emptyprop'])
        case['malformed'] = m
        if m == 'nothick':
            case['plyt'], case['plyts'] = None, []
        elif m == 'zerothick':
            case['plyt'], case['plyts'] = 0.0, []
        elif m == 'noprop':
            case['laminaprop'], case['laminaprops'] = None, []
        elif m == 'emptyprop':
            case['laminaprop'], case['laminaprops'] = (), []
        elif m == 'badlen':
            p = gen_prop(rng, 9)
            case['laminaprop'], case['laminaprops'] = p[:rng.choice([0, 1, 2, 4, 5, 7, 8])] or None, []
            if case['laminaprop'] is None:
                case['laminaprop'] = p[:4]
        elif m == 'short_plyts':
            case['plyt'], case['plyts'] = None, [tscale] * max(1, len(angles) - 1)
    return case


def cs_of(theta):
    t = np.deg2rad(float(theta))
    return float(np.cos(t)), float(np.sin(t))


def case_line(case):
    cs = ' ; '.join('%s %s' % (q(c), q(s)) for c, s in map(cs_of, case['stack']))
    f = lambda x: '-' if x is None else q(x)
    fl = lambda x: '-' if x is None else ' '.join(q(v) for v in x)
    return 'C01 stack %s | %s | %s | %s | %s | %s' % (
        q(case['offset']), f(case['plyt']), fl(case['laminaprop']),
        ' '.join(q(v) for v in case['plyts']),
        ' ; '.join(' '.join(q(v) for v in p) for p in case['laminaprops']), cs)


HISTORY = []      # valid cases already run in this process (read_stack must not depend on them)


def run_impl(case):
    """the real code; returns ('ok', lam) or ('err', kind).  Arguments the case does not give are OMITTED, so that the
    function's own defaults are exercised; the caller's lists and the defaults must come back unchanged."""
    from compmech.composite import laminate as _lm
    read_stack = _lm.read_stack
    kw = dict(offset=case['offset'])
    if case['plyt'] is not None:
        kw['plyt'] = case['plyt']
    if case['laminaprop'] is not None:
        kw['laminaprop'] = case['laminaprop']
    if case['plyts']:
        kw['plyts'] = list(case['plyts'])
    if case['laminaprops']:
        kw['laminaprops'] = list(case['laminaprops'])
    stack = list(case['stack'])
    before = (list(stack), list(kw.get('plyts', [])), list(kw.get('laminaprops', [])))
    try:
        with contextlib.redirect_stdout(io.StringIO()):
            lam = read_stack(stack, **kw)
    except ValueError:
        return 'err', 'ValueError'
    except IndexError:
        return 'err', 'IndexError'
    except ZeroDivisionError:
        return 'err', 'ZeroDivisionError'
    finally:
        dfl = read_stack.__defaults__ or ()
        if any(isinstance(d, (list, dict)) and len(d) for d in dfl):
            case['_leak'] = 'read_stack changed its own default arguments to %r: later calls depend on earlier ones' % (dfl,)
        if (stack, list(kw.get('plyts', [])), list(kw.get('laminaprops', []))) != before:
            case['_leak'] = 'read_stack modified the lists supplied by the caller'
    return 'ok', lam


def oracle(case):
    """independent of the closed formulas: Qbar = T^-1 Q T^-T by matrix products, thickness integral by
    3-point Gauss per ply.  Returns (A,B,D (3x3), E (2x2))."""
    n = len(case['stack'])
    ts = case['plyts'] if case['plyts'] else [case['plyt']] * n
    ps = case['laminaprops'] if case['laminaprops'] else [case['laminaprop']] * n
    m = min(n, len(ts), len(ps))
    ts, ps, angs = ts[:m], ps[:m], case['stack'][:m]
    T = sum(ts)
    z = -T / 2. + case['offset']
    A = np.zeros((3, 3)); B = np.zeros((3, 3)); D = np.zeros((3, 3)); E = np.zeros((2, 2))
    gx = np.array([-math.sqrt(3 / 5.), 0., math.sqrt(3 / 5.)]); gw = np.array([5 / 9., 8 / 9., 5 / 9.])
    for t, p, th in zip(ts, ps, angs):
        if len(p) == 3:
            e1, e2, nu12 = p[0], p[0], p[2]
            g12 = g13 = g23 = e1 / (2 * (1 + nu12))
        else:
            e1, e2, nu12, g12, g13, g23 = p[:6]
        nu21 = nu12 * e2 / e1
        S = np.array([[1 / e1, -nu21 / e2, 0], [-nu12 / e1, 1 / e2, 0], [0, 0, 1 / g12]])
        Q = np.linalg.inv(S)
        c, s = cs_of(th)
        Ts = np.array([[c * c, s * s, 2 * s * c], [s * s, c * c, -2 * s * c], [-s * c, s * c, c * c - s * s]])
        Rr = np.diag([1., 1., 2.])
        Qb = np.linalg.inv(Ts) @ Q @ Rr @ Ts @ np.linalg.inv(Rr)
        R2 = np.array([[c, -s], [s, c]])          # (gyz, gxz) -> ply axes
        Cs = np.diag([g23, g13])
        Eb = R2.T @ Cs @ R2
        zs = z + t / 2. * (gx + 1)
        for zi, wi in zip(zs, gw * t / 2.):
            A += wi * Qb; B += wi * zi * Qb; D += wi * zi * zi * Qb; E += wi * Eb
        z += t
    return A, B, D, E


def nontrivial(case):
    a = case['stack']
    return (len(a) >= 2 and any(abs(x) % 90 != 0 for x in a)
            and (case['offset'] != 0 or a != a[::-1]) and 'malformed' not in case)


def compare(case, reply):
    """returns None if model and implementation agree, else a description"""
    kind, lam = run_impl(case)
    tok = reply.split()
    if kind == 'err':
        if tok[0] == 'err':
            want = {'noThickness': 'ValueError', 'noLaminaprop': 'ValueError', 'badLaminaprop': 'IndexError'}
            if want.get(tok[1]) == lam:
                return None
            return 'implementation raised %s, model says %s' % (lam, reply)
        return 'implementation raised %s, model returned a laminate' % lam
    if tok[0] != 'ok':
        return 'model says %s, implementation returned a laminate' % reply
    vals = [unq(x) for x in tok[1:]]
    t, A, B, D = vals[0], vals[1:10], vals[10:19], vals[19:28]
    if not close(lam.t, t, abs(lam.t)):
        return 't: impl %r model %r' % (lam.t, float(t))
    sA = float(np.abs(lam.A_general).max()); L = abs(lam.t) / 2. + abs(case['offset'])
    for name, model, impl, scale in (('A', A, lam.A_general, sA), ('B', B, lam.B_general, sA * L),
                                     ('D', D, lam.D_general, sA * L * L)):
        for k, key in enumerate(ORDER):
            i, j = IDX5[key]
            for (a, b) in ((i, j), (j, i)):
                if not close(impl[a, b], model[k], scale):
                    return '%s[%d,%d]: impl %r model %r' % (name, a, b, impl[a, b], float(model[k]))
        # zero pattern of the 5x5 general matrices
        for a in range(5):
            for b in range(5):
                if (a < 3) != (b < 3) and impl[a, b] != 0:
                    return '%s_general[%d,%d] should be 0' % (name, a, b)
    # reported matrices are the stated blocks
    ABD = np.block([[lam.A_general[:3, :3], lam.B_general[:3, :3]], [lam.B_general[:3, :3], lam.D_general[:3, :3]]])
    ABDE = np.zeros((8, 8)); ABDE[:6, :6] = ABD; ABDE[6:, 6:] = lam.A_general[3:, 3:]
    for name, got, want in (('A', lam.A, ABD[:3, :3]), ('B', lam.B, ABD[:3, 3:]), ('D', lam.D, ABD[3:, 3:]),
                            ('E', lam.E, ABDE[6:, 6:]), ('ABD', lam.ABD, ABD), ('ABDE', lam.ABDE, ABDE)):
        if got.shape != want.shape or not np.array_equal(got, want):
            return 'reported %s is not the stated block of A/B/D_general' % name
    return None


def oracle_check(case):
    """property predicate evaluated on the implementation, independent of the model"""
    kind, lam = run_impl(case)
    if case.get('_leak'):
        return case['_leak']
    if kind != 'ok':
        return None
    A, B, D, E = oracle(case)
    sA = max(np.abs(A).max(), np.abs(lam.A).max(), 1e-300); L = abs(lam.t) / 2. + abs(case['offset'])
    for name, got, want, scale in (('A', lam.A, A, sA), ('B', lam.B, B, sA * L), ('D', lam.D, D, sA * L * L),
                                   ('E', lam.E, E, max(np.abs(E).max(), 1e-300))):
        if np.abs(got - want).max() > 1e-8 * scale:
            return '%s differs from the through-thickness integral of the rotated ply stiffness (max diff %.3e, scale %.3e)' % (
                name, np.abs(got - want).max(), scale)
    if not np.allclose(lam.ABD, lam.ABD.T, rtol=0, atol=0):
        return 'ABD not symmetric'
    return None


def derived_checks(rng, case):
    """the 'hence' clauses of C01 evaluated on the implementation for one valid case"""
    from compmech.composite.laminate import read_stack
    kind, lam = run_impl(case)
    if kind != 'ok' or 'malformed' in case:
        return None
    kw = {}
    if case['plyt'] is not None:
        kw['plyt'] = case['plyt']
    if case['laminaprop'] is not None:
        kw['laminaprop'] = case['laminaprop']
    if case['plyts']:
        kw['plyts'] = list(case['plyts'])
    if case['laminaprops']:
        kw['laminaprops'] = list(case['laminaprops'])
    sA = max(float(np.abs(lam.A).max()), 1e-300)
    # offset shift
    d = rng.choice([-1, 1]) * rng.uniform(0.1, 1) * lam.t
    lam2 = read_stack(list(case['stack']), offset=case['offset'] + d, **kw)
    L = abs(lam.t) / 2. + abs(case['offset']) + abs(d)
    S = {'A': sA, 'B': sA * L, 'D': sA * L * L}
    if np.abs(lam2.A - lam.A).max() > 1e-9 * sA:
        return 'offset changed A'
    if np.abs(lam2.B - (lam.B + d * lam.A)).max() > 1e-9 * S['B']:
        return 'B(offset+d) != B + d*A'
    if np.abs(lam2.D - (lam.D + 2 * d * lam.B + d * d * lam.A)).max() > 1e-9 * S['D']:
        return 'D(offset+d) != D + 2dB + d^2 A'
    # the SAME Laminate object evaluated again: idempotent; after moving the reference surface it gives what a freshly read stack gives
    # (the matrices belong to the current definition, not to the history of the object)
    keep = {n_: np.array(getattr(lam, n_)) for n_ in ('A', 'B', 'D', 'E', 'ABD', 'ABDE')}
    lam.calc_constitutive_matrix()
    for n_, v_ in keep.items():
        if not np.array_equal(np.asarray(getattr(lam, n_)), v_):
            return 'calc_constitutive_matrix() evaluated a second time on the same Laminate changes %s (max change %.3e)' % (
                n_, np.abs(np.asarray(getattr(lam, n_)) - v_).max())
    lam.offset = case['offset'] + d
    lam.calc_constitutive_matrix()
    for n_ in 'ABD':
        if np.abs(getattr(lam, n_) - getattr(lam2, n_)).max() > 1e-12 * S[n_]:
            return ('after lam.offset is changed and calc_constitutive_matrix() re-run on the same Laminate, %s differs from that of a freshly read '
                    'stack with the new offset (max diff %.3e)' % (n_, np.abs(getattr(lam, n_) - getattr(lam2, n_)).max()))
    lam.offset = case['offset']
    lam.calc_constitutive_matrix()
    for n_, v_ in keep.items():
        if np.abs(np.asarray(getattr(lam, n_)) - v_).max() > 1e-12 * max(np.abs(v_).max(), 1e-300):
            return 'moving the reference surface away and back on the same Laminate does not restore %s' % n_
    # positive definiteness
    w = np.linalg.eigvalsh(lam.ABD)
    if w.min() <= 0:
        return 'ABD not positive definite (min eig %.3e)' % w.min()
    # mirror
    lam3 = read_stack([-a for a in case['stack']], offset=case['offset'], **kw)
    sgn = np.array([[1, 1, -1], [1, 1, -1], [-1, -1, 1]])
    for n_ in 'ABD':
        if np.abs(getattr(lam3, n_) - sgn * getattr(lam, n_)).max() > 1e-9 * S[n_]:
            return 'mirroring the angles does not flip exactly the 16/26 entries of ' + n_
    # +90
    lam4 = read_stack([a + 90 for a in case['stack']], offset=case['offset'], **kw)
    P = np.array([[0, 1, 0], [1, 0, 0], [0, 0, -1.]])
    for n_ in 'ABD':
        if np.abs(getattr(lam4, n_) - P @ getattr(lam, n_) @ P.T).max() > 1e-8 * S[n_]:
            return 'rotating every ply by 90 degrees does not permute ' + n_ + ' as tensor rotation prescribes'
    return None


def correspondence(ctx):
    n = ctx.scale(250, 5000)
    rng = ctx.rng
    cases = [gen_case(rng) for _ in range(n)]
    lines = [case_line(c) for c in cases]
    replies = driver(lines)
    assert len(replies) == len(lines), (len(replies), len(lines))
    dist = dict(plies={}, tuple_len={}, malformed={}, uniform_t=0, uniform_prop=0, offset_nonzero=0, errors=0)
    for c, line, rep in zip(cases, lines, replies):
        ctx.evaluations += 1
        dist['plies'][len(c['stack'])] = dist['plies'].get(len(c['stack']), 0) + 1
        for p in ([c['laminaprop']] if c['laminaprop'] else []) + list(c['laminaprops']):
            dist['tuple_len'][len(p)] = dist['tuple_len'].get(len(p), 0) + 1
        if 'malformed' in c:
            dist['malformed'][c['malformed']] = dist['malformed'].get(c['malformed'], 0) + 1
        dist['uniform_t'] += c['plyt'] is not None and not c['plyts']
        dist['uniform_prop'] += c['laminaprop'] is not None and not c['laminaprops']
        dist['offset_nonzero'] += c['offset'] != 0
        dist['errors'] += rep.startswith('err')
        if nontrivial(c):
            ctx.nontrivial.add(line)
        ctx.sample(dict(case=c, model_reply=rep[:200]), limit=3)
        bad = compare(c, rep)
        hist = [h for h in HISTORY[-4:]]
        HISTORY.append({k: v for k, v in c.items() if not k.startswith('_')})
        if bad:
            # model and implementation differ: is the property itself violated on the implementation?
            o = oracle_check(c) or derived_checks(rng, c)
            if o:
                ctx.violation('C01 fails on the implementation: ' + o, dict(case=c, model_disagreement=bad, history=hist))
            else:
                ctx.violation('model/implementation disagreement (%s); the independent oracle found no failing '
                              'input for this case' % bad, dict(case=c, correspondence='Model/Laminate.lean vs read_stack'),
                              found_input=False)
            return
        o = oracle_check(c)
        if o is None and ctx.evaluations % 5 == 0:
            o = derived_checks(rng, c)
        if o:
            ctx.violation('C01 fails on the implementation: ' + o, dict(case=c, history=hist))
            return
    ctx.cov['input_distribution'] = dist
    ctx.cov['traces_validated_against_impl'] = ctx.evaluations


def search(ctx, reason):
    """proof or tie broken: look for an input on which the implementation violates C01"""
    rng = ctx.rng
    for k in range(ctx.scale(400, 4000)):
        c = gen_case(rng)
        ctx.evaluations += 1
        o = oracle_check(c) or derived_checks(rng, c)
        if o:
            ctx.violation('C01 fails on the implementation: ' + o + ' [after: %s]' % '; '.join(reason)[:300], dict(case=c))
            return True
    return False


def replay(ctx, data):
    c = data['replay'].get('case')
    if not c:
        print('replay names a broken obligation, no input:', data['what'])
        return 1
    c['laminaprop'] = tuple(c['laminaprop']) if c['laminaprop'] is not None else None
    for h in data['replay'].get('history', []):         # calls made earlier in the same process
        h['laminaprop'] = tuple(h['laminaprop']) if h.get('laminaprop') is not None else None
        run_impl(h)
    o = oracle_check(c) or derived_checks(ctx.rng, c)
    rep = driver([case_line(c)])[0]
    bad = compare(c, rep)
    print('oracle:', o, '| model-vs-impl:', bad)
    return 1 if (o or bad) else 0
