"""C18 - shell loads, prescribed amplitudes, partitioning (compmech/conecyl/conecyl.py glue).

(i)  correspondence of lean/CompmechVerif/Model/ConeCylGlue.lean with the running ConeCyl
     (`_rebuild`, `exclude_dofs_matrix`, `calc_full_c`, `calc_fext`, linear `static`) through the line-protocol
     driver: discrete data exactly, numbers to 1e-9 of the block scale;
(ii) the predicates of the property evaluated directly on the implementation, independent of the model:
     virtual work of every load kind against the package's own `uvw` (surface / edge quadrature), geometry
     consistency across the admissible input subsets, exclude / insert inverse, residual of the full system on
     the rows of the free amplitudes after `static()`.

Glue-level parts of C16 / C17 that live in the same class are evaluated by `c16_glue_checks` / `c17_glue_checks`
(reported in the evidence under `c16_glue` / `c17_glue`; they become violations only with C18_GLUE_STRICT=1).

Nothing under /repo is edited: `compmech.analysis.analysis.solve` is wrapped (module attribute) to record what
`static` hands to the solver.
"""
import contextlib
import io
import itertools
import json
import math
import os
import sys
import time
from fractions import Fraction

import numpy as np

from tools.common import q, unq, driver, REPO

if REPO not in sys.path:
    sys.path.insert(0, REPO)

TRUSTED = [
    'tools/cyexec.py (Cython-subset source executor, validated by its --selftest and by bit-identical agreement with the binaries on the unchanged tree): the source reading of the hand-written .pyx/.pxi files',
    'Lean 4.33 kernel; axioms of every theorem within {propext, Classical.choice, Quot.sound} (audited each run)',
    'Mathlib v4.33 (interval integrals: integral_sin, integral_comp_mul_left, integral_eq_sub_of_hasDerivAt; '
    'ring/field_simp/linarith/omega)',
    'hand-written model lean/CompmechVerif/Model/ConeCylGlue.lean of ConeCyl._rebuild (geometry, Nxxtop, excluded '
    'dofs), exclude_dofs_matrix, calc_full_c, calc_fext, static/Analysis.static(linear) - tied to the running '
    'Python only by this correspondence check',
    'sin/cos of alpha, the float pi, the shape-function rows written by the compiled `fg`, the matrix k0 of the '
    'compiled linear kernels and the sparse solver are PARAMETERS of the model (taken from the running code)',
    'the virtual-work oracle trusts numpy, Gauss-Legendre / periodic trapezoid quadrature of the package\'s own '
    '`uvw` (error < 1e-10 relative for the trigonometric fields used) and scipy.sparse -> dense conversion',
    'IEEE rounding is not modelled: outputs compared to 1e-9 of the block scale',
]
ASSUMPTIONS = [
    'the axial load is the meridional edge line load Nxxtop(theta) at x=0 (Nxxtop[0] = Fc/(2 pi r2 cos(alpha)) by axial '
    'equilibrium); its virtual work is taken against the reported meridional displacement u(0, theta) - for a cone '
    'this is Fc*uTM/cos(alpha)^2, not Fc*uTM',
    'the torque is an axisymmetric shear flow at x=0: virtual work = T x mean over theta of v(0, theta)/r2',
    'pressure acts on the reference surface, dA = (r2 + x sin(alpha)) dtheta dx, along +w',
    'np.delete / np.insert are modelled for distinct in-range indices (what `_rebuild` produces)',
    'inputs for which numpy silently produces inf/nan geometry ((r1, r2) only with alpha = 0) are not admissible',
]
RULE = ('cases from one PRNG (VERIF_SEED): model in 16 registered CLPT/FSDT models, m1<=5, m2<=3, n2<=3, geometry by any '
        'admissible subset of (r1,r2,H,L) incl. alphadeg=0 and negative, random laminate / isotropic data, 0-3 constant '
        'and 0-3 incremented point forces anywhere (incl. the edges), P/P_inc, Fc or Nxxtop (scalar / harmonics) or '
        'prescribed uTM (pdC), T/T_inc or prescribed thetaTdeg (pdT), load-asymmetry angle betadeg, tLAdeg, load factor; '
        'plus random COO matrices with duplicates through exclude_dofs_matrix for every subset of {0,1,2}, and a '
        'malformed geometry stream; non-trivial = >= 2 load kinds active, cone, and a prescribed amplitude; '
        'distinct by case text')

QUIET = io.StringIO()

KNOWN = {
    'tq': 'C18-torque-as-point-force',
    'nh': 'C18-nxxtop-harmonics-dropped-bcn',
    'nr': 'C18-static-null-rows-loaded',
}

# repaired defects: their deviation classes are still recognised (for the text of the report) but suppress nothing
FIXED = {'la': 'C18-LA-term-missing (fixed 7b8ae8e)', 'kkk': 'C18-kkk-complement-block (fixed 0bf93e4)'}

MODELS = ['clpt_donnell_bc1', 'clpt_donnell_bc2', 'clpt_donnell_bc3', 'clpt_donnell_bc4',
          'clpt_sanders_bc1', 'clpt_sanders_bc2', 'clpt_sanders_bc3', 'clpt_sanders_bc4',
          'fsdt_donnell_bc1', 'fsdt_donnell_bc2', 'fsdt_donnell_bc3', 'fsdt_donnell_bc4',
          'fsdt_donnell_bcn', 'fsdt_sanders_bcn', 'iso_clpt_donnell_bc2', 'iso_clpt_donnell_bc3']
MODELS_W = [6, 4, 4, 4, 1, 1, 1, 1, 3, 2, 2, 2, 2, 1, 1, 1]
LAMINAPROPS = [(123.55e3, 8.708e3, 0.319, 5.695e3, 5.695e3, 5.695e3), (142.5e3, 8.7e3, 0.28, 5.1e3, 5.1e3, 5.1e3),
               (70e3, 70e3, 0.3, 26923.076923076922, 26923.076923076922, 26923.076923076922)]


def _imports():
    with contextlib.redirect_stdout(QUIET):
        from compmech.conecyl import ConeCyl
        from compmech.conecyl import modelDB
    return ConeCyl, modelDB


# ----------------------------------------------------------------------------- generators
def gen_geometry(rng, malformed=False):
    alphadeg = rng.choice([0., 0., rng.uniform(1, 40), rng.uniform(1, 40), rng.uniform(-15, -1), 30., rng.uniform(40, 70)])
    r2 = rng.choice([250., rng.uniform(50, 400)])
    L = rng.choice([510., rng.uniform(100, 600)])
    a = math.radians(alphadeg)
    full = dict(r1=r2 + L * math.sin(a), r2=r2, H=L * math.cos(a), L=L)
    subsets = [('r1', 'H'), ('r1', 'L'), ('r2', 'H'), ('r2', 'L'), ('r2', 'H'), ('r2', 'L')]
    if alphadeg != 0:
        subsets.append(('r1', 'r2'))
    if rng.random() < 0.15:
        subsets = [('r1', 'r2', 'H'), ('r1', 'r2', 'L'), ('r1', 'r2', 'H', 'L'), ('r2', 'H', 'L'), ('r1', 'H', 'L')]
    sub = rng.choice(subsets)
    g = dict(alphadeg=alphadeg, r1=None, r2=None, H=None, L=None)
    for k in sub:
        g[k] = full[k]
    if malformed:
        kind = rng.choice(['HL', 'r1r2_alpha0', 'zeroH', 'zero_r2', 'only_r1', 'only_H', 'zeroL'])
        g = dict(alphadeg=alphadeg, r1=None, r2=None, H=None, L=None, malformed=kind)
        if kind == 'HL':
            g['H'], g['L'] = full['H'], full['L']
        elif kind == 'r1r2_alpha0':
            g['alphadeg'] = 0.
            g['r1'], g['r2'] = r2 + rng.choice([0., 10.]), r2
        elif kind == 'zeroH':            # H = 0.0 is falsy: treated as "not given"
            g['H'], g['L'], g['r2'] = 0., full['L'], r2
        elif kind == 'zeroL':
            g['L'], g['H'], g['r1'] = 0., full['H'], full['r1']
        elif kind == 'zero_r2':          # r2 = 0.0 is falsy
            g['r2'], g['L'] = 0., full['L']
        elif kind == 'only_r1':
            g['r1'] = full['r1']
        elif kind == 'only_H':
            g['H'] = full['H']
    return g, full


def gen_forces(rng, L, n):
    out = []
    for _ in range(n):
        x = rng.choice([0., L, 0.5 * L, rng.uniform(0, L), rng.uniform(0, L)])
        th = rng.choice([0., 90., rng.uniform(-360, 720)])
        comp = [rng.choice([0., rng.uniform(-20, 20)]) for _ in range(3)]
        if comp == [0., 0., 0.]:
            comp[2] = rng.uniform(-20, 20)
        out.append([x, th] + comp)
    return out


def gen_case(rng, thorough=False):
    model = rng.choices(MODELS, MODELS_W)[0]
    g, full = gen_geometry(rng)
    case = dict(model=model, m1=rng.choice([1, 2, 3, 4, 5]), m2=rng.choice([1, 2, 3]), n2=rng.choice([1, 2, 3]))
    if thorough and rng.random() < 0.2:
        case.update(m1=rng.choice([6, 8]), m2=rng.choice([3, 4]), n2=rng.choice([3, 4]))
    case['geom'] = g
    if 'iso_' in model:
        case['iso'] = dict(E11=rng.choice([70e3, 200e3]), nu=rng.choice([0.3, 0.25]), h=rng.choice([1., 0.5, 2.]))
    else:
        nply = rng.choice([1, 2, 3, 4])
        case['lam'] = dict(laminaprop=list(rng.choice(LAMINAPROPS)), plyt=rng.choice([0.125, 0.25, 0.5]),
                           stack=[rng.choice([0., 45., -45., 90., 30., rng.uniform(-90, 90)]) for _ in range(nply)])
    L = full['L']
    case['forces'] = gen_forces(rng, L, rng.choice([0, 0, 1, 2, 3]))
    case['forces_inc'] = gen_forces(rng, L, rng.choice([0, 0, 1, 2, 3]))
    clpt = 'clpt' in model
    pz = 0.5 if clpt else 0.94          # FSDT: pressure raises NotImplementedError (error path, kept rare)
    case['P'] = 0. if rng.random() < pz else rng.uniform(-0.5, 0.5)
    case['P_inc'] = 0. if rng.random() < pz + 0.1 else rng.uniform(-0.5, 0.5)
    # axial
    r = rng.random()
    case.update(pdC=False, uTM=0., Fc=None, Nxxtop=None, MLA=None, xiLA=None)
    if r < 0.25:
        case.update(pdC=True, uTM=rng.uniform(-1, 1))
        if rng.random() < 0.3:
            case['Fc'] = rng.uniform(-5e3, 5e3)      # ignored by fext when pdC
    elif r < 0.6:
        case['Fc'] = rng.uniform(-5e3, 5e3)
        if rng.random() < 0.2:
            case['xiLA'] = rng.uniform(-30, 30)
        elif rng.random() < 0.15:
            case['MLA'] = rng.uniform(-1e5, 1e5)
    elif r < 0.75:
        case['Nxxtop'] = [rng.uniform(-5, 5) for _ in range(2 * case['n2'] + 1)]
    elif r < 0.82:
        case['Nxxtop'] = rng.uniform(-5, 5)
    # torsion
    case.update(pdT=True, thetaTdeg=0., T=0., T_inc=0.)
    r = rng.random()
    if r < 0.35:
        case['thetaTdeg'] = rng.uniform(-2, 2)
    elif r < 0.5:
        pass
    else:
        case['pdT'] = False
        case['T'] = rng.choice([0., rng.uniform(-1e3, 1e3)])
        case['T_inc'] = rng.choice([0., rng.uniform(-1e3, 1e3)])
    case['betadeg'] = rng.uniform(-3, 3) if rng.random() < 0.15 else 0.
    case['tLAdeg'] = rng.uniform(-180, 180) if rng.random() < 0.2 else 0.
    case['inc'] = rng.choice([1., 1., 0.5, 0., rng.uniform(0.01, 1.3)])
    case['seed'] = rng.randrange(1 << 30)
    if rng.random() < 0.3:
        # history: the SAME shell object was first defined with other prescribed amplitudes / pressures / torques and solved once, then
        # re-defined to this case (a parameter study as users run it); everything below must belong to the CURRENT definition.
        # (the axial-load definition Fc / Nxxtop / MLA is left alone: its caching is the recorded finding C20-conecyl-lb-default-load-order)
        case['pre'] = dict(uTM=case['uTM'] + rng.choice([-1, 1]) * rng.uniform(0.2, 1.), thetaTdeg=case['thetaTdeg'] + rng.uniform(0.5, 2.),
                           betadeg=case['betadeg'] + rng.uniform(0.5, 2.), tLAdeg=case['tLAdeg'] + 40.,
                           P=case['P'] + 0.3 if 'clpt' in model else case['P'], T=case['T'] + 50., T_inc=case['T_inc'] - 20.)
    return case


def build(case, geom_only=False):
    ConeCyl, _ = _imports()
    cc = ConeCyl()
    g = case['geom']
    cc.alphadeg = g['alphadeg']
    for k in ('r1', 'r2', 'H', 'L'):
        setattr(cc, k, g[k])
    cc.model = case.get('model', 'clpt_donnell_bc1')
    cc.m1, cc.m2, cc.n2 = case.get('m1', 2), case.get('m2', 1), case.get('n2', 1)
    if 'iso' in case:
        for k, v in case['iso'].items():
            setattr(cc, k, v)
    else:
        lam = case.get('lam', dict(laminaprop=list(LAMINAPROPS[0]), plyt=0.125, stack=[0.]))
        cc.laminaprop = tuple(lam['laminaprop'])
        cc.plyt = lam['plyt']
        cc.stack = list(lam['stack'])
    if geom_only:
        return cc
    for x, thdeg, fx, ft, fz in case['forces']:
        cc.add_force(x, thdeg, fx, ft, fz)
    for x, thdeg, fx, ft, fz in case['forces_inc']:
        cc.add_force(x, thdeg, fx, ft, fz, increment=True)
    cc.P, cc.P_inc = case['P'], case['P_inc']
    cc.pdC, cc.uTM, cc.Fc = case['pdC'], case['uTM'], case['Fc']
    cc.MLA, cc.xiLA = case['MLA'], case['xiLA']
    if case['Nxxtop'] is not None:
        cc.Nxxtop = np.array(case['Nxxtop'], dtype=float) if isinstance(case['Nxxtop'], list) else float(case['Nxxtop'])
    cc.pdT, cc.thetaTdeg, cc.T, cc.T_inc = case['pdT'], case['thetaTdeg'], case['T'], case['T_inc']
    cc.betadeg, cc.tLAdeg = case['betadeg'], case['tLAdeg']
    return cc


# ----------------------------------------------------------------------------- geometry
def geom_impl(g):
    """fresh object, only the geometry attributes: ('ok', (r1,r2,H,L), sina, cosa) or ('err', kind, sina, cosa)"""
    cc = build(dict(geom=g), geom_only=True)
    a = np.deg2rad(g['alphadeg'])
    s, c = float(np.sin(a)), float(np.cos(a))
    try:
        with contextlib.redirect_stdout(QUIET), np.errstate(all='ignore'):
            cc._rebuild()
    except ValueError as e:
        if 'Radius' in str(e):
            return ('err', 'noRadius', s, c)
        raise
    except TypeError:
        return ('err', 'typeError', s, c)
    vals = (cc.r1, cc.r2, cc.H, cc.L)
    if any(v is None for v in vals):
        return ('err', 'typeError', s, c)
    vals = tuple(float(v) for v in vals)
    if not all(math.isfinite(v) for v in vals):
        return ('err', 'nonFinite', s, c)
    return ('ok', vals, s, c)


def geom_line(g, s, c):
    f = lambda x: '-' if x is None else q(x)
    return 'C18 geom %s | %s | %s | %s | %s %s' % (f(g['r1']), f(g['r2']), f(g['H']), f(g['L']), q(s), q(c))


def geom_compare(g, impl, reply):
    tok = reply.split()
    if impl[0] == 'err':
        if tok[0] == 'err' and tok[1] == impl[1]:
            return None
        return 'geometry: implementation %s, model %s' % (impl[1], reply[:80])
    if tok[0] != 'ok':
        return 'geometry: implementation returned %r, model %s' % (impl[1], reply)
    mv = [unq(x) for x in tok[1:5]]
    scale = max(abs(v) for v in impl[1])
    for name, a, b in zip(('r1', 'r2', 'H', 'L'), impl[1], mv):
        if abs(Fraction(a) - b) > Fraction(1e-9) * Fraction(scale):
            return 'geometry %s: implementation %r model %r' % (name, a, float(b))
    return None


def geom_predicates(g, impl):
    """property predicate on the implementation: derived geometry mutually consistent for every admissible subset"""
    if impl[0] != 'ok':
        return None
    (r1, r2, H, L), s, c = impl[1], impl[2], impl[3]
    both_HL = bool(g['H']) and bool(g['L'])
    scale = max(abs(r1), abs(r2), abs(H), abs(L))
    if not both_HL:
        if abs(r1 - (r2 + L * s)) > 1e-9 * scale:
            return 'r1 != r2 + L sin(alpha): %r' % ((r1, r2, H, L),)
        if abs(H - L * c) > 1e-9 * scale:
            return 'H != L cos(alpha): %r' % ((r1, r2, H, L),)
    if abs(r1 - (r2 + L * s)) > 1e-9 * scale or abs(H - L * c) > 1e-9 * scale:
        return None          # over-specified inconsistent input: nothing to compare
    full = dict(r1=r1, r2=r2, H=H, L=L)
    subs = [('r1', 'H'), ('r1', 'L'), ('r2', 'H'), ('r2', 'L'), ('r1', 'r2', 'H', 'L'), ('r1', 'r2', 'L'), ('r2', 'H', 'L')]
    if abs(s) > 1e-6 and abs(r1 - r2) > 1e-6 * scale:
        subs.append(('r1', 'r2'))
    for sub in subs:
        if any(full[k] == 0 for k in sub):
            continue
        g2 = dict(alphadeg=g['alphadeg'], r1=None, r2=None, H=None, L=None)
        for k in sub:
            g2[k] = full[k]
        o = geom_impl(g2)
        if o[0] != 'ok':
            return 'inputs %s of the same shell give %s' % (sub, o[1])
        tol = 1e-9 * scale if sub != ('r1', 'r2') else 1e-9 * scale / min(1., abs(s))
        for name, a, b in zip(('r1', 'r2', 'H', 'L'), (r1, r2, H, L), o[1]):
            if abs(a - b) > tol:
                return 'inputs %s of the same shell give %s = %r instead of %r' % (sub, name, b, a)
    return None


# ----------------------------------------------------------------------------- running the implementation
class Obs(object):
    pass


def coo_lines(M):
    M = M.tocoo()
    return ' ; '.join('%d %d %s' % (r, c, q(v)) for r, c, v in zip(M.row.tolist(), M.col.tolist(), M.data.tolist()))


def dense_triplets(A):
    rr, cc_ = np.nonzero(A)
    return ' ; '.join('%d %d %s' % (r, c, q(A[r, c])) for r, c in zip(rr.tolist(), cc_.tolist()))


def run_impl(case):
    """runs the real ConeCyl; returns Obs or ('err', kind)"""
    ConeCyl, modelDB = _imports()
    import compmech.analysis.analysis as an
    o = Obs()
    cc = build(case)
    o.cc = cc
    rs = np.random.RandomState(case['seed'])
    with contextlib.redirect_stdout(QUIET), np.errstate(all='ignore'):
        if case.get('pre'):
            for k, v in case['pre'].items():
                setattr(cc, k, v)
            try:
                cc._rebuild()
                cc.static(silent=True)
            except Exception:                       # noqa  (an analysis the model rejects: the history is just the rebuild)
                pass
            for k in case['pre']:
                setattr(cc, k, case[k])
        cc._rebuild()
        o.geom = tuple(float(v) for v in (cc.r1, cc.r2, cc.H, cc.L))
        o.sina, o.cosa = float(cc.sina), float(cc.cosa)
        o.E = [int(e) for e in cc.excluded_dofs]
        o.ck = [float(v) for v in cc.excluded_dofs_ck]
        o.Nxxtop = [float(v) for v in cc.Nxxtop]
        o.size = int(cc.get_size())
        md = modelDB.db[cc.model]
        o.md = md
        try:
            o.fext = np.array(cc.calc_fext(inc=case['inc'], silent=True), dtype=float)
            o.fext_err = None
        except NotImplementedError as e:
            o.fext, o.fext_err = None, 'pressureFsdt'
            cc._calc_linear_matrices(silent=True) if cc.k0 is None else None
        o.k0 = cc.k0.tocoo()
        o.k0d = cc.k0.toarray()
        o.k0uk = np.array(cc.k0uk, dtype=float)
        o.k0uu = cc.k0uu.toarray()
        o.blocks = cc.exclude_dofs_matrix(cc.k0, True, True, True)
        # fg rows
        fg = md['commons'].fg
        o.g = []
        for lst in (cc.forces, cc.forces_inc):
            rows = []
            for x, th, fx, ft, fz in lst:
                g = np.zeros((md['dofs'], o.size))
                fg(g, cc.m1, cc.m2, cc.n2, cc.r2, x, th, cc.L, cc.cosa, cc.tLArad)
                rows.append(g)
            o.g.append(rows)
        g = np.zeros((md['dofs'], o.size))
        fg(g, cc.m1, cc.m2, cc.n2, cc.r2, 0, 0, cc.L, cc.cosa, cc.tLArad)
        o.g00 = g
        # calc_full_c, both branches
        nu = o.size - len(o.E)
        o.cu = rs.uniform(-1, 1, nu)
        o.cfull_in = rs.uniform(-1, 1, o.size)
        o.full_from_cu = np.array(cc.calc_full_c(o.cu, inc=case['inc']))
        o.full_from_full = np.array(cc.calc_full_c(o.cfull_in, inc=case['inc']))
        # linear static
        rec = {}
        real_solve = an.solve

        def spy(a, b, silent=False, **kw):
            rec['a'] = a.toarray() if hasattr(a, 'toarray') else np.array(a)
            rec['b'] = np.array(b, dtype=float)
            return real_solve(a, b, silent=silent, **kw)
        an.solve = spy
        try:
            try:
                cs = cc.static(silent=True)
                o.static = ('ok', np.array(cs[0], dtype=float), list(cc.increments), rec)
            except NotImplementedError as e:
                o.static = ('err', 'prescribedShortening' if 'prescribed' in str(e) else 'pressureFsdt')
            except RuntimeError:
                o.static = ('err', 'modelNotStatic')
        finally:
            an.solve = real_solve
    return o


def flags_of(cc):
    m = cc.model
    return ('bc2' in m or 'bc4' in m, 'clpt' in m, 'fsdt' in m)


def fext_fields(case, o, inc):
    cc, md = o.cc, o.md
    bc24, clpt, fsdt = flags_of(cc)
    dims = [o.size, md['num0'], md['num1'], md['num2'], cc.m1, cc.m2, cc.n2, md['i0'], md['j0'], md['dofs']]
    nums = [inc, cc.uTM, cc.thetaTrad, cc.LA, math.pi, cc.r2, cc.cosa, cc.sina, cc.L, cc.P, cc.P_inc, cc.T, cc.T_inc]

    def fl(lst, gs):
        return ' ; '.join(' '.join([q(f[2]), q(f[3]), q(f[4])] + [q(v) for v in g.ravel().tolist()])
                          for f, g in zip(lst, gs))
    return ' | '.join([' '.join(str(int(d)) for d in dims), ' '.join(str(e) for e in o.E),
                       ' '.join(q(float(v)) for v in nums),
                       ' '.join(str(int(b)) for b in (bc24, clpt, fsdt, cc.pdT)),
                       ' '.join(q(v) for v in o.Nxxtop), fl(cc.forces, o.g[0]), fl(cc.forces_inc, o.g[1]),
                       ' '.join(q(v) for v in o.g00.ravel().tolist()), dense_triplets(o.k0uk)])


def model_lines(case, o):
    cc = o.cc
    g = case['geom']
    lines = [geom_line(g, o.sina, o.cosa)]
    nx = case['Nxxtop']
    nxs = 'none' if nx is None else ('a ' + ' '.join(q(v) for v in nx) if isinstance(nx, list) else 's ' + q(nx))
    f = lambda x: '-' if x is None else q(x)
    lines.append('C18 nxx %d | %s | %s | %s | %s | %s %s %s' % (cc.n2, nxs, f(case['Fc']), f(case['MLA']), f(case['xiLA']),
                                                           q(math.pi), q(cc.r2), q(cc.cosa)))
    lines.append('C18 excl %d %d | %s | %s' % (cc.num0, o.size, ' '.join(map(str, o.E)), coo_lines(o.k0)))
    lines.append('C18 fullc %d | %s | %s | %s | %s' % (o.size, ' '.join(map(str, o.E)), ' '.join(q(v) for v in o.ck),
                                                   q(case['inc']), ' '.join(q(v) for v in o.cu)))
    lines.append('C18 fullc %d | %s | %s | %s | %s' % (o.size, ' '.join(map(str, o.E)), ' '.join(q(v) for v in o.ck),
                                                   q(case['inc']), ' '.join(q(v) for v in o.cfull_in)))
    lines.append('C18 fext ' + fext_fields(case, o, case['inc']))
    lin = bool(o.md['linear static'])
    lines.append('C18 static %d %d | %s' % (int(cc.pdC), int(lin), fext_fields(case, o, 1.)))
    return lines


def vec_cmp(name, impl, model_tokens, scale=None):
    mv = [unq(x) for x in model_tokens]
    if len(mv) != len(impl):
        return '%s: length %d (implementation) vs %d (model)' % (name, len(impl), len(mv))
    sc = scale if scale is not None else max([abs(float(v)) for v in impl] + [abs(float(v)) for v in mv] + [1e-300])
    for k, (a, b) in enumerate(zip(impl, mv)):
        if abs(Fraction(float(a)) - b) > Fraction(1e-9) * Fraction(sc) + Fraction(1, 10 ** 300):
            return '%s[%d]: implementation %r model %r (scale %.3g)' % (name, k, float(a), float(b), sc)
    return None


def coo_to_dense(txt, shape):
    A = np.zeros(shape)
    txt = txt.strip()
    if txt:
        for t in txt.split(';'):
            r, c, v = t.split()
            r, c = int(r), int(c)
            if r >= shape[0] or c >= shape[1]:
                raise IndexError('model entry (%d,%d) outside shape %r' % (r, c, shape))
            A[r, c] += float(unq(v))
    return A


def blocks_cmp(impl_blocks, reply):
    parts = reply.split('|')
    tok = parts[0].split()
    if tok[0] != 'ok':
        return 'exclude_dofs_matrix: model says ' + reply[:80]
    sh = list(map(int, tok[1:9]))
    shapes = dict(kuu=(sh[0], sh[1]), kkk=(sh[2], sh[3]), kku=(sh[4], sh[5]), kuk=(sh[6], sh[7]))
    for name, txt in zip(('kuu', 'kkk', 'kku', 'kuk'), parts[1:5]):
        A = impl_blocks[name]
        A = A.toarray() if hasattr(A, 'toarray') else np.array(A)
        if tuple(A.shape) != shapes[name]:
            return '%s: shape %r (implementation) vs %r (model)' % (name, tuple(A.shape), shapes[name])
        try:
            B = coo_to_dense(txt, shapes[name])
        except IndexError as e:
            return '%s: %s' % (name, e)
        sc = max(np.abs(A).max() if A.size else 0., np.abs(B).max() if B.size else 0., 1e-300)
        if A.size and np.abs(A - B).max() > 1e-9 * sc:
            k = np.unravel_index(np.argmax(np.abs(A - B)), A.shape)
            return '%s%r: implementation %r model %r' % (name, tuple(int(i) for i in k), A[k], B[k])
        if A.size and not np.array_equal(A != 0, B != 0) and np.abs(A - B).max() > 0:
            pass
    return None


def compare(case, o, replies):
    """model vs implementation; None or text"""
    g = case['geom']
    bad = geom_compare(g, ('ok', o.geom, o.sina, o.cosa), replies[0])
    if bad:
        return bad
    tok = replies[1].split()
    if tok[0] != 'ok':
        return 'Nxxtop: model says %s' % replies[1][:60]
    bad = vec_cmp('Nxxtop', o.Nxxtop, tok[1:])
    if bad:
        return bad
    bad = blocks_cmp(o.blocks, replies[2])
    if bad:
        return bad
    # what _calc_linear_matrices stored
    parts = replies[2].split('|')
    sh = list(map(int, parts[0].split()[1:9]))
    for name, A, txt, shape in (('k0uu', o.k0uu, parts[1], (sh[0], sh[1])), ('k0uk', o.k0uk, parts[4], (sh[6], sh[7]))):
        if tuple(A.shape) != shape:
            return 'stored %s: shape %r vs model %r' % (name, tuple(A.shape), shape)
        B = coo_to_dense(txt, shape)
        if np.abs(A - B).max() > 1e-9 * max(np.abs(A).max(), 1e-300):
            return 'stored %s differs from the model block' % name
    for rep, impl, name in ((replies[3], o.full_from_cu, 'calc_full_c(reduced)'), (replies[4], o.full_from_full, 'calc_full_c(full)')):
        tok = rep.split()
        if tok[0] != 'ok':
            return '%s: model says %s' % (name, rep[:60])
        bad = vec_cmp(name, impl, tok[1:])
        if bad:
            return bad
    tok = replies[5].split()
    if o.fext_err:
        if tok[:2] != ['err', o.fext_err]:
            return 'calc_fext: implementation raised %s, model %s' % (o.fext_err, replies[5][:60])
    else:
        if tok[0] != 'ok':
            return 'calc_fext: implementation returned a vector, model says %s' % replies[5][:60]
        bad = vec_cmp('fext', o.fext, tok[1:])
        if bad:
            return bad
    parts = replies[6].split('|')
    tok = parts[0].split()
    if o.static[0] == 'err':
        if tok[:2] != ['err', o.static[1]]:
            return 'static: implementation raised %s, model %s' % (o.static[1], replies[6][:60])
    else:
        if tok[0] != 'ok':
            return 'static: implementation solved, model says %s' % replies[6][:60]
        rec = o.static[3]
        bad = vec_cmp('static rhs passed to solve', rec['b'], tok[1:])
        if bad:
            return bad
        if rec['a'].shape != o.k0uu.shape or np.abs(rec['a'] - o.k0uu).max() > 0:
            return 'static: matrix passed to solve is not the stored k0uu'
        incs = [float(unq(x)) for x in parts[1].split()]
        if incs != [float(v) for v in o.static[2]]:
            return 'static: increments %r vs model %r' % (o.static[2], incs)
    return None


# ----------------------------------------------------------------------------- oracle (implementation only)
def gl(n, a, b):
    x, w = np.polynomial.legendre.leggauss(n)
    return (b - a) / 2 * x + (a + b) / 2, (b - a) / 2 * w


def oracle_parts(case, o, inc):
    """load vectors (FULL size) by virtual work against the package's own uvw, one basis amplitude at a time.
    keys: pt, ax (true), ax0 (only the uniform harmonic), tq (true), tqp (torque as point force at (0,0)), P"""
    cc = o.cc
    n = o.size
    L, r2, s = cc.L, cc.r2, cc.sina
    nth = 4 * (cc.n2 + 2) + 1
    ths = np.linspace(0, 2 * np.pi, nth, endpoint=False)
    pts = [(f[0], f[1]) for f in cc.forces] + [(f[0], f[1]) for f in cc.forces_inc]
    npt = len(pts)
    Ptot = cc.P + inc * cc.P_inc
    xg, wg = gl(48, 0, L)
    X, TH = np.meshgrid(xg, ths, indexing='ij')
    xs = np.concatenate([[p[0] for p in pts], np.zeros(nth), X.ravel() if Ptot != 0 else []]).astype(float)
    ts = np.concatenate([[p[1] for p in pts], ths, TH.ravel() if Ptot != 0 else []]).astype(float)
    N = inc * np.array(cc.Nxxtop)
    Nth = N[0] + sum(N[2 * j - 1] * np.sin(j * ths) + N[2 * j] * np.cos(j * ths) for j in range(1, cc.n2 + 1))
    T = cc.T + inc * cc.T_inc
    facs = [1.] * len(cc.forces) + [inc] * len(cc.forces_inc)
    comps = [f[2:5] for f in cc.forces] + [f[2:5] for f in cc.forces_inc]
    out = dict((k, np.zeros(n)) for k in ('pt', 'ax', 'ax0', 'tq', 'tqp', 'P'))
    mag = 0.      # magnitude of the largest single quadrature / point contribution (scale of the rounding noise)
    e = np.zeros(n)
    with contextlib.redirect_stdout(QUIET):
        for i in range(n):
            e[:] = 0
            e[i] = 1.
            u, v, w, _, _ = cc.uvw(e, xs=xs, ts=ts)
            u, v, w = np.array(u), np.array(v), np.array(w)
            out['pt'][i] = sum(fc * (c3[0] * u[k] + c3[1] * v[k] + c3[2] * w[k]) for k, (fc, c3) in enumerate(zip(facs, comps)))
            ue, ve = u[npt:npt + nth], v[npt:npt + nth]
            mag = max([mag] + [abs(fc) * max(abs(c3[0] * u[k]), abs(c3[1] * v[k]), abs(c3[2] * w[k]))
                               for k, (fc, c3) in enumerate(zip(facs, comps))])
            if not cc.pdC:
                mag = max(mag, np.abs(Nth * ue).max() * 2 * np.pi * r2)
            if not cc.pdT:
                mag = max(mag, abs(T) * np.abs(ve).max() / r2)
            if not cc.pdC:
                out['ax'][i] = (Nth * ue).sum() * (2 * np.pi / nth) * r2
                out['ax0'][i] = (N[0] * ue).sum() * (2 * np.pi / nth) * r2
            if not cc.pdT:
                out['tq'][i] = T * ve.mean() / r2
                out['tqp'][i] = T / r2 * ve[0]
            if Ptot != 0:
                ww = w[npt + nth:].reshape(X.shape)
                out['P'][i] = Ptot * ((ww * (r2 + X * s)).sum(axis=1) * (2 * np.pi / nth) * wg).sum()
                mag = max(mag, abs(Ptot) * np.abs(ww * (r2 + X * s)).max() * 2 * np.pi * L)
    out['_mag'] = mag
    return out


def fext_predicate(case, o, inc, fext):
    """returns (explained_by, text): explained_by = set of known-defect keys needed to explain fext ('' = holds),
    or None when no combination of the listed deviations explains it"""
    cc = o.cc
    n = o.size
    E = o.E
    free = [i for i in range(n) if i not in E]
    parts = oracle_parts(case, o, inc)
    ck = np.array(o.ck) * inc
    K = o.k0d
    presc_all = -K[np.ix_(free, E)] @ ck
    E_noLA = [e for e in E if e != 2]
    ck_noLA = np.array([c for e, c in zip(E, ck) if e != 2])
    presc_noLA = -K[np.ix_(free, E_noLA)] @ ck_noLA if E_noLA else np.zeros(len(free))
    mag = parts.pop('_mag')
    scale = max([np.abs(parts[k]).max() for k in parts] + [np.abs(presc_all).max(), np.abs(fext).max(), mag, 1e-300])
    best = None
    for keys in [(), ('tq',), ('la',), ('nh',), ('tq', 'la'), ('tq', 'nh'), ('la', 'nh'), ('tq', 'la', 'nh')]:
        want = (parts['pt'] + (parts['ax0'] if 'nh' in keys else parts['ax'])
                + (parts['tqp'] if 'tq' in keys else parts['tq']) + parts['P'])[free]
        want = want + (presc_noLA if 'la' in keys else presc_all)
        err = np.abs(want - fext).max()
        if err <= 1e-8 * scale:
            return set(keys), None, err / scale
        if best is None or err < best[0]:
            best = (err, keys)
    k = int(np.argmax(np.abs((parts['pt'] + parts['ax'] + parts['tq'] + parts['P'])[free] + presc_all - fext)))
    return None, ('fext differs from the virtual work of the loads: reduced index %d (full amplitude %d), '
                  'relative error %.3e; parts %s' % (k, free[k], best[0] / scale,
                                                     {p: float('%.4g' % np.abs(parts[p]).max()) for p in parts})), best[0] / scale


def predicates(case, o):
    """list of (identity or None, text) of failed property predicates on the implementation"""
    out = []
    cc = o.cc
    n, E = o.size, o.E
    free = [i for i in range(n) if i not in E]
    inc = case['inc']
    # geometry
    gi = geom_impl(case['geom'])
    t = geom_predicates(case['geom'], gi)
    if t:
        out.append((None, 'geometry: ' + t))
    # Nxxtop from Fc: axial equilibrium
    if case['Fc'] is not None:
        back = o.Nxxtop[0] * 2 * math.pi * cc.r2 * cc.cosa
        if abs(back - case['Fc']) > 1e-9 * max(abs(case['Fc']), 1e-300):
            out.append((None, 'Nxxtop[0]*2*pi*r2*cos(alpha) = %r != Fc = %r' % (back, case['Fc'])))
    # exclude / insert
    if not np.array_equal(np.delete(o.full_from_cu, E), o.cu):
        out.append((None, 'removing the prescribed amplitudes from calc_full_c(cu) does not give cu back'))
    if not np.allclose(o.full_from_cu[E], inc * np.array(o.ck), rtol=1e-15, atol=0):
        out.append((None, 'calc_full_c does not carry inc*ck at the prescribed positions: %r vs %r'
                    % (o.full_from_cu[E].tolist(), (inc * np.array(o.ck)).tolist())))
    want = o.cfull_in.copy()
    want[E] *= inc
    if not np.allclose(o.full_from_full, want, rtol=1e-15, atol=0):
        out.append((None, 'calc_full_c on a full vector does not scale exactly the prescribed entries by inc'))
    K = o.k0d
    b = o.blocks
    if not np.array_equal(b['kuu'].toarray(), K[np.ix_(free, free)]):
        out.append((None, 'kuu is not the sub-matrix of the free amplitudes'))
    if not np.array_equal(np.array(b['kuk'])[:, E], K[np.ix_(free, E)]):
        out.append((None, 'columns of kuk at the prescribed amplitudes are not K[free, prescribed]'))
    if not np.array_equal(np.array(b['kku'])[E, :], K[np.ix_(E, free)]):
        out.append((None, 'rows of kku at the prescribed amplitudes are not K[prescribed, free]'))
    kkk = np.array(b['kkk'])
    if kkk.shape != (len(E), len(E)) or not np.array_equal(kkk, K[np.ix_(E, E)]):
        F3 = [i for i in range(3) if i not in E]
        ident = KNOWN.get('kkk') if kkk.shape == (len(F3), len(F3)) and np.array_equal(kkk, K[np.ix_(F3, F3)]) else None
        out.append((ident, "exclude_dofs_matrix(return_kkk=True)['kkk'] has shape %r and is not K[prescribed, prescribed] "
                           "(prescribed = %r)" % (kkk.shape, E)))
    # virtual work
    if o.fext is not None:
        keys, text, err = fext_predicate(case, o, inc, o.fext)
        o.vw_err = err
        if keys is None:
            out.append((None, 'calc_fext(inc=%r): %s' % (inc, text)))
        else:
            for kk in sorted(keys):
                out.append((KNOWN.get(kk), 'calc_fext(inc=%r) equals the virtual work of the loads only after the listed deviation '
                                       '`%s` is granted (model %s, alphadeg %r)' % (inc, KNOWN.get(kk, FIXED.get(kk)), cc.model, case['geom']['alphadeg'])))
        # incremental parts scale with the load factor: fext is affine in inc
        with contextlib.redirect_stdout(QUIET):
            f0 = np.array(cc.calc_fext(inc=0., silent=True))
            f1 = np.array(cc.calc_fext(inc=1., silent=True))
            fk = np.array(cc.calc_fext(inc=inc, kuk=cc.k0uk, silent=True))     # the documented-obsolete argument
        if not np.array_equal(fk, o.fext):
            out.append((None, 'calc_fext(kuk=self.k0uk) differs from calc_fext()'))
        sc = max(np.abs(f0).max(), np.abs(f1).max(), np.abs(o.fext).max(), 1e-300)
        if np.abs(o.fext - (f0 + inc * (f1 - f0))).max() > 1e-9 * sc:
            out.append((None, 'calc_fext is not affine in the load factor'))
    # static: rows of the FULL system that belong to the free amplitudes
    if o.static[0] == 'ok' and not np.all(np.isfinite(o.static[1])):
        o.static_note = 'solver returned a non-finite vector (singular reduced matrix); solver output is a hypothesis of C18'
    elif o.static[0] == 'ok':
        cu = o.static[1]
        rec = o.static[3]
        res = rec['a'] @ cu - rec['b']
        sc1 = max((np.abs(rec['a']) @ np.abs(cu)).max(), np.abs(rec['b']).max(), 1e-300)
        nullrow = np.abs(rec['a']).sum(axis=1) == 0
        keep = ~nullrow
        if np.abs(res[keep]).max(initial=0.) > 1e-8 * sc1:
            out.append((None, 'static(): reduced system not satisfied, residual %.3e (scale %.3e)'
                        % (np.abs(res[keep]).max(), sc1)))
        if np.abs(res[nullrow]).max(initial=0.) > 1e-8 * sc1:
            # K_uu has null rows that carry load: no vector satisfies the system; sparse.solve drops these rows
            out.append((KNOWN['nr'], 'static(): K_uu has %d null rows (zero stiffness) that carry load up to %.3e: the reduced '
                                     'system is inconsistent, compmech.sparse.solve silently returns 0 there (model %s, '
                                     'alphadeg %r)' % (int(nullrow.sum()), np.abs(res[nullrow]).max(), cc.model,
                                                       case['geom']['alphadeg'])))
        else:
            keep = np.ones(len(res), dtype=bool)
        with contextlib.redirect_stdout(QUIET):
            c = np.array(cc.calc_full_c(cu, inc=1.))
        parts = oracle_parts(case, o, 1.)
        mag = parts.pop('_mag')
        sc = max((np.abs(K[free, :]) @ np.abs(c)).max(), mag, 1e-300)
        lhs = K[free, :] @ c
        kp = keep
        ok_keys = None
        for keys in [(), ('tq',), ('la',), ('nh',), ('tq', 'la'), ('tq', 'nh'), ('la', 'nh'), ('tq', 'la', 'nh')]:
            f = (parts['pt'] + (parts['ax0'] if 'nh' in keys else parts['ax'])
                 + (parts['tqp'] if 'tq' in keys else parts['tq']) + parts['P'])[free]
            l2 = lhs - (K[free, 2] * c[2] if 'la' in keys else 0.)
            if np.abs((l2 - f)[kp]).max(initial=0.) <= 1e-7 * sc:
                ok_keys = keys
                break
        if ok_keys is None:
            out.append((None, 'static(): rows of K c = f of the free amplitudes violated, residual %.3e (scale %.3e)'
                        % (np.abs((lhs - (parts['pt'] + parts['ax'] + parts['tq'] + parts['P'])[free])[kp]).max(), sc)))
        else:
            for kk in ok_keys:
                out.append((KNOWN.get(kk), 'static(): the rows of K c = f that belong to the free amplitudes hold only after the '
                                       'listed deviation `%s` is granted (model %s)' % (KNOWN.get(kk, FIXED.get(kk)), cc.model)))
    # de-duplicate by identity/text
    seen, res = set(), []
    for ident, text in out:
        if (ident, text) not in seen:
            seen.add((ident, text))
            res.append((ident, text))
    return res


# ----------------------------------------------------------------------------- exclude_dofs_matrix on random COO matrices
def partition_cases(rng, n):
    out = []
    subsets = [[2], [0, 2], [1, 2], [0, 1, 2], [0], [1], [0, 1], []]
    for k in range(n):
        size = rng.choice([3, 4, 5, 6, 8])
        nnz = rng.randrange(0, 3 * size)
        ent = [(rng.randrange(size), rng.randrange(size), rng.choice([1., -2., 0.5, rng.uniform(-3, 3)])) for _ in range(nnz)]
        if ent and rng.random() < 0.5:
            ent += [rng.choice(ent) for _ in range(3)]       # duplicates add up
        E = subsets[k % len(subsets)]
        out.append(dict(size=size, entries=ent, E=E))
    return out


def partition_run(pc):
    from scipy.sparse import coo_matrix
    ConeCyl, _ = _imports()
    cc = ConeCyl()
    cc.excluded_dofs = list(pc['E'])
    ent = pc['entries']
    M = coo_matrix(([e[2] for e in ent], ([e[0] for e in ent], [e[1] for e in ent])), shape=(pc['size'], pc['size']))
    arg = M.toarray() if pc['size'] % 2 else M       # a dense array is converted by the code itself
    return cc.exclude_dofs_matrix(arg, True, True, True), M.toarray()


def partition_line(pc):
    return 'C18 excl 3 %d | %s | %s' % (pc['size'], ' '.join(map(str, pc['E'])),
                                     ' ; '.join('%d %d %s' % (r, c, q(v)) for r, c, v in pc['entries']))


def partition_predicates(pc, blocks, K):
    E = pc['E']
    n = pc['size']
    free = [i for i in range(n) if i not in E]
    out = []
    if not np.array_equal(blocks['kuu'].toarray(), K[np.ix_(free, free)]):
        out.append((None, 'kuu is not the sub-matrix of the free amplitudes'))
    if not np.array_equal(np.array(blocks['kuk']), K[np.ix_(free, [0, 1, 2])]):
        out.append((None, 'kuk is not K[free, 0:3]'))
    if not np.array_equal(np.array(blocks['kku']), K[np.ix_([0, 1, 2], free)]):
        out.append((None, 'kku is not K[0:3, free]'))
    kkk = np.array(blocks['kkk'])
    if kkk.shape != (len(E), len(E)) or not np.array_equal(kkk, K[np.ix_(E, E)]):
        F3 = [i for i in range(3) if i not in E]
        ident = KNOWN.get('kkk') if kkk.shape == (len(F3), len(F3)) and np.array_equal(kkk, K[np.ix_(F3, F3)]) else None
        out.append((ident, "exclude_dofs_matrix(return_kkk=True)['kkk'] has shape %r and is not K[prescribed, prescribed] "
                           "(prescribed = %r)" % (kkk.shape, E)))
    return out


# ----------------------------------------------------------------------------- C16 / C17 glue-level predicates
def _mk_glue(model, rng, alphadeg, **kw):
    ConeCyl, _ = _imports()
    cc = ConeCyl()
    cc.model = model
    cc.m1, cc.m2, cc.n2 = rng.choice([2, 3]), rng.choice([1, 2]), rng.choice([1, 2])
    if 'iso_' in model:
        cc.E11, cc.nu, cc.h = 70e3, 0.3, 1.
    else:
        cc.laminaprop = LAMINAPROPS[0]
        cc.stack = [0., 45., -45.]
        cc.plyt = 0.125
    cc.r2, cc.L, cc.alphadeg = 250., 510., alphadeg
    for k, v in kw.items():
        setattr(cc, k, v)
    return cc


def c16_glue_checks(ctx, rng):
    """glue-level parts of C16 on the implementation: (case, failure-or-None)
    k0/kG0 symmetric; kG0 linear in (Fc, P, T); combined-load split adds up; cone -> cylinder as alpha -> 0;
    isotropic short-cut model = general model fed an isotropic laminate"""
    model = rng.choices(MODELS, MODELS_W)[0]
    alphadeg = rng.choice([0., rng.uniform(2, 40)])
    loads = [dict(Fc=rng.uniform(-5e3, 5e3), P=rng.uniform(-.5, .5), T=rng.uniform(-1e3, 1e3)) for _ in range(2)]
    a, b = rng.uniform(-2, 2), rng.uniform(-2, 2)
    case = dict(model=model, alphadeg=alphadeg, loads=loads, a=a, b=b)
    fails = []
    with contextlib.redirect_stdout(QUIET), np.errstate(all='ignore'):
        seed = rng.randrange(1 << 30)
        import random as _r
        mats = []
        for ld in loads + [dict((k, a * loads[0][k] + b * loads[1][k]) for k in ('Fc', 'P', 'T'))]:
            cc = _mk_glue(model, _r.Random(seed), alphadeg, **ld)
            cc._calc_linear_matrices(silent=True)
            mats.append((cc.k0.toarray(), cc.kG0.toarray()))
        case.update(m1=cc.m1, m2=cc.m2, n2=cc.n2)
        k0, kG = mats[0]
        if np.abs(k0 - k0.T).max() != 0:
            fails.append('k0 not symmetric (max %.3e)' % np.abs(k0 - k0.T).max())
        if np.abs(kG - kG.T).max() != 0:
            fails.append('kG0 not symmetric (max %.3e)' % np.abs(kG - kG.T).max())
        sc = max(np.abs(m[1]).max() for m in mats) + 1e-300
        lin = np.abs(mats[2][1] - (a * mats[0][1] + b * mats[1][1])).max()
        if lin > 1e-9 * sc * (1 + abs(a) + abs(b)):
            fails.append('kG0 not linear in (Fc, P, T): deviation %.3e of scale %.3e' % (lin, sc))
        cc = _mk_glue(model, _r.Random(seed), alphadeg, **loads[0])
        cc._calc_linear_matrices(combined_load_case=1, silent=True)
        split = cc.kG0_Fc.toarray() + cc.kG0_P.toarray() + cc.kG0_T.toarray()
        if np.abs(split - kG).max() > 1e-9 * sc:
            fails.append('kG0_Fc + kG0_P + kG0_T != kG0: deviation %.3e of scale %.3e' % (np.abs(split - kG).max(), sc))
        # cone -> cylinder
        eps = 1e-6
        c0 = _mk_glue(model, _r.Random(seed), 0., **loads[0])
        c1 = _mk_glue(model, _r.Random(seed), eps, **loads[0])
        c0._calc_linear_matrices(silent=True)
        c1._calc_linear_matrices(silent=True)
        for nm in ('k0', 'kG0'):
            A, B = getattr(c0, nm).toarray(), getattr(c1, nm).toarray()
            d = np.sqrt(np.outer(np.abs(np.diag(c0.k0.toarray())), np.abs(np.diag(c0.k0.toarray())))) if nm == 'k0' else np.abs(A).max()
            rel = (np.abs(A - B) / (d + 1e-300)).max()
            if rel > 1e-5:
                fails.append('%s of the cone at alphadeg=%g differs from the cylinder matrices: entry-wise relative deviation %.3e'
                             % (nm, eps, rel))
        # isotropic short cut
        if model.startswith('iso_'):
            ci = _mk_glue(model, _r.Random(seed), alphadeg)
            cg = _mk_glue(model[4:], _r.Random(seed), alphadeg, laminaprop=(ci.E11, ci.E11, ci.nu), stack=[0.], plyt=ci.h)
            ci._calc_linear_matrices(silent=True)
            cg._calc_linear_matrices(silent=True)
            A, B = ci.k0.toarray(), cg.k0.toarray()
            d = np.sqrt(np.outer(np.abs(np.diag(B)), np.abs(np.diag(B)))) + 1e-300
            rel = (np.abs(A - B) / d).max()
            if rel > 1e-9:
                k = np.unravel_index(np.argmax(np.abs(A - B) / d), A.shape)
                fails.append('k0 of %s differs from %s fed the isotropic laminate: entry %r %r vs %r'
                             % (model, model[4:], tuple(int(i) for i in k), A[k], B[k]))
    return case, ('; '.join(fails) if fails else None)


NL_MODELS = ['clpt_donnell_bc1', 'clpt_donnell_bc2', 'clpt_donnell_bc3', 'clpt_donnell_bc4', 'clpt_sanders_bc1',
             'fsdt_donnell_bc1', 'iso_clpt_donnell_bc2']


def c17_glue_checks(ctx, rng):
    """glue-level parts of C17 on the implementation: (case, failure-or-None)
    kT symmetric, fint(0)=0, kT*dc = central finite difference of fint (Richardson), independence of ni_num_cores"""
    import random as _r
    model = rng.choice(NL_MODELS)
    alphadeg = rng.choice([0., rng.uniform(2, 35)])
    seed = rng.randrange(1 << 30)
    nx, nt = rng.choice([(24, 28), (30, 30), (41, 37)])
    amp = rng.choice([1e-2, 1e-1])
    case = dict(model=model, alphadeg=alphadeg, nx=nx, nt=nt, amp=amp, seed=seed)
    fails = []
    notes = {}
    with contextlib.redirect_stdout(QUIET), np.errstate(all='ignore'):
        def mk(cores):
            cc = _mk_glue(model, _r.Random(seed), alphadeg, nx=nx, nt=nt, ni_num_cores=cores)
            cc._calc_linear_matrices(silent=True)
            return cc
        cc = mk(2)
        nu = cc.get_size() - len(cc.excluded_dofs)
        rs = np.random.RandomState(seed % (1 << 31))
        c = rs.uniform(-1, 1, nu) * amp
        dc = rs.uniform(-1, 1, nu)
        f0 = np.array(cc.calc_fint(np.zeros(nu), silent=True))
        if np.abs(f0).max() != 0:
            fails.append('fint(0) != 0 (max %.3e)' % np.abs(f0).max())
        kT = cc.calc_kT(c, silent=True).toarray()
        asym = np.abs(kT - kT.T).max() / (np.abs(kT).max() + 1e-300)
        notes['kT_asym_rel'] = asym
        if asym > 1e-12:
            fails.append('kTuu not symmetric: relative %.3e' % asym)

        def fd(h):
            return (np.array(cc.calc_fint(c + h * dc, silent=True)) - np.array(cc.calc_fint(c - h * dc, silent=True))) / (2 * h)
        h = 1e-3 * amp
        d1, d2 = fd(h), fd(h / 2)
        jac = (4 * d2 - d1) / 3.
        want = kT @ dc
        rel = np.abs(jac - want).max() / (np.abs(want).max() + 1e-300)
        notes['jacobian_rel'] = rel
        if rel > 1e-6:
            fails.append('kT*dc differs from the central finite difference of fint: relative %.3e' % rel)
        # thread-count independence
        ref_f = np.array(cc.calc_fint(c, silent=True))
        for cores in (1, 3, 4):
            c2 = mk(cores)
            f2 = np.array(c2.calc_fint(c, silent=True))
            k2 = c2.calc_kT(c, silent=True).toarray()
            rf = np.abs(f2 - ref_f).max() / (np.abs(ref_f).max() + 1e-300)
            rk = np.abs(k2 - kT).max() / (np.abs(kT).max() + 1e-300)
            notes['cores%d' % cores] = max(rf, rk)
            if max(rf, rk) > 1e-12:
                fails.append('ni_num_cores=%d changes fint/kT: relative %.3e / %.3e' % (cores, rf, rk))
    case['achieved'] = notes
    return case, ('; '.join(fails) if fails else None)


# ----------------------------------------------------------------------------- the check
def nontrivial(case):
    kinds = sum([bool(case['forces']), bool(case['forces_inc']), case['P'] != 0 or case['P_inc'] != 0,
                 case['Fc'] is not None or case['Nxxtop'] is not None, (not case['pdT']) and (case['T'] != 0 or case['T_inc'] != 0)])
    presc = case['pdC'] or (case['pdT'] and case['thetaTdeg'] != 0) or case['betadeg'] != 0
    return kinds >= 2 and case['geom']['alphadeg'] != 0 and presc


def check_case(ctx, case, replies=None, want_model=True):
    """returns (predicate failures [(identity, text)], model disagreement or None, obs)"""
    o = run_impl(case)
    props = predicates(case, o)
    bad = None
    if want_model:
        if replies is None:
            replies = driver(model_lines(case, o))
        bad = compare(case, o, replies)
    return props, bad, o


class LineCov(object):
    """executed-line coverage of the modelled functions of conecyl.py (coverage.py, already in /venv)"""
    FUNCS = ['_rebuild', 'exclude_dofs_matrix', 'calc_full_c', 'calc_fext', 'static']

    def __init__(self):
        try:
            import coverage
            import compmech.conecyl.conecyl as mod
            self.file = mod.__file__
            self.cov = coverage.Coverage(include=[self.file], data_file=None)
        except Exception as e:       # pragma: no cover
            self.cov = None
            self.err = repr(e)

    def __enter__(self):
        if self.cov:
            self.cov.start()
        return self

    def __exit__(self, *a):
        if self.cov:
            self.cov.stop()

    def report(self):
        if not self.cov:
            return dict(error=self.err)
        import ast
        import compmech.conecyl.conecyl as mod
        _, statements, _, missing, _ = self.cov.analysis2(self.file)
        tree = ast.parse(open(self.file).read())
        out = {}
        for node in ast.walk(tree):
            if isinstance(node, ast.ClassDef) and node.name == 'ConeCyl':
                for fn in node.body:
                    if isinstance(fn, ast.FunctionDef) and fn.name in self.FUNCS:
                        doc = ast.get_docstring(fn, clean=False)
                        st = [l for l in statements if fn.lineno < l <= fn.end_lineno]
                        ms = [l for l in missing if fn.lineno < l <= fn.end_lineno]
                        out[fn.name] = dict(statements=len(st), executed=len(st) - len(ms), missing_lines=ms)
        return out


# lines of the modelled functions that no admissible input of this harness reaches, with the reason
UNREACHED_OK = {
    '_rebuild': 'boundary-condition presets (bc=...), the k0-size reset, inf>1e8, warnings, isotropic F and the '
                'invalid-Nxxtop raise are not part of the C18 model (geometry / Nxxtop / excluded dofs only)',
    'calc_fext': '`2 not in excluded_dofs` is dead code (pdLA=False raises in _rebuild)',
    'static': 'NLgeom=True branch belongs to C09/C17; models without the static flags are not registered',
}


def correspondence(ctx):
    rng = ctx.rng
    t0 = time.time()
    lc = LineCov()
    with lc:
        _correspondence(ctx, rng, t0)
    rep = lc.report()
    ctx.cov['modelled_line_coverage'] = rep
    ctx.cov['unreached_lines_explained'] = UNREACHED_OK
    for fn, r in rep.items():
        if isinstance(r, dict) and r.get('missing_lines') and fn not in UNREACHED_OK:
            ctx.violation('modelled function %s has lines the correspondence never executes: %r (an unchecked tie)'
                          % (fn, r['missing_lines']), dict(kind='coverage', function=fn, missing=r['missing_lines']),
                          found_input=False)


def _correspondence(ctx, rng, t0):
    from tools import source_tie
    # 0. source reading of the hand-written shell field / strain / imperfection sources (fg builds the load vector, fuvw is the field the
    #    property speaks of): executed from the .pyx/.pxi text and compared with the compiled commons modules
    if source_tie.check(ctx, 'C18', ('conecyl_clpt', 'conecyl_fsdt', 'mgi'), predicate=source_tie.conecyl_field_predicate):
        return
    dist = dict(models={}, subsets={}, excluded={}, alpha0=0, forces=0, forces_inc=0, pressure=0, Fc=0, nxx_array=0,
                pdC=0, pdT_theta=0, torque=0, LA=0, fext_errors=0, static_errors={}, static_nonfinite=0, malformed={},
                max_vw_rel_err_after_known_deviations=0.)
    # 1. malformed / admissible geometry stream, model vs implementation + predicate
    gcases = [gen_geometry(rng, malformed=(k % 3 == 0))[0] for k in range(ctx.scale(150, 1500))]
    impls = [geom_impl(g) for g in gcases]
    replies = driver([geom_line(g, i[2], i[3]) for g, i in zip(gcases, impls)])
    for g, i, rep in zip(gcases, impls, replies):
        ctx.evaluations += 1
        key = g.get('malformed', 'ok')
        dist['malformed'][key] = dist['malformed'].get(key, 0) + 1
        t = geom_predicates(g, i)
        if t:
            ctx.violation('C18 fails on the implementation: geometry: ' + t, dict(kind='geom', geom=g))
            return
        bad = geom_compare(g, i, rep)
        if bad:
            ctx.violation('model/implementation disagreement (%s); the geometry predicates hold on this case' % bad,
                          dict(kind='geom', geom=g, correspondence='Model/ConeCylGlue.lean rebuildGeom vs ConeCyl._rebuild'),
                          found_input=False)
            return
    ctx.log('geometry stream: %d cases' % len(gcases))
    # 2. random COO matrices through exclude_dofs_matrix, every subset
    pcs = partition_cases(rng, ctx.scale(96, 960))
    replies = driver([partition_line(pc) for pc in pcs])
    for pc, rep in zip(pcs, replies):
        ctx.evaluations += 1
        blocks, K = partition_run(pc)
        for ident, text in partition_predicates(pc, blocks, K):
            if ctx.violation('C18 fails on the implementation: ' + text, dict(kind='partition', case=pc), identity=ident):
                return
        bad = blocks_cmp(blocks, rep)
        if bad:
            ctx.violation('model/implementation disagreement (%s); partition predicates hold' % bad,
                          dict(kind='partition', case=pc, correspondence='excludeDofsMatrix vs exclude_dofs_matrix'),
                          found_input=False)
            return
    ctx.log('partition stream: %d cases' % len(pcs))
    # 3. full cases
    n = ctx.scale(200, 2000)
    cases = [gen_case(rng, ctx.thorough()) for _ in range(n)]
    obs, lines, index = [], [], []
    for c in cases:
        o = run_impl(c)
        ls = model_lines(c, o)
        index.append((len(lines), len(ls)))
        lines += ls
        obs.append(o)
    replies = driver(lines)
    assert len(replies) == len(lines), (len(replies), len(lines))
    ctx.log('full cases: %d implementations run, %d model ops answered' % (n, len(lines)))
    for c, o, (k0, kn) in zip(cases, obs, index):
        ctx.evaluations += 1
        m = c['model']
        dist['models'][m] = dist['models'].get(m, 0) + 1
        sub = ','.join(k for k in ('r1', 'r2', 'H', 'L') if c['geom'][k] is not None)
        dist['subsets'][sub] = dist['subsets'].get(sub, 0) + 1
        dist['excluded'][str(o.E)] = dist['excluded'].get(str(o.E), 0) + 1
        dist['alpha0'] += c['geom']['alphadeg'] == 0
        dist['forces'] += bool(c['forces'])
        dist['forces_inc'] += bool(c['forces_inc'])
        dist['pressure'] += (c['P'] != 0 or c['P_inc'] != 0)
        dist['Fc'] += c['Fc'] is not None
        dist['nxx_array'] += isinstance(c['Nxxtop'], list)
        dist['pdC'] += c['pdC']
        dist['pdT_theta'] += c['pdT'] and c['thetaTdeg'] != 0
        dist['torque'] += (not c['pdT']) and (c['T'] != 0 or c['T_inc'] != 0)
        dist['LA'] += c['betadeg'] != 0
        dist['fext_errors'] += o.fext_err is not None
        if o.static[0] == 'err':
            dist['static_errors'][o.static[1]] = dist['static_errors'].get(o.static[1], 0) + 1
        if nontrivial(c):
            ctx.nontrivial.add(json.dumps(c, sort_keys=True, default=str))
        props = predicates(c, o)
        dist['max_vw_rel_err_after_known_deviations'] = max(dist['max_vw_rel_err_after_known_deviations'],
                                                            getattr(o, 'vw_err', 0.) if not [p for p in props if p[0] is None] else 0.)
        dist['static_nonfinite'] += hasattr(o, 'static_note')
        ctx.sample(dict(case=c, fext_head=[float(v) for v in (o.fext[:4] if o.fext is not None else [])]), limit=2)
        for ident, text in props:
            if ctx.violation('C18 fails on the implementation: ' + text, dict(kind='case', case=c), identity=ident):
                return
        bad = compare(c, o, replies[k0:k0 + kn])
        if bad:
            ctx.violation('model/implementation disagreement (%s); the property predicates %s on this case'
                          % (bad, 'hold' if not [p for p in props if p[0] is None] else 'fail'),
                          dict(kind='case', case=c, correspondence='Model/ConeCylGlue.lean vs ConeCyl'), found_input=False)
            return
    # 4. replay the witnesses of the listed findings on the implementation (they must still fail as listed)
    for w in WITNESSES:
        props, _, _ = check_case(ctx, w, want_model=False)
        for ident, text in props:
            if ctx.violation('C18 fails on the implementation: ' + text, dict(kind='case', case=w), identity=ident):
                return
    # 5. glue-level C16 / C17 predicates (reported; violations of C18 only with C18_GLUE_STRICT=1)
    strict = os.environ.get('C18_GLUE_STRICT', '') == '1'
    for name, fn, cnt in (('c16_glue', c16_glue_checks, ctx.scale(24, 240)), ('c17_glue', c17_glue_checks, ctx.scale(6, 60))):
        res = dict(cases=0, failures=[], achieved=[])
        for _ in range(cnt):
            case, fail = fn(ctx, rng)
            ctx.evaluations += 1
            res['cases'] += 1
            if 'achieved' in case:
                res['achieved'].append(case['achieved'])
            if fail:
                if len(res['failures']) < 12:
                    res['failures'].append(dict(case=case, failure=fail))
                ctx.log('%s predicate fails: %s | %s' % (name, json.dumps(case, default=str)[:160], fail[:300]))
                if strict and ctx.violation('%s: %s' % (name, fail), dict(kind=name, case=case)):
                    return
        ctx.cov[name] = res
    ctx.cov['input_distribution'] = dist
    ctx.cov['cases_validated_against_impl'] = n
    ctx.notes.append('quick-tier wall time of the correspondence: %.1f s' % (time.time() - t0))


def _w(model, alphadeg, **kw):
    c = dict(model=model, m1=4, m2=3, n2=3, geom=dict(alphadeg=alphadeg, r1=None, r2=250., H=510., L=None),
             lam=dict(laminaprop=list(LAMINAPROPS[0]), plyt=0.125, stack=[0., 45., -45.]), forces=[[255., 30., 0., 0., -10.]],
             forces_inc=[], P=0., P_inc=0., pdC=False, uTM=0., Fc=None, Nxxtop=None, MLA=None, xiLA=None, pdT=True,
             thetaTdeg=0., T=0., T_inc=0., betadeg=0., tLAdeg=0., inc=1., seed=1)
    c.update(kw)
    return c


# concrete witnesses of the listed findings (known_findings.json refers to these by index)
WITNESSES = [
    _w('clpt_donnell_bc3', 0., pdT=False, T=1000.),                       # C18-torque-as-point-force
    _w('fsdt_donnell_bcn', 10., betadeg=2., thetaTdeg=1.),                # C18-LA-term-missing (fixed 7b8ae8e): must pass now
    _w('fsdt_donnell_bcn', 0., Nxxtop=[3., 1., 2., -1., .5, .25, .75]),   # C18-nxxtop-harmonics-dropped-bcn
    _w('clpt_donnell_bc2', 20., m1=2, m2=2, n2=1, pdT=False, forces=[[255., 0.5, 0., 10., 0.]]),  # C18-static-null-rows-loaded
]


def search(ctx, reason):
    """proof or tie broken: look for an input on which the implementation violates C18"""
    rng = ctx.rng
    for k in range(ctx.scale(60, 600)):
        c = gen_case(rng)
        ctx.evaluations += 1
        props, _, _ = check_case(ctx, c, want_model=False)
        for ident, text in props:
            if ctx.violation('C18 fails on the implementation: ' + text + ' [after: %s]' % '; '.join(reason)[:300],
                             dict(kind='case', case=c), identity=ident):
                return True
    return False


def replay(ctx, data):
    r = data['replay']
    kind = r.get('kind')
    if kind == 'geom':
        g = r['geom']
        i = geom_impl(g)
        t = geom_predicates(g, i)
        bad = geom_compare(g, i, driver([geom_line(g, i[2], i[3])])[0])
        print('predicate:', t, '| model-vs-impl:', bad)
        return 1 if (t or bad) else 0
    if kind == 'partition':
        pc = r['case']
        pc['entries'] = [tuple(e) for e in pc['entries']]
        blocks, K = partition_run(pc)
        props = partition_predicates(pc, blocks, K)
        bad = blocks_cmp(blocks, driver([partition_line(pc)])[0])
        print('predicates:', props, '| model-vs-impl:', bad)
        unknown = [p for p in props if p[0] is None or not any(f['id'] == p[0] for f in _known())]
        return 1 if (unknown or bad) else 0
    if kind == 'case':
        props, bad, _ = check_case(ctx, r['case'])
        print('predicates:', props, '| model-vs-impl:', bad)
        unknown = [p for p in props if p[0] is None or not any(f['id'] == p[0] for f in _known())]
        return 1 if (unknown or bad) else 0
    if kind in ('c16_glue', 'c17_glue'):
        print('glue-level case (re-generated from the PRNG, not replayable by input):', r['case'])
        return 1
    print('replay names a broken obligation, no input:', data['what'])
    return 1


def _known():
    from tools.common import load_findings
    return [f for f in load_findings('C18') if f.get('status', 'known') == 'known']
