"""C20 — results depend on the definition only, not on call history or thread count.

H: Model/Lifecycle.lean (hand-written state machine of the lazily derived attributes and of what every
public call reads / writes / raises) vs the real objects, wrapped so that every attribute read and write is
logged (subclass named exactly `Panel` with `__getattribute__/__setattr__` logging; nothing in /repo is touched).
For random definitions and random call sequences (length <= 12, repeated and permuted calls) the check compares,
call by call:   outcome class (ok / exception class), ordered set of attributes written, set of hidden attributes
read  (model vs implementation — the tie),   and — the property itself, evaluated on the implementation —

  * the RESULT of every successful call, bit for bit (np.array_equal; eigen-solutions of the ARPACK paths to 1e-8
    relative, they start from a random vector) against
      (A) the same call as FIRST call on a fresh identical object (when that succeeds) and
      (B) the same call on a fresh identical object after a single warm-up `calc_k0()` (when both succeed);
  * caller-supplied arrays (c, Fnxny/F, xs, ys, K, KG, M, fext) byte-checksummed before/after every call;
  * user-supplied definition attributes (stack, plyts, laminaprops, forces, ...) deep-checksummed after every call
    (only attributes listed in the model's write set may change);
  * thread clauses: uvw / strain / stress for out_num_cores = 1..16 with point counts that are not multiples of the
    core count, ConeCyl.calc_fint (compmech.integrate.integratev inside) for ni_num_cores = 1..16.

A disagreement between the numbers where the Lean model predicts *different* provenance tokens is the known
order dependence (calc_kt_kr); where the model predicts equal tokens it is a new violation.
PanelAssembly, StiffPanelBay and ConeCyl are driven the same way against their (coarser) models.
"""
import hashlib
import io
import os
import subprocess
import sys
import contextlib
import json
import warnings

import numpy as np

from tools.common import driver, VERIF, SCRATCH, REPO

TRUSTED = [
    'Lean 4.33 kernel; axioms within {propext, Classical.choice, Quot.sound} (audited each run)',
    'hand-written life-cycle model lean/CompmechVerif/Model/Lifecycle.lean: equal to the code only on what the '
    'correspondence explored (outcome class, write footprint, hidden-attribute read footprint per call)',
    'numbers are not modelled: kernels are provenance tokens; numeric history independence is checked directly on '
    'the implementation against fresh-object references',
    'ARPACK (eigsh/eigs) start vectors are random: eigen-results of the sparse paths are compared to 1e-8 relative',
    'OpenMP scheduling / data races are outside the model; thread clauses are checked by execution for 1..16 threads',
]
ASSUMPTIONS = [
    'the definition is not edited between calls (re-definition of an existing object is outside C20)',
    'amplitude vectors have the size of the model; Mach-route definitions supply rho_air, V and speed_sound',
    'a given alphadeg is non-zero',
    'stack / plyts / laminaprops have consistent lengths',
    'plots are exercised with the Agg backend on Panel only',
]
RULE = ('definitions from one PRNG: model given/derived/bogus, flat/cylindrical/conical/inconsistent geometry, each of '
        'stack, laminaprop(s), plyt(s), mu present or missing, y1/y2 none/one/both, offset zero/non-zero, constant '
        'pre-loads, aerodynamic data by beta / Mach <1,=1,>1 / none, flow x/y/invalid, point forces; call sequences of '
        'length 1..12 over all public evaluation calls with repeats; non-trivial = at least one failing and one '
        'succeeding call, or a repeated successful call; distinct by (definition, sequence)')

sys.path.insert(0, REPO)
warnings.filterwarnings('ignore')

LP = (142.5e9, 8.7e9, 0.28, 5.1e9, 5.1e9, 5.1e9)
MODEL_NAMES = dict(plate='plate_clt_donnell_bardell', plateW='plate_clt_donnell_bardell_w',
                   cpanel='cpanel_clt_donnell_bardell', kpanel='kpanel_clt_donnell_bardell')
INPUT_HIDDEN = ['model', 'r', 'alpharad', 'plyts', 'laminaprops', 'lam', 'F', 'size', 'Mach', 'k0', 'kG0', 'kM', 'kA']
WRITE_ATTRS = ['model', 'r', 'alpharad', 'plyts', 'laminaprops', 'lam', 'F', 'size', 'Mach', 'k0', 'kG0', 'kT', 'kM',
               'kA', 'cA', 'eigvals', 'eigvecs', 'u', 'v', 'w', 'phix', 'phiy', 'Xs', 'Ys', 'increments']
SOLVER_TAIL = {'lb': ['eigvals', 'eigvecs'], 'freq': ['eigvals', 'eigvecs'], 'static': ['increments']}
PANEL_OPS = ['getSize', 'k0:0', 'k0:1', 'kL:0', 'kL:1', 'kG0:0', 'kG0:1', 'kG:0', 'kG:1', 'kT:0', 'kT:1', 'kM:0',
             'kM:1', 'kA:0', 'kA:1', 'cA', 'lb', 'freq:1', 'freq:2', 'freq:3', 'freq:4', 'fext:0', 'fext:1', 'fint:0',
             'fint:1', 'static', 'uvw', 'strain', 'stress:0', 'stress:1', 'ktkr']


@contextlib.contextmanager
def quiet():
    buf = io.StringIO()
    with contextlib.redirect_stdout(buf):
        with np.errstate(all='ignore'):
            yield


# ------------------------------------------------------------------------------------------ recording wrapper
_REC = {}


def rec_panel_class():
    """subclass of the real Panel, *named* Panel (the kernels test the class name), logging attribute access"""
    if 'Panel' in _REC:
        return _REC['Panel']
    import compmech.panel._panel as pm
    Real = pm.Panel
    methods = set(k for k in dir(Real) if callable(getattr(Real, k, None)))

    class Panel(Real):
        def __init__(self, *a, **k):
            object.__setattr__(self, '_log', None)
            Real.__init__(self, *a, **k)

        def __setattr__(self, k, v):
            l = object.__getattribute__(self, '_log')
            if l is not None:
                l.append(('w', k))
            object.__setattr__(self, k, v)

        def __getattribute__(self, k):
            if k[0] != '_' and k not in methods:
                l = object.__getattribute__(self, '_log')
                if l is not None:
                    l.append(('r', k))
            return object.__getattribute__(self, k)
    Panel.__qualname__ = 'Panel'
    _REC['Panel'] = Panel
    _REC['RealPanel'] = Real
    return Panel


def logged(obj, f):
    """run f(obj) with logging on; returns (outcome, value-or-exception, log)"""
    object.__setattr__(obj, '_log', [])
    try:
        with quiet():
            val = f(obj)
        oc = 'ok'
    except Exception as e:                                 # noqa
        val = e
        oc = type(e).__name__
        if oc == 'UnboundLocalError':
            oc = 'NameError'
    log = object.__getattribute__(obj, '_log')
    object.__setattr__(obj, '_log', None)
    return oc, val, log


def dedup(seq):
    out = []
    for x in seq:
        if x not in out:
            out.append(x)
    return out


# ------------------------------------------------------------------------------------------ panel definitions
def gen_panel_def(rng, plain=False):
    """abstract definition (the fields of Lifecycle.Panel.Def) + concrete numbers"""
    D = {}
    u = rng.random()
    geo = rng.choice(['flat', 'flat', 'cyl', 'cone', 'bad']) if not plain else rng.choice(['flat', 'cyl', 'cone'])
    if rng.random() < 0.08 and not plain:
        geo = 'bad'
    D['rGiven'] = geo in ('cyl', 'cone')
    D['alphaGiven'] = geo in ('cone', 'bad')
    if plain or u < 0.6:
        D['model'] = 'none'
    elif u < 0.93:
        # explicit model, consistent with the geometry
        D['model'] = dict(flat=rng.choice(['plate', 'plateW']), cyl='cpanel', cone='kpanel', bad='plate')[geo]
        if geo == 'bad':
            D['alphaGiven'] = False
    else:
        D['model'] = 'bogus'
    pm = 0.0 if plain else 0.07
    D['stack'] = rng.random() >= pm
    D['laminaprop'] = rng.random() >= pm
    D['laminaprops'] = rng.random() < 0.3
    D['plyt'] = rng.random() >= pm
    D['plyts'] = rng.random() < 0.3
    D['mu'] = rng.random() >= (0.0 if plain else 0.15)
    D['y12'] = rng.choice(['none', 'none', 'none', 'one', 'both'])
    D['offsetZero'] = rng.random() < 0.5
    D['cte'] = rng.random() < 0.25
    aero = rng.choice(['beta', 'beta', 'none', 'lt1', 'eq1', 'gt1'])
    D['betaGiven'] = aero == 'beta'
    D['mach'] = 'none' if aero in ('beta', 'none') else aero
    D['flow'] = rng.choice(['x', 'x', 'y', 'bad']) if not plain else rng.choice(['x', 'y'])
    D['forces'] = rng.random() < 0.6
    # numbers
    N = dict(a=rng.uniform(0.5, 2.0), b=rng.uniform(0.4, 1.5), m=rng.choice([2, 3, 4]), n=rng.choice([2, 3, 4]),
             r=rng.uniform(1.0, 4.0), alphadeg=rng.uniform(1., 15.), nplies=rng.choice([1, 2, 3, 4]),
             plyt=rng.choice([1e-3, 0.125e-3, 2e-3]), offset=rng.choice([-1, 1]) * rng.uniform(0.2e-3, 3e-3),
             mu=rng.uniform(1e3, 3e3), Nxx=-rng.uniform(0.5, 5.), Nyy=rng.uniform(-1, 1), Nxy=rng.uniform(-1, 1),
             cte=[rng.uniform(-2, 2), 0., rng.uniform(-1, 1)], beta=rng.uniform(0.5, 20), gamma=rng.choice([None, 0.7]),
             machgt=rng.uniform(1.2, 3.0), seed=rng.randrange(1 << 30),
             bc=rng.choice(['ss', 'ss', 'cc', 'free']), neig=rng.choice([1, 2]), cores=rng.choice([1, 2, 3, 5, 8]))
    N['angles'] = [rng.choice([0, 45, -45, 90, 30]) for _ in range(N['nplies'])]
    N['y1'], N['y2'] = sorted([rng.uniform(0.05, 0.45) * N['b'], rng.uniform(0.55, 0.95) * N['b']])
    N['which_y'] = rng.choice(['y1', 'y2'])
    N['forcelist'] = [[rng.uniform(0.1, 0.9) * N['a'], rng.uniform(0.1, 0.9) * N['b'], rng.uniform(-1, 1),
                       rng.uniform(-1, 1), rng.uniform(-5, 5), rng.random() < 0.5] for _ in range(rng.choice([1, 2]))]
    D['N'] = N
    return D


def panel_def_line(D):
    b = lambda x: '1' if x else '0'
    return ' '.join([D['model'], b(D['rGiven']), b(D['alphaGiven']), b(D['stack']), b(D['laminaprop']),
                     b(D['laminaprops']), b(D['plyt']), b(D['plyts']), b(D['mu']), D['y12'], b(D['offsetZero']),
                     b(D['cte']), b(D['betaGiven']), D['mach'], D['flow'], b(D['forces'])])


def build_panel(D, cls=None):
    """a freshly defined object for the definition D"""
    cls = cls or rec_panel_class()
    N = D['N']
    kw = dict(a=N['a'], b=N['b'], m=N['m'], n=N['n'])
    if D['rGiven']:
        kw['r'] = N['r']
    if D['alphaGiven']:
        kw['alphadeg'] = N['alphadeg']
    if D['model'] in MODEL_NAMES:
        kw['model'] = MODEL_NAMES[D['model']]
    elif D['model'] == 'bogus':
        kw['model'] = 'bogus_model'
    if D['stack']:
        kw['stack'] = list(N['angles'])
    if D['laminaprop']:
        kw['laminaprop'] = LP
    if D['laminaprops']:
        kw['laminaprops'] = [LP for _ in N['angles']]
    if D['plyt']:
        kw['plyt'] = N['plyt']
    if D['plyts']:
        kw['plyts'] = [N['plyt'] * (1 + 0.1 * i) for i in range(len(N['angles']))]
    if D['mu']:
        kw['mu'] = N['mu']
    if D['y12'] == 'both':
        kw['y1'], kw['y2'] = N['y1'], N['y2']
    elif D['y12'] == 'one':
        kw[N['which_y']] = N[N['which_y']]
    kw['offset'] = 0. if D['offsetZero'] else N['offset']
    p = cls(**kw)
    p.Nxx, p.Nyy, p.Nxy = N['Nxx'], N['Nyy'], N['Nxy']
    if D['cte']:
        p.Nxx_cte, p.Nyy_cte, p.Nxy_cte = N['cte']
    if D['betaGiven']:
        p.beta = N['beta']
        p.gamma = N['gamma']
    if D['mach'] != 'none':
        p.Mach = dict(lt1=0.8, eq1=1.0, gt1=N['machgt'])[D['mach']]
        p.rho_air = 1.1
        p.speed_sound = 340.
        p.V = 340. * max(p.Mach, 1.0)
    p.flow = dict(x='x', y='Y', bad='z')[D['flow']]
    if D['forces']:
        for x, y, fx, fy, fz, cte in N['forcelist']:
            p.add_force(x, y, fx, fy, fz, cte=cte)
    if N['bc'] == 'cc':
        p.w1rx = p.w2rx = p.w1ry = p.w2ry = 0.
    elif N['bc'] == 'free':
        p.u2tx = p.v2tx = p.w2tx = 1.
        p.u2ty = p.v2ty = p.w2ty = 1.
    p.num_eigvalues = N['neig']
    p.out_num_cores = N['cores']
    return p


def actual_model(D):
    """canonical model (mirror of cModel) -> key of MODEL_NAMES or None"""
    if D['model'] in MODEL_NAMES:
        return D['model']
    if D['model'] == 'bogus':
        return None
    return {(False, False): 'plate', (True, False): 'cpanel', (True, True): 'kpanel', (False, True): None}[
        (D['rGiven'], D['alphaGiven'])]


def panel_size(D):
    N = D['N']
    return (1 if actual_model(D) == 'plateW' else 3) * N['m'] * N['n']


class Args(object):
    """caller-supplied arrays for the calls of one case; identical arrays are regenerated for the reference objects"""

    def __init__(self, D):
        rs = np.random.RandomState(D['N']['seed'])
        size = panel_size(D)
        self.c = rs.uniform(-1, 1, size) * 1e-3
        self.c2 = rs.uniform(-1, 1, size) * 1e-3
        A = rs.uniform(-1, 1, (6, 6))
        self.F = (A + A.T) * 1e5 + np.diag([5e7, 5e7, 2e7, 40., 40., 15.])
        npts = rs.choice([3, 5, 7, 11, 13])
        self.xs = rs.uniform(0, D['N']['a'], npts)
        self.ys = rs.uniform(0, D['N']['b'], npts)

    def arrays(self):
        return dict(c=self.c, c2=self.c2, F=self.F, xs=self.xs, ys=self.ys)


def digest(x):
    """deep, order-preserving checksum of python / numpy / scipy values"""
    h = hashlib.sha1()

    def go(v):
        if v is None:
            h.update(b'N')
        elif isinstance(v, np.ndarray):
            h.update(str(v.dtype).encode() + str(v.shape).encode())
            h.update(np.ascontiguousarray(v).tobytes())
        elif hasattr(v, 'tocoo') and hasattr(v, 'shape'):
            m = v.tocsr().copy()
            m.sum_duplicates()
            m.sort_indices()
            go(m.indptr), go(m.indices), go(m.data)
        elif isinstance(v, (list, tuple)):
            h.update(b'L%d' % len(v))
            for e in v:
                go(e)
        elif isinstance(v, dict):
            for k in sorted(v):
                h.update(str(k).encode())
                go(v[k])
        elif isinstance(v, (int, float, complex, str, bool, np.generic)):
            h.update(repr(v).encode())
        else:
            h.update(repr(type(v)).encode())
    go(x)
    return h.hexdigest()


DEF_ATTRS = ['a', 'b', 'alphadeg', 'stack', 'plyt', 'laminaprop', 'offset', 'y1', 'y2', 'm', 'n', 'mu', 'Nxx', 'Nyy',
             'Nxy', 'Nxx_cte', 'Nyy_cte', 'Nxy_cte', 'forces', 'forces_inc', 'beta', 'gamma', 'aeromu', 'rho_air',
             'speed_sound', 'V', 'flow', 'nx', 'ny', 'num_eigvalues', 'out_num_cores', 'u1tx', 'u1rx', 'u2tx', 'u2rx',
             'v1tx', 'v1rx', 'v2tx', 'v2rx', 'w1tx', 'w1rx', 'w2tx', 'w2rx', 'u1ty', 'u1ry', 'u2ty', 'u2ry', 'v1ty',
             'v1ry', 'v2ty', 'v2ry', 'w1ty', 'w1ry', 'w2ty', 'w2ry', 'fsdt_shear_correction', 'force_orthotropic_laminate',
             'ni_method', 'c0', 'name', 'group', 'x0', 'y0', 'row_start', 'col_start']


def def_digest(p, D):
    d = p.__dict__
    vals = [d.get(k) for k in DEF_ATTRS]
    # user-supplied lists keep their identity when given
    if D['plyts']:
        vals.append(d.get('plyts'))
    if D['laminaprops']:
        vals.append(d.get('laminaprops'))
    if D['rGiven']:
        vals.append(d.get('r'))
    if D['model'] != 'none':
        vals.append(d.get('model'))
    return digest(vals)


def panel_call(op, A):
    """op token -> function of the object returning the *result* of the public call"""
    name, _, flag = op.partition(':')
    f = flag == '1'
    c, F, xs, ys = A.c, A.F, A.xs, A.ys

    def size_of(p):
        return len(c)
    if name == 'getSize':
        return lambda p: p.get_size()
    if name == 'k0':
        return lambda p: p.calc_k0(silent=True, **(dict(size=size_of(p)) if f else {}))
    if name == 'kL':
        return lambda p: p.calc_k0(silent=True, c=c, **(dict(Fnxny=F) if f else {}))
    if name == 'kG0':
        return lambda p: p.calc_kG0(silent=True, **(dict(size=size_of(p)) if f else {}))
    if name == 'kG':
        return lambda p: p.calc_kG0(silent=True, c=c, **(dict(Fnxny=F) if f else {}))
    if name == 'kT':
        return lambda p: p.calc_kT(silent=True, c=c, **(dict(Fnxny=F) if f else {}))
    if name == 'kM':
        return lambda p: p.calc_kM(silent=True, **(dict(size=size_of(p)) if f else {}))
    if name == 'kA':
        return lambda p: p.calc_kA(silent=True, **(dict(size=size_of(p)) if f else {}))
    if name == 'cA':
        return lambda p: (p.calc_cA(0.37, silent=True), p.__dict__['cA'])[1]
    if name == 'lb':
        return lambda p: (p.lb(silent=True, sparse_solver=False), (p.__dict__['eigvals'], p.__dict__['eigvecs']))[1]
    if name == 'freq':
        at = int(flag)
        return lambda p: (p.freq(atype=at, silent=True, sparse_solver=False),
                          (p.__dict__['eigvals'], p.__dict__['eigvecs']))[1]
    if name == 'fext':
        return lambda p: p.calc_fext(silent=True, **(dict(size=size_of(p)) if f else {}))
    if name == 'fint':
        return lambda p: p.calc_fint(c, silent=True, **(dict(Fnxny=F) if f else {}))
    if name == 'static':
        return lambda p: [x.copy() for x in p.static(silent=True)]
    if name == 'uvw':
        return lambda p: tuple(np.array(x) for x in p.uvw(c, xs=xs, ys=ys))
    if name == 'strain':
        return lambda p: p.strain(c, xs=xs, ys=ys)
    if name == 'stress':
        return lambda p: p.stress(c, xs=xs, ys=ys, **(dict(F=F) if f else {}))
    if name == 'ktkr':
        def go(p):
            from compmech.panel.connections import calc_kt_kr
            return calc_kt_kr(p, p, 'ycte')
        return go
    raise ValueError(op)


def same_result(a, b, tol=0.0):
    """bit-for-bit equality of results (dense / sparse / tuples / dicts); tol>0: relative, for ARPACK outputs"""
    if type(a) != type(b) and not (np.isscalar(a) and np.isscalar(b)):
        return False
    if isinstance(a, (list, tuple)):
        return len(a) == len(b) and all(same_result(x, y, tol) for x, y in zip(a, b))
    if isinstance(a, dict):
        return sorted(a) == sorted(b) and all(same_result(a[k], b[k], tol) for k in a)
    if hasattr(a, 'toarray'):
        if a.shape != b.shape:
            return False
        a, b = a.toarray(), b.toarray()
    if a is None:
        return b is None
    a, b = np.asarray(a), np.asarray(b)
    if a.shape != b.shape:
        return False
    if tol == 0.0:
        return bool(np.array_equal(a, b, equal_nan=True))
    s = max(np.abs(a).max() if a.size else 0., 1e-300)
    return bool(np.all(np.abs(a - b) <= tol * s))


def parse_panel_reply(rep):
    out = []
    for f in rep.split(' ; '):
        oc, tok, r, w = [x.strip() for x in f.split('#')]
        out.append(dict(oc=oc, tok=tok, R=[x for x in r[2:].split(',') if x], W=[x for x in w[2:].split(',') if x]))
    return out


def run_panel_sequence(D, ops, A, hook=None):
    """run the sequence on one freshly defined recorded object; returns per-op records"""
    p = build_panel(D)
    if hook:
        hook(p)
    recs = []
    for op in ops:
        arrs = A.arrays()
        before = {k: digest(v) for k, v in arrs.items()}
        dd = def_digest(p, D)
        oc, val, log = logged(p, panel_call(op, A))
        W = dedup([k for t, k in log if t == 'w'])
        R = set(k for t, k in log if t == 'r' and k in INPUT_HIDDEN)
        mutated = [k for k, v in arrs.items() if digest(v) != before[k]]
        recs.append(dict(op=op, oc=oc, val=val, W=W, R=R, mutated=mutated, def_changed=def_digest(p, D) != dd,
                         err=str(val)[:200] if oc != 'ok' else ''))
    return recs, p


def panel_case(ctx, D, ops, replies, dist, hook=None):
    """compare one case; `replies` = model replies for [ops] + for each distinct op: [op], [k0:0, op].
    returns True when a violation was recorded that stops the run"""
    A = Args(D)
    replay = dict(kind='panel', definition={k: v for k, v in D.items()}, ops=ops)
    recs, p = run_panel_sequence(D, ops, A, hook)
    model = parse_panel_reply(replies[0])
    distinct = dedup(ops)
    mref = {}
    for k, op in enumerate(distinct):
        mref[op] = (parse_panel_reply(replies[1 + 2 * k])[0], parse_panel_reply(replies[2 + 2 * k])[1])
    ctx.evaluations += len(ops)
    # ---- (1) the tie: model vs implementation, call by call
    for i, (r, m) in enumerate(zip(recs, model)):
        dist['outcomes'][r['oc']] = dist['outcomes'].get(r['oc'], 0) + 1
        dist['ops'][r['op'].split(':')[0]] = dist['ops'].get(r['op'].split(':')[0], 0) + 1
        what = None
        name = r['op'].split(':')[0]
        if (r['oc'] != m['oc'] and m['oc'] == 'ok' and name in SOLVER_TAIL and r['R'] == set(m['R'])
                and r['W'] == [w for w in m['W'] if w not in SOLVER_TAIL[name]]):
            # every modelled statement up to the external eigen / linear solver ran; the solver itself raised
            # (singular / too few free dofs: C05/C06 territory) - not a life-cycle disagreement
            dist['solver_failures'] += 1
            continue
        if r['oc'] != m['oc']:
            what = 'outcome: model %s, implementation %s (%s)' % (m['oc'], r['oc'], r['err'])
        elif r['W'] != m['W']:
            extra = [w for w in r['W'] if w not in m['W']]
            what = 'attributes written: model %s, implementation %s' % (m['W'], r['W'])
            if extra:
                what += ' — the call writes %s, which no modelled statement of this call does' % extra
        elif r['R'] != set(m['R']):
            what = 'hidden attributes read: model %s, implementation %s' % (sorted(m['R']), sorted(r['R']))
        if what:
            if ctx.violation('call %d (%s) of the sequence: %s; definition-only results are proved for the model, so the '
                             'theorem no longer speaks about this code path' % (i, r['op'], what), replay,
                             found_input=True):
                return True
        if r['mutated']:
            if ctx.violation('call %d (%s) modified the caller-supplied array(s) %s in place' % (i, r['op'], r['mutated']),
                             replay):
                return True
        if r['def_changed'] and 'Mach' not in m['W']:
            if ctx.violation('call %d (%s) changed a user-supplied definition attribute' % (i, r['op']), replay):
                return True
    # ---- (2) the property on the implementation: results equal to the fresh-object references
    refs = {}
    for op in distinct:
        pa = build_panel(D)
        if hook:
            hook(pa)
        ocA, valA, _ = logged(pa, panel_call(op, A))
        pb = build_panel(D)
        if hook:
            hook(pb)
        ocW, _, _ = logged(pb, panel_call('k0:0', A))
        ocB, valB, _ = logged(pb, panel_call(op, A))
        refs[op] = (ocA, valA, ocW, ocB, valB)
        dist['fresh_ok' if ocA == 'ok' else 'fresh_fail'] += 1
        # fresh-object failures of the unchanged tree (known finding): op fails first, succeeds after calc_k0()
        if ocA != 'ok' and ocW == 'ok' and ocB == 'ok':
            ident = 'C20-fresh-panel-no-rebuild'
            if ctx.violation('%s cannot be requested first on a freshly defined Panel (%s: %s) although it succeeds after '
                             'calc_k0()' % (op, ocA, str(valA)[:80]), dict(replay, ops=[op]), identity=ident):
                return True
            dist['fresh_fail_known'][op] = dist['fresh_fail_known'].get(op, 0) + 1
    seen = {}
    for i, (r, m) in enumerate(zip(recs, model)):
        if r['oc'] != 'ok':
            continue
        op = r['op']
        ocA, valA, ocW, ocB, valB = refs[op]
        cmp = []
        if ocA == 'ok':
            cmp.append(('first call on a fresh object', valA, mref[op][0]['tok']))
        if ocW == 'ok' and ocB == 'ok':
            cmp.append(('a fresh object after calc_k0()', valB, mref[op][1]['tok']))
        if op in seen:
            cmp.append(('its own earlier evaluation (call %d)' % seen[op][0], seen[op][1], seen[op][2]))
        else:
            seen[op] = (i, r['val'], m['tok'])
        for label, ref, reftok in cmp:
            ctx.evaluations += 1
            if not same_result(r['val'], ref):
                if m['tok'] != reftok:
                    ident = 'C20-kt_kr-builds-lam-without-offset'
                    note = ' [the model predicts it: %s vs %s]' % (m['tok'], reftok)
                else:
                    ident, note = None, ''
                if ctx.violation('call %d (%s) returns a result different from %s%s' % (i, op, label, note), replay,
                                 identity=ident):
                    return True
                dist['order_dependent_known'] += 1
            elif m['tok'] != reftok:
                dist['token_differs_numbers_equal'] += 1
    noks = sum(1 for r in recs if r['oc'] == 'ok')
    if (noks and noks < len(recs)) or len(distinct) < len(ops):
        ctx.nontrivial.add(panel_def_line(D) + '|' + ' '.join(ops))
    return False


def panel_lines(D, ops):
    dl = panel_def_line(D)
    lines = ['C20 panel %s | %s' % (dl, ' '.join(ops))]
    for op in dedup(ops):
        lines.append('C20 panel %s | %s' % (dl, op))
        lines.append('C20 panel %s | k0:0 %s' % (dl, op))
    return lines


def gen_panel_ops(rng, D):
    n = rng.choice([1, 2, 3, 4, 6, 8, 10, 12])
    pool = list(PANEL_OPS)
    mode = rng.random()
    if mode < 0.35:            # few distinct calls, many repeats
        pool = rng.sample(pool, rng.choice([2, 3, 4]))
    elif mode < 0.5:           # warm start
        ops = ['k0:0'] + [rng.choice(pool) for _ in range(n - 1)]
        return ops
    return [rng.choice(pool) for _ in range(n)]


PANEL_CORPUS = [
    # every call as first call on a plain flat panel; then after calc_k0
    (dict(model='none', rGiven=False, alphaGiven=False, stack=True, laminaprop=True, laminaprops=False, plyt=True,
          plyts=False, mu=True, y12='none', offsetZero=False, cte=False, betaGiven=True, mach='none', flow='x',
          forces=True), ['kM:0', 'kA:0', 'cA', 'uvw', 'strain', 'stress:0', 'fint:0', 'fext:0', 'kG:0', 'getSize',
                         'k0:0', 'kM:0']),
    (dict(model='none', rGiven=True, alphaGiven=False, stack=True, laminaprop=True, laminaprops=False, plyt=True,
          plyts=False, mu=True, y12='none', offsetZero=False, cte=True, betaGiven=False, mach='eq1', flow='x',
          forces=True), ['k0:0', 'kM:0', 'kA:0', 'kA:0', 'cA', 'uvw', 'strain', 'stress:0', 'fint:0', 'kT:0', 'lb',
                         'freq:1']),
    # order dependence through calc_kt_kr (laminate without offset)
    (dict(model='none', rGiven=False, alphaGiven=False, stack=True, laminaprop=True, laminaprops=False, plyt=True,
          plyts=False, mu=True, y12='none', offsetZero=False, cte=False, betaGiven=True, mach='none', flow='x',
          forces=False), ['ktkr', 'kG:0', 'k0:0', 'ktkr', 'kG:0']),
]


def corpus_def(d, rng):
    D = gen_panel_def(rng, plain=True)
    N = D['N']
    D = dict(d)
    D['N'] = N
    return D


def panel_lifecycle(ctx, hook=None, n=None):
    rng = ctx.rng
    n = n if n is not None else ctx.scale(120, 1200)
    cases = [(corpus_def(d, rng), ops) for d, ops in PANEL_CORPUS]
    for k in range(n):
        D = gen_panel_def(rng, plain=(k % 3 == 0))
        cases.append((D, gen_panel_ops(rng, D)))
    lines = []
    idx = []
    for D, ops in cases:
        l = panel_lines(D, ops)
        idx.append((len(lines), len(l)))
        lines += l
    replies = driver(lines, pid='C20')
    if len(replies) != len(lines) or any(r.startswith('err') for r in replies):
        raise RuntimeError('driver: %r' % [r for r in replies if r.startswith('err')][:3])
    dist = dict(outcomes={}, ops={}, fresh_ok=0, fresh_fail=0, fresh_fail_known={}, order_dependent_known=0,
                token_differs_numbers_equal=0, solver_failures=0, cases=len(cases))
    for (D, ops), (i0, k) in zip(cases, idx):
        if panel_case(ctx, D, ops, replies[i0:i0 + k], dist, hook):
            break
    ctx.cov['panel_distribution'] = dist
    ctx.sample(dict(definition=panel_def_line(cases[-1][0]), ops=cases[-1][1],
                    model_reply=replies[idx[-1][0]][:400]), limit=2)
    return dist


def correspondence(ctx):
    panel_lifecycle(ctx)


def search(ctx, reason):
    """implementation arm: the property predicates do not need the Lean side"""
    return False


def replay(ctx, data):
    r = data['replay']
    if r.get('kind') == 'panel':
        D, ops = r['definition'], r['ops']
        dist = dict(outcomes={}, ops={}, fresh_ok=0, fresh_fail=0, fresh_fail_known={}, order_dependent_known=0,
                    token_differs_numbers_equal=0, solver_failures=0, cases=1)
        replies = driver(panel_lines(D, ops), pid='C20')
        panel_case(ctx, D, ops, replies, dist)
        print(json.dumps(dist))
        for v in ctx.violations:
            print('VIOLATION', v['what'])
        for k, t in ctx.known_hits:
            print('KNOWN-FINDING', k)
        return 1 if ctx.violations else 0
    print('replay names no input:', data['what'])
    return 1
