"""C20 — results depend on the definition only, not on call history or thread count.

H: Model/Lifecycle.lean (hand-written state machine of the lazily derived attributes and of what every
public call reads / writes / raises) vs the real objects, wrapped so that every attribute read and write is
logged (subclass named exactly `Panel` with `__getattribute__/__setattr__` logging; nothing in /repo is touched).
For random definitions and random call sequences (length <= 12, repeated and permuted calls) the check compares,
call by call:   outcome class (ok / exception class), ordered set of attributes written, set of hidden attributes
read  (model vs implementation — the tie),   and — the property itself, evaluated on the implementation —

  * the RESULT of every successful call, bit for bit (np.array_equal; eigen-solutions of the ARPACK paths to 1e-8
    relative, they start from a random vector) against
      (A) the same call as FIRST call on a fresh identical object (when that succeeds) and
      (B) the same call on a fresh identical object after a single warm-up `calc_k0()` (when both succeed);
  * caller-supplied arrays (c, Fnxny/F, xs, ys, K, KG, M, fext) byte-checksummed before/after every call;
  * user-supplied definition attributes (stack, plyts, laminaprops, forces, ...) deep-checksummed after every call
    (only attributes listed in the model's write set may change);
  * thread clauses: uvw / strain / stress for out_num_cores = 1..16 with point counts that are not multiples of the
    core count, ConeCyl.calc_fint (compmech.integrate.integratev inside) for ni_num_cores = 1..16.

A disagreement between the numbers where the Lean model predicts *different* provenance tokens is the known
order dependence (calc_kt_kr); where the model predicts equal tokens it is a new violation.
PanelAssembly, StiffPanelBay and ConeCyl are driven the same way against their (coarser) models.
"""
import hashlib
import io
import os
import subprocess
import sys
import contextlib
import json
import re
import warnings

import numpy as np

from tools.common import driver, VERIF, SCRATCH, REPO

TRUSTED = [
    'Lean 4.33 kernel; axioms within {propext, Classical.choice, Quot.sound} (audited each run)',
    'hand-written life-cycle model lean/CompmechVerif/Model/Lifecycle.lean: equal to the code only on what the '
    'correspondence explored (outcome class, write footprint, hidden-attribute read footprint per call)',
    'numbers are not modelled: kernels are provenance tokens; numeric history independence is checked directly on '
    'the implementation against fresh-object references',
    'ARPACK (eigsh/eigs) start vectors are random: eigen-results of the sparse paths are compared to 1e-8 relative',
    'OpenMP scheduling / data races are outside the model; thread clauses are checked by execution for 1..16 threads',
]
ASSUMPTIONS = [
    'the definition is not edited between calls (re-definition of an existing object is outside C20)',
    'amplitude vectors have the size of the model; Mach-route definitions supply rho_air, V and speed_sound',
    'a given alphadeg is non-zero',
    'stack / plyts / laminaprops have consistent lengths',
    'plots are exercised with the Agg backend on Panel only',
]
RULE = ('definitions from one PRNG: model given/derived/bogus, flat/cylindrical/conical/inconsistent geometry, each of '
        'stack, laminaprop(s), plyt(s), mu present or missing, y1/y2 none/one/both, offset zero/non-zero, constant '
        'pre-loads, aerodynamic data by beta / Mach <1,=1,>1 / none, flow x/y/invalid, point forces; call sequences of '
        'length 1..12 over all public evaluation calls with repeats; non-trivial = at least one failing and one '
        'succeeding call, or a repeated successful call; distinct by (definition, sequence)')

sys.path.insert(0, REPO)
warnings.filterwarnings('ignore')

LP = (142.5e9, 8.7e9, 0.28, 5.1e9, 5.1e9, 5.1e9)
MODEL_NAMES = dict(plate='plate_clt_donnell_bardell', plateW='plate_clt_donnell_bardell_w',
                   cpanel='cpanel_clt_donnell_bardell', kpanel='kpanel_clt_donnell_bardell')
INPUT_HIDDEN = ['model', 'r', 'alpharad', 'plyts', 'laminaprops', 'lam', 'F', 'size', 'Mach', 'k0', 'kG0', 'kM', 'kA']
WRITE_ATTRS = ['model', 'r', 'alpharad', 'plyts', 'laminaprops', 'lam', 'F', 'size', 'Mach', 'k0', 'kG0', 'kT', 'kM',
               'kA', 'cA', 'eigvals', 'eigvecs', 'u', 'v', 'w', 'phix', 'phiy', 'Xs', 'Ys', 'increments']
SOLVER_TAIL = {'lb': ['eigvals', 'eigvecs'], 'freq': ['eigvals', 'eigvecs'], 'static': ['increments']}
PANEL_OPS = ['getSize', 'k0:0', 'k0:1', 'kL:0', 'kL:1', 'kG0:0', 'kG0:1', 'kG:0', 'kG:1', 'kT:0', 'kT:1', 'kM:0',
             'kM:1', 'kA:0', 'kA:1', 'cA', 'lb', 'freq:1', 'freq:2', 'freq:3', 'freq:4', 'fext:0', 'fext:1', 'fint:0',
             'fint:1', 'static', 'uvw', 'strain', 'stress:0', 'stress:1', 'ktkr']


@contextlib.contextmanager
def quiet():
    buf = io.StringIO()
    with contextlib.redirect_stdout(buf):
        with np.errstate(all='ignore'):
            yield


# ------------------------------------------------------------------------------------------ recording wrapper
_REC = {}


def rec_panel_class():
    """subclass of the real Panel, *named* Panel (the kernels test the class name), logging attribute access"""
    if 'Panel' in _REC:
        return _REC['Panel']
    import compmech.panel._panel as pm
    Real = pm.Panel
    methods = set(k for k in dir(Real) if callable(getattr(Real, k, None)))

    class Panel(Real):
        def __init__(self, *a, **k):
            object.__setattr__(self, '_log', None)
            Real.__init__(self, *a, **k)

        def __setattr__(self, k, v):
            l = object.__getattribute__(self, '_log')
            if l is not None:
                l.append(('w', k))
            object.__setattr__(self, k, v)

        def __getattribute__(self, k):
            if k[0] != '_' and k not in methods:
                l = object.__getattribute__(self, '_log')
                if l is not None:
                    l.append(('r', k))
            return object.__getattribute__(self, k)
    Panel.__qualname__ = 'Panel'
    _REC['Panel'] = Panel
    _REC['RealPanel'] = Real
    return Panel


def logged(obj, f):
    """run f(obj) with logging on; returns (outcome, value-or-exception, log)"""
    object.__setattr__(obj, '_log', [])
    try:
        with quiet():
            val = f(obj)
        oc = 'ok'
    except Exception as e:                                 # noqa
        val = e
        oc = type(e).__name__
        if oc == 'UnboundLocalError':
            oc = 'NameError'
    log = object.__getattribute__(obj, '_log')
    object.__setattr__(obj, '_log', None)
    return oc, val, log


def dedup(seq):
    out = []
    for x in seq:
        if x not in out:
            out.append(x)
    return out


# ------------------------------------------------------------------------------------------ panel definitions
def gen_panel_def(rng, plain=False):
    """abstract definition (the fields of Lifecycle.Panel.Def) + concrete numbers"""
    D = {}
    u = rng.random()
    geo = rng.choice(['flat', 'flat', 'cyl', 'cone', 'bad']) if not plain else rng.choice(['flat', 'cyl', 'cone'])
    if rng.random() < 0.08 and not plain:
        geo = 'bad'
    D['rGiven'] = geo in ('cyl', 'cone')
    D['alphaGiven'] = geo in ('cone', 'bad')
    if plain or u < 0.6:
        D['model'] = 'none'
    elif u < 0.93:
        # explicit model, consistent with the geometry
        D['model'] = dict(flat=rng.choice(['plate', 'plateW']), cyl='cpanel', cone='kpanel', bad='plate')[geo]
        if geo == 'bad':
            D['alphaGiven'] = False
    else:
        D['model'] = 'bogus'
    pm = 0.0 if plain else 0.07
    D['stack'] = rng.random() >= pm
    D['laminaprop'] = rng.random() >= pm
    D['laminaprops'] = rng.random() < 0.3
    D['plyt'] = rng.random() >= pm
    D['plyts'] = rng.random() < 0.3
    D['mu'] = rng.random() >= (0.0 if plain else 0.15)
    D['y12'] = rng.choice(['none', 'none', 'none', 'one', 'both'])
    D['offsetZero'] = rng.random() < 0.5
    D['cte'] = rng.random() < 0.25
    aero = rng.choice(['beta', 'beta', 'none', 'lt1', 'eq1', 'gt1'])
    D['betaGiven'] = aero == 'beta'
    D['mach'] = 'none' if aero in ('beta', 'none') else aero
    D['flow'] = rng.choice(['x', 'x', 'y', 'bad']) if not plain else rng.choice(['x', 'y'])
    D['forces'] = rng.random() < 0.6
    # numbers
    N = dict(a=rng.uniform(0.5, 2.0), b=rng.uniform(0.4, 1.5), m=rng.choice([2, 3, 4]), n=rng.choice([2, 3, 4]),
             r=rng.uniform(1.0, 4.0), alphadeg=rng.uniform(1., 15.), nplies=rng.choice([1, 2, 3, 4]),
             plyt=rng.choice([1e-3, 0.125e-3, 2e-3]), offset=rng.choice([-1, 1]) * rng.uniform(0.2e-3, 3e-3),
             mu=rng.uniform(1e3, 3e3), Nxx=-rng.uniform(0.5, 5.), Nyy=rng.uniform(-1, 1), Nxy=rng.uniform(-1, 1),
             cte=[rng.uniform(-2, 2), 0., rng.uniform(-1, 1)], beta=rng.uniform(0.5, 20), gamma=rng.choice([None, 0.7]),
             machgt=rng.uniform(1.2, 3.0), seed=rng.randrange(1 << 30),
             bc=rng.choice(['ss', 'ss', 'cc', 'free']), neig=rng.choice([1, 2]), cores=rng.choice([1, 2, 3, 5, 8]))
    N['angles'] = [rng.choice([0, 45, -45, 90, 30]) for _ in range(N['nplies'])]
    N['y1'], N['y2'] = sorted([rng.uniform(0.05, 0.45) * N['b'], rng.uniform(0.55, 0.95) * N['b']])
    N['which_y'] = rng.choice(['y1', 'y2'])
    N['forcelist'] = [[rng.uniform(0.1, 0.9) * N['a'], rng.uniform(0.1, 0.9) * N['b'], rng.uniform(-1, 1),
                       rng.uniform(-1, 1), rng.uniform(-5, 5), rng.random() < 0.5] for _ in range(rng.choice([1, 2]))]
    D['N'] = N
    return D


def panel_def_line(D):
    b = lambda x: '1' if x else '0'
    return ' '.join([D['model'], b(D['rGiven']), b(D['alphaGiven']), b(D['stack']), b(D['laminaprop']),
                     b(D['laminaprops']), b(D['plyt']), b(D['plyts']), b(D['mu']), D['y12'], b(D['offsetZero']),
                     b(D['cte']), b(D['betaGiven']), D['mach'], D['flow'], b(D['forces'])])


def build_panel(D, cls=None):
    """a freshly defined object for the definition D"""
    cls = cls or rec_panel_class()
    N = D['N']
    kw = dict(a=N['a'], b=N['b'], m=N['m'], n=N['n'])
    if D['rGiven']:
        kw['r'] = N['r']
    if D['alphaGiven']:
        kw['alphadeg'] = N['alphadeg']
    if D['model'] in MODEL_NAMES:
        kw['model'] = MODEL_NAMES[D['model']]
    elif D['model'] == 'bogus':
        kw['model'] = 'bogus_model'
    if D['stack']:
        kw['stack'] = list(N['angles'])
    if D['laminaprop']:
        kw['laminaprop'] = LP
    if D['laminaprops']:
        kw['laminaprops'] = [LP for _ in N['angles']]
    if D['plyt']:
        kw['plyt'] = N['plyt']
    if D['plyts']:
        kw['plyts'] = [N['plyt'] * (1 + 0.1 * i) for i in range(len(N['angles']))]
    if D['mu']:
        kw['mu'] = N['mu']
    if D['y12'] == 'both':
        kw['y1'], kw['y2'] = N['y1'], N['y2']
    elif D['y12'] == 'one':
        kw[N['which_y']] = N[N['which_y']]
    kw['offset'] = 0. if D['offsetZero'] else N['offset']
    p = cls(**kw)
    p.Nxx, p.Nyy, p.Nxy = N['Nxx'], N['Nyy'], N['Nxy']
    if D['cte']:
        p.Nxx_cte, p.Nyy_cte, p.Nxy_cte = N['cte']
    if D['betaGiven']:
        p.beta = N['beta']
        p.gamma = N['gamma']
    if D['mach'] != 'none':
        p.Mach = dict(lt1=0.8, eq1=1.0, gt1=N['machgt'])[D['mach']]
        p.rho_air = 1.1
        p.speed_sound = 340.
        p.V = 340. * max(p.Mach, 1.0)
    p.flow = dict(x='x', y='Y', bad='z')[D['flow']]
    if D['forces']:
        for x, y, fx, fy, fz, cte in N['forcelist']:
            p.add_force(x, y, fx, fy, fz, cte=cte)
    if N['bc'] == 'cc':
        p.w1rx = p.w2rx = p.w1ry = p.w2ry = 0.
    elif N['bc'] == 'free':
        p.u2tx = p.v2tx = p.w2tx = 1.
        p.u2ty = p.v2ty = p.w2ty = 1.
    p.num_eigvalues = N['neig']
    p.out_num_cores = N['cores']
    return p


def actual_model(D):
    """canonical model (mirror of cModel) -> key of MODEL_NAMES or None"""
    if D['model'] in MODEL_NAMES:
        return D['model']
    if D['model'] == 'bogus':
        return None
    return {(False, False): 'plate', (True, False): 'cpanel', (True, True): 'kpanel', (False, True): None}[
        (D['rGiven'], D['alphaGiven'])]


def panel_size(D):
    N = D['N']
    return (1 if actual_model(D) == 'plateW' else 3) * N['m'] * N['n']


class Args(object):
    """caller-supplied arrays for the calls of one case; identical arrays are regenerated for the reference objects"""

    def __init__(self, D):
        rs = np.random.RandomState(D['N']['seed'])
        size = panel_size(D)
        self.c = rs.uniform(-1, 1, size) * 1e-3
        self.c2 = rs.uniform(-1, 1, size) * 1e-3
        A = rs.uniform(-1, 1, (6, 6))
        self.F = (A + A.T) * 1e5 + np.diag([5e7, 5e7, 2e7, 40., 40., 15.])
        npts = rs.choice([3, 5, 7, 11, 13])
        self.xs = rs.uniform(0, D['N']['a'], npts)
        self.ys = rs.uniform(0, D['N']['b'], npts)

    def arrays(self):
        return dict(c=self.c, c2=self.c2, F=self.F, xs=self.xs, ys=self.ys)


def digest(x):
    """deep, order-preserving checksum of python / numpy / scipy values"""
    h = hashlib.sha1()

    def go(v):
        if v is None:
            h.update(b'N')
        elif isinstance(v, np.ndarray):
            h.update(str(v.dtype).encode() + str(v.shape).encode())
            h.update(np.ascontiguousarray(v).tobytes())
        elif hasattr(v, 'tocoo') and hasattr(v, 'shape'):
            m = v.tocsr().copy()
            m.sum_duplicates()
            m.sort_indices()
            go(m.indptr), go(m.indices), go(m.data)
        elif isinstance(v, (list, tuple)):
            h.update(b'L%d' % len(v))
            for e in v:
                go(e)
        elif isinstance(v, dict):
            for k in sorted(v):
                h.update(str(k).encode())
                go(v[k])
        elif isinstance(v, (int, float, complex, str, bool, np.generic)):
            h.update(repr(v).encode())
        else:
            h.update(repr(type(v)).encode())
    go(x)
    return h.hexdigest()


DEF_ATTRS = ['a', 'b', 'alphadeg', 'stack', 'plyt', 'laminaprop', 'offset', 'y1', 'y2', 'm', 'n', 'mu', 'Nxx', 'Nyy',
             'Nxy', 'Nxx_cte', 'Nyy_cte', 'Nxy_cte', 'forces', 'forces_inc', 'beta', 'gamma', 'aeromu', 'rho_air',
             'speed_sound', 'V', 'flow', 'nx', 'ny', 'num_eigvalues', 'out_num_cores', 'u1tx', 'u1rx', 'u2tx', 'u2rx',
             'v1tx', 'v1rx', 'v2tx', 'v2rx', 'w1tx', 'w1rx', 'w2tx', 'w2rx', 'u1ty', 'u1ry', 'u2ty', 'u2ry', 'v1ty',
             'v1ry', 'v2ty', 'v2ry', 'w1ty', 'w1ry', 'w2ty', 'w2ry', 'fsdt_shear_correction', 'force_orthotropic_laminate',
             'ni_method', 'c0', 'name', 'group', 'x0', 'y0', 'row_start', 'col_start']


def def_digest(p, D):
    d = p.__dict__
    vals = [d.get(k) for k in DEF_ATTRS]
    # user-supplied lists keep their identity when given
    if D['plyts']:
        vals.append(d.get('plyts'))
    if D['laminaprops']:
        vals.append(d.get('laminaprops'))
    if D['rGiven']:
        vals.append(d.get('r'))
    if D['model'] != 'none':
        vals.append(d.get('model'))
    return digest(vals)


def panel_call(op, A):
    """op token -> function of the object returning the *result* of the public call"""
    name, _, flag = op.partition(':')
    f = flag == '1'
    c, F, xs, ys = A.c, A.F, A.xs, A.ys

    def size_of(p):
        return len(c)
    if name == 'getSize':
        return lambda p: p.get_size()
    if name == 'k0':
        return lambda p: p.calc_k0(silent=True, **(dict(size=size_of(p)) if f else {}))
    if name == 'kL':
        return lambda p: p.calc_k0(silent=True, c=c, **(dict(Fnxny=F) if f else {}))
    if name == 'kG0':
        return lambda p: p.calc_kG0(silent=True, **(dict(size=size_of(p)) if f else {}))
    if name == 'kG':
        return lambda p: p.calc_kG0(silent=True, c=c, **(dict(Fnxny=F) if f else {}))
    if name == 'kT':
        return lambda p: p.calc_kT(silent=True, c=c, **(dict(Fnxny=F) if f else {}))
    if name == 'kM':
        return lambda p: p.calc_kM(silent=True, **(dict(size=size_of(p)) if f else {}))
    if name == 'kA':
        return lambda p: p.calc_kA(silent=True, **(dict(size=size_of(p)) if f else {}))
    if name == 'cA':
        return lambda p: (p.calc_cA(0.37, silent=True), p.__dict__['cA'])[1]
    if name == 'lb':
        return lambda p: (p.lb(silent=True, sparse_solver=False), (p.__dict__['eigvals'], p.__dict__['eigvecs']))[1]
    if name == 'freq':
        at = int(flag)
        return lambda p: (p.freq(atype=at, silent=True, sparse_solver=False),
                          (p.__dict__['eigvals'], p.__dict__['eigvecs']))[1]
    if name == 'fext':
        return lambda p: p.calc_fext(silent=True, **(dict(size=size_of(p)) if f else {}))
    if name == 'fint':
        return lambda p: p.calc_fint(c, silent=True, **(dict(Fnxny=F) if f else {}))
    if name == 'static':
        return lambda p: [x.copy() for x in p.static(silent=True)]
    if name == 'uvw':
        return lambda p: tuple(np.array(x) for x in p.uvw(c, xs=xs, ys=ys))
    if name == 'strain':
        return lambda p: p.strain(c, xs=xs, ys=ys)
    if name == 'stress':
        return lambda p: p.stress(c, xs=xs, ys=ys, **(dict(F=F) if f else {}))
    if name == 'ktkr':
        def go(p):
            from compmech.panel.connections import calc_kt_kr
            return calc_kt_kr(p, p, 'ycte')
        return go
    raise ValueError(op)


def same_result(a, b, tol=0.0):
    """bit-for-bit equality of results (dense / sparse / tuples / dicts); tol>0: relative, for ARPACK outputs"""
    if type(a) != type(b) and not (np.isscalar(a) and np.isscalar(b)):
        return False
    if isinstance(a, (list, tuple)):
        return len(a) == len(b) and all(same_result(x, y, tol) for x, y in zip(a, b))
    if isinstance(a, dict):
        return sorted(a) == sorted(b) and all(same_result(a[k], b[k], tol) for k in a)
    if hasattr(a, 'toarray'):
        if a.shape != b.shape:
            return False
        a, b = a.toarray(), b.toarray()
    if a is None:
        return b is None
    a, b = np.asarray(a), np.asarray(b)
    if a.shape != b.shape:
        return False
    if tol == 0.0:
        return bool(np.array_equal(a, b, equal_nan=True))
    s = max(np.abs(a).max() if a.size else 0., 1e-300)
    return bool(np.all(np.abs(a - b) <= tol * s))


def parse_panel_reply(rep):
    out = []
    for f in rep.split(' ; '):
        oc, tok, r, w = [x.strip() for x in f.split('#')]
        out.append(dict(oc=oc, tok=tok, R=[x for x in r[2:].split(',') if x], W=[x for x in w[2:].split(',') if x]))
    return out


def run_panel_sequence(D, ops, A, hook=None):
    """run the sequence on one freshly defined recorded object; returns per-op records"""
    p = build_panel(D)
    if hook:
        hook(p)
    recs = []
    for op in ops:
        arrs = A.arrays()
        before = {k: digest(v) for k, v in arrs.items()}
        dd = def_digest(p, D)
        oc, val, log = logged(p, panel_call(op, A))
        W = dedup([k for t, k in log if t == 'w'])
        R = set(k for t, k in log if t == 'r' and k in INPUT_HIDDEN)
        mutated = [k for k, v in arrs.items() if digest(v) != before[k]]
        recs.append(dict(op=op, oc=oc, val=val, W=W, R=R, mutated=mutated, def_changed=def_digest(p, D) != dd,
                         err=str(val)[:200] if oc != 'ok' else ''))
    return recs, p


def panel_case(ctx, D, ops, replies, dist, hook=None):
    """compare one case; `replies` = model replies for [ops] + for each distinct op: [op], [k0:0, op].
    returns True when a violation was recorded that stops the run"""
    A = Args(D)
    replay = dict(kind='panel', definition={k: v for k, v in D.items()}, ops=ops)
    recs, p = run_panel_sequence(D, ops, A, hook)
    model = parse_panel_reply(replies[0])
    distinct = dedup(ops)
    mref = {}
    for k, op in enumerate(distinct):
        mref[op] = (parse_panel_reply(replies[1 + 2 * k])[0], parse_panel_reply(replies[2 + 2 * k])[1])
    ctx.evaluations += len(ops)
    # ---- (1) the tie: model vs implementation, call by call
    for i, (r, m) in enumerate(zip(recs, model)):
        dist['outcomes'][r['oc']] = dist['outcomes'].get(r['oc'], 0) + 1
        dist['ops'][r['op'].split(':')[0]] = dist['ops'].get(r['op'].split(':')[0], 0) + 1
        what = None
        name = r['op'].split(':')[0]
        if (r['oc'] != m['oc'] and m['oc'] == 'ok' and name in SOLVER_TAIL and r['R'] == set(m['R'])
                and r['W'] == [w for w in m['W'] if w not in SOLVER_TAIL[name]]):
            # every modelled statement up to the external eigen / linear solver ran; the solver itself raised
            # (singular / too few free dofs: C05/C06 territory) - not a life-cycle disagreement
            dist['solver_failures'] += 1
            continue
        if r['oc'] != m['oc']:
            what = 'outcome: model %s, implementation %s (%s)' % (m['oc'], r['oc'], r['err'])
        elif r['W'] != m['W']:
            extra = [w for w in r['W'] if w not in m['W']]
            what = 'attributes written: model %s, implementation %s' % (m['W'], r['W'])
            if extra:
                what += ' — the call writes %s, which no modelled statement of this call does' % extra
        elif r['R'] != set(m['R']):
            what = 'hidden attributes read: model %s, implementation %s' % (sorted(m['R']), sorted(r['R']))
        if what:
            if ctx.violation('call %d (%s) of the sequence: %s; definition-only results are proved for the model, so the '
                             'theorem no longer speaks about this code path' % (i, r['op'], what), replay,
                             found_input=True):
                return True
        if r['mutated']:
            if ctx.violation('call %d (%s) modified the caller-supplied array(s) %s in place' % (i, r['op'], r['mutated']),
                             replay):
                return True
        if r['def_changed'] and 'Mach' not in m['W']:
            if ctx.violation('call %d (%s) changed a user-supplied definition attribute' % (i, r['op']), replay):
                return True
    # ---- (2) the property on the implementation: results equal to the fresh-object references
    refs = {}
    for op in distinct:
        pa = build_panel(D)
        if hook:
            hook(pa)
        ocA, valA, _ = logged(pa, panel_call(op, A))
        pb = build_panel(D)
        if hook:
            hook(pb)
        ocW, _, _ = logged(pb, panel_call('k0:0', A))
        ocB, valB, _ = logged(pb, panel_call(op, A))
        refs[op] = (ocA, valA, ocW, ocB, valB)
        dist['fresh_ok' if ocA == 'ok' else 'fresh_fail'] += 1
        # fresh-object failures of the unchanged tree (known finding): op fails first, succeeds after calc_k0()
        if ocA != 'ok' and ocW == 'ok' and ocB == 'ok':
            ident = 'C20-fresh-panel-no-rebuild'
            if ctx.violation('%s cannot be requested first on a freshly defined Panel (%s: %s) although it succeeds after '
                             'calc_k0()' % (op, ocA, str(valA)[:80]), dict(replay, ops=[op]), identity=ident):
                return True
            dist['fresh_fail_known'][op] = dist['fresh_fail_known'].get(op, 0) + 1
    seen = {}
    for i, (r, m) in enumerate(zip(recs, model)):
        if r['oc'] != 'ok':
            continue
        op = r['op']
        ocA, valA, ocW, ocB, valB = refs[op]
        cmp = []
        if ocA == 'ok':
            cmp.append(('first call on a fresh object', valA, mref[op][0]['tok']))
        if ocW == 'ok' and ocB == 'ok':
            cmp.append(('a fresh object after calc_k0()', valB, mref[op][1]['tok']))
        if op in seen:
            cmp.append(('its own earlier evaluation (call %d)' % seen[op][0], seen[op][1], seen[op][2]))
        else:
            seen[op] = (i, r['val'], m['tok'])
        for label, ref, reftok in cmp:
            ctx.evaluations += 1
            if not same_result(r['val'], ref):
                if m['tok'] != reftok:
                    ident = 'C20-kt_kr-builds-lam-without-offset'
                    note = ' [the model predicts it: %s vs %s]' % (m['tok'], reftok)
                else:
                    ident, note = None, ''
                if ctx.violation('call %d (%s) returns a result different from %s%s' % (i, op, label, note), replay,
                                 identity=ident):
                    return True
                dist['order_dependent_known'] += 1
            elif m['tok'] != reftok:
                dist['token_differs_numbers_equal'] += 1
    noks = sum(1 for r in recs if r['oc'] == 'ok')
    if (noks and noks < len(recs)) or len(distinct) < len(ops):
        ctx.nontrivial.add(panel_def_line(D) + '|' + ' '.join(ops))
    return False


def panel_lines(D, ops):
    dl = panel_def_line(D)
    lines = ['C20 panel %s | %s' % (dl, ' '.join(ops))]
    for op in dedup(ops):
        lines.append('C20 panel %s | %s' % (dl, op))
        lines.append('C20 panel %s | k0:0 %s' % (dl, op))
    return lines


def gen_panel_ops(rng, D):
    n = rng.choice([1, 2, 3, 4, 6, 8, 10, 12])
    pool = list(PANEL_OPS)
    mode = rng.random()
    if mode < 0.35:            # few distinct calls, many repeats
        pool = rng.sample(pool, rng.choice([2, 3, 4]))
    elif mode < 0.5:           # warm start
        ops = ['k0:0'] + [rng.choice(pool) for _ in range(n - 1)]
        return ops
    return [rng.choice(pool) for _ in range(n)]


PANEL_CORPUS = [
    # every call as first call on a plain flat panel; then after calc_k0
    (dict(model='none', rGiven=False, alphaGiven=False, stack=True, laminaprop=True, laminaprops=False, plyt=True,
          plyts=False, mu=True, y12='none', offsetZero=False, cte=False, betaGiven=True, mach='none', flow='x',
          forces=True), ['kM:0', 'kA:0', 'cA', 'uvw', 'strain', 'stress:0', 'fint:0', 'fext:0', 'kG:0', 'getSize',
                         'k0:0', 'kM:0']),
    (dict(model='none', rGiven=True, alphaGiven=False, stack=True, laminaprop=True, laminaprops=False, plyt=True,
          plyts=False, mu=True, y12='none', offsetZero=False, cte=True, betaGiven=False, mach='eq1', flow='x',
          forces=True), ['k0:0', 'kM:0', 'kA:0', 'kA:0', 'cA', 'uvw', 'strain', 'stress:0', 'fint:0', 'kT:0', 'lb',
                         'freq:1']),
    # order dependence through calc_kt_kr (laminate without offset)
    (dict(model='none', rGiven=False, alphaGiven=False, stack=True, laminaprop=True, laminaprops=False, plyt=True,
          plyts=False, mu=True, y12='none', offsetZero=False, cte=False, betaGiven=True, mach='none', flow='x',
          forces=False), ['ktkr', 'kG:0', 'k0:0', 'ktkr', 'kG:0']),
]


def corpus_def(d, rng):
    D = gen_panel_def(rng, plain=True)
    N = D['N']
    D = dict(d)
    D['N'] = N
    return D


def panel_lifecycle(ctx, hook=None, n=None):
    rng = ctx.rng
    n = n if n is not None else ctx.scale(120, 1200)
    cases = [(corpus_def(d, rng), ops) for d, ops in PANEL_CORPUS]
    for k in range(n):
        D = gen_panel_def(rng, plain=(k % 3 == 0))
        cases.append((D, gen_panel_ops(rng, D)))
    lines = []
    idx = []
    for D, ops in cases:
        l = panel_lines(D, ops)
        idx.append((len(lines), len(l)))
        lines += l
    replies = driver(lines, pid='C20')
    if len(replies) != len(lines) or any(r.startswith('err') for r in replies):
        raise RuntimeError('driver: %r' % [r for r in replies if r.startswith('err')][:3])
    dist = dict(outcomes={}, ops={}, fresh_ok=0, fresh_fail=0, fresh_fail_known={}, order_dependent_known=0,
                token_differs_numbers_equal=0, solver_failures=0, cases=len(cases))
    for (D, ops), (i0, k) in zip(cases, idx):
        if panel_case(ctx, D, ops, replies[i0:i0 + k], dist, hook):
            break
    ctx.cov['panel_distribution'] = dist
    ctx.sample(dict(definition=panel_def_line(cases[-1][0]), ops=cases[-1][1],
                    model_reply=replies[idx[-1][0]][:400]), limit=2)
    return dist


# ------------------------------------------------------------------------------------------ PanelAssembly
# k0:<conn>[:<fin>] / conn:<conn>[:<fin>] — <conn>: 0 no `conn=` argument, 1 `conn=` ANOTHER list, 2 `conn=asm.conn` (the own list object
# itself: for the model the same as 0); <fin>: the `finalize=` argument (default 1).  calc_k0(conn=B) / get_k0_conn(conn=B, finalize=False) ...
# must neither use nor fill the cache `asm.k0_conn` (Lean: Asm.getConn, theorems asm_conn_matches_request, asm_cache_own_finalized)
ASM_OPS = ['size', 'k0:0', 'k0:1', 'k0:2', 'k0:0:0', 'k0:1:0', 'kG0', 'kG', 'kM', 'kT', 'fint', 'fext', 'conn:0', 'conn:1', 'conn:2',
           'conn:0:0', 'conn:1:0', 'uvw', 'strain', 'stress']


def gen_asm_def(rng):
    geo = rng.choice(['flat', 'flat', 'cyl'])
    Ds = []
    for k in range(2):
        D = gen_panel_def(rng, plain=True)
        D.update(model='none', rGiven=geo == 'cyl', alphaGiven=False, y12='none', flow='x',
                 mu=rng.random() < 0.9, offsetZero=rng.random() < 0.4)
        Ds.append(D)
    Ds[1]['N']['a'] = Ds[0]['N']['a']
    Ds[1]['N']['r'] = Ds[0]['N']['r']
    return dict(d1=Ds[0], d2=Ds[1], connGiven=rng.random() < 0.85)


def build_asm(AD):
    from compmech.panel.assembly import PanelAssembly
    ps = [build_panel(AD['d1']), build_panel(AD['d2'])]
    for i, p in enumerate(ps):
        p.group = 'g'
        p.x0 = 0.
        p.y0 = 0. if i == 0 else ps[0].b
    conn = [dict(p1=ps[0], p2=ps[1], func='SSycte', ycte1=ps[0].b, ycte2=0.)] if AD['connGiven'] else None
    asm = PanelAssembly(ps, conn=conn)
    other = [dict(p1=ps[0], p2=ps[1], func='SSycte', ycte1=ps[0].b * 0.5, ycte2=ps[1].b * 0.25)]
    return asm, ps, other


def asm_size(AD):
    return sum(3 * D['N']['m'] * D['N']['n'] for D in (AD['d1'], AD['d2']))


def asm_call(op, c, other):
    name, _, flag = op.partition(':')
    flag, _, fin = flag.partition(':')

    def conn_kw(a):
        kw = dict(conn=other) if flag == '1' else dict(conn=a.conn) if flag == '2' else {}
        if fin == '0':
            kw['finalize'] = False
        return kw
    if name == 'size':
        return lambda a: a.get_size()
    if name == 'k0':
        return lambda a: a.calc_k0(silent=True, **conn_kw(a))
    if name == 'kG0':
        return lambda a: a.calc_kG0(silent=True)
    if name == 'kG':
        return lambda a: a.calc_kG0(c=c, silent=True)
    if name == 'kM':
        return lambda a: a.calc_kM(silent=True)
    if name == 'kT':
        return lambda a: a.calc_kT(c=c, silent=True)
    if name == 'fint':
        return lambda a: a.calc_fint(c, silent=True)
    if name == 'fext':
        return lambda a: a.calc_fext(silent=True)
    if name == 'conn':
        return lambda a: a.get_k0_conn(**conn_kw(a))
    if name == 'uvw':
        return lambda a: a.uvw(c, 'g', gridx=3, gridy=4)
    if name == 'strain':
        return lambda a: a.strain(c, 'g', gridx=3, gridy=4)
    if name == 'stress':
        return lambda a: a.stress(c, 'g', gridx=3, gridy=4)
    raise ValueError(op)


def run_asm_sequence(AD, ops, c):
    asm, ps, other = build_asm(AD)
    recs = []
    for op in ops:
        cd = digest(c)
        dd = [def_digest(p, D) for p, D in zip(ps, (AD['d1'], AD['d2']))]
        for p in ps:
            object.__setattr__(p, '_log', [])
        try:
            with quiet():
                val = asm_call(op, c, other)(asm)
            oc = 'ok'
        except Exception as e:                           # noqa
            val, oc = e, type(e).__name__
        logs = [object.__getattribute__(p, '_log') for p in ps]
        for p in ps:
            object.__setattr__(p, '_log', None)
        recs.append(dict(op=op, oc=oc, val=val, err=str(val)[:160] if oc != 'ok' else '',
                         W=[dedup([k for t, k in l if t == 'w' and k in WRITE_ATTRS]) for l in logs],
                         R=[set(k for t, k in l if t == 'r' and k in INPUT_HIDDEN) for l in logs],
                         mutated=digest(c) != cd,
                         def_changed=[def_digest(p, D) != d0 for p, D, d0 in zip(ps, (AD['d1'], AD['d2']), dd)]))
    return recs


def parse_asm_reply(rep):
    out = []
    for f in rep.split(' ; '):
        parts = [x.strip() for x in f.split('#')]
        oc, tok = parts[0], parts[1]
        g = lambda s: [x for x in s.split('=', 1)[1].split(',') if x]
        out.append(dict(oc=oc, tok=tok, R=[g(parts[2]), g(parts[4])], W=[g(parts[3]), g(parts[5])]))
    return out


def asm_lines(AD, ops):
    dl = '%s / %s / %d' % (panel_def_line(AD['d1']), panel_def_line(AD['d2']), AD['connGiven'])
    lines = ['C20 asm %s | %s' % (dl, ' '.join(ops))]
    for op in dedup(ops):
        lines.append('C20 asm %s | %s' % (dl, op))
        lines.append('C20 asm %s | k0:0 %s' % (dl, op))
    return lines


def classify_tokens(t1, t2):
    """identity of the known order dependence the model predicts for two different result tokens"""
    head = lambda t: re.findall(r'(own|other):(sym|raw)\{', t)
    if head(t1) != head(t2):
        # which list / which finalize flag: the repaired model never predicts this for one and the same call (theorem
        # asm_conn_matches_request), so this identity is a 'fixed' entry and the disagreement is reported
        return 'C20-asm-k0_conn-cache-ignores-conn'
    return 'C20-kt_kr-builds-lam-without-offset'


def asm_case(ctx, AD, ops, replies, dist):
    rs = np.random.RandomState(AD['d1']['N']['seed'])
    c = rs.uniform(-1, 1, asm_size(AD)) * 1e-3
    replay = dict(kind='asm', definition=AD, ops=ops)
    recs = run_asm_sequence(AD, ops, c)
    model = parse_asm_reply(replies[0])
    distinct = dedup(ops)
    mref = {op: (parse_asm_reply(replies[1 + 2 * k])[0], parse_asm_reply(replies[2 + 2 * k])[1])
            for k, op in enumerate(distinct)}
    ctx.evaluations += len(ops)
    tie_bad = None          # first disagreement model / implementation; reported after the property itself was evaluated on the sequence
    for i, (r, m) in enumerate(zip(recs, model)):
        dist['outcomes'][r['oc']] = dist['outcomes'].get(r['oc'], 0) + 1
        what = None
        if r['oc'] != m['oc']:
            what = 'outcome: model %s, implementation %s (%s)' % (m['oc'], r['oc'], r['err'])
        elif r['W'] != m['W']:
            what = 'attributes written per panel: model %s, implementation %s' % (m['W'], r['W'])
        elif r['R'] != [set(x) for x in m['R']]:
            what = 'hidden attributes read per panel: model %s, implementation %s' % (
                [sorted(x) for x in m['R']], [sorted(x) for x in r['R']])
        if what and tie_bad is None:
            tie_bad = 'PanelAssembly call %d (%s): %s' % (i, r['op'], what)
        if r['mutated'] and ctx.violation('PanelAssembly call %d (%s) modified the caller-supplied c' % (i, r['op']),
                                          replay):
            return True
        if any(r['def_changed']) and ctx.violation('PanelAssembly call %d (%s) changed a user-supplied panel '
                                                   'definition attribute' % (i, r['op']), replay):
            return True
        if r['oc'] == 'ok' and r['op'].startswith('conn') and not r['op'].endswith(':0:0') and not r['op'].endswith(':1:0'):
            # a finalized connection matrix is symmetric whatever was asked for before (un-symmetrised sums are upper-heavy)
            ctx.evaluations += 1
            k = r['val'].toarray()
            if not np.array_equal(k, k.T) and ctx.violation(
                    'PanelAssembly call %d (%s): get_k0_conn with finalize=True returned a matrix that is not symmetric (max |K - K^T| = '
                    '%.3e of max |K| = %.3e) after the calls %s' % (i, r['op'], np.abs(k - k.T).max(), np.abs(k).max(), ops[:i]), replay):
                return True
    refs = {}
    for op in distinct:
        ra = run_asm_sequence(AD, [op], c)[0]
        rb = run_asm_sequence(AD, ['k0:0', op], c)
        refs[op] = (ra, rb[0], rb[1])
        if ra['oc'] != 'ok' and rb[0]['oc'] == 'ok' and rb[1]['oc'] == 'ok':
            if ctx.violation('PanelAssembly: %s cannot be requested first (%s: %s) although it succeeds after calc_k0()'
                             % (op, ra['oc'], ra['err'][:60]), dict(replay, ops=[op]),
                             identity='C20-fresh-panel-no-rebuild'):
                return True
            dist['fresh_fail_known'][op] = dist['fresh_fail_known'].get(op, 0) + 1
    seen = {}
    for i, (r, m) in enumerate(zip(recs, model)):
        if r['oc'] != 'ok':
            continue
        op = r['op']
        ra, rw, rb = refs[op]
        cmp = []
        if ra['oc'] == 'ok':
            cmp.append(('first call on a fresh assembly', ra['val'], mref[op][0]['tok']))
        if rw['oc'] == 'ok' and rb['oc'] == 'ok':
            cmp.append(('a fresh assembly after calc_k0()', rb['val'], mref[op][1]['tok']))
        if op in seen:
            cmp.append(('its own earlier evaluation (call %d)' % seen[op][0], seen[op][1], seen[op][2]))
        else:
            seen[op] = (i, r['val'], m['tok'])
        for label, ref, reftok in cmp:
            ctx.evaluations += 1
            if not same_result(r['val'], ref):
                ident = classify_tokens(m['tok'], reftok) if m['tok'] != reftok else None
                note = ' [the model predicts it: %s vs %s]' % (m['tok'][-150:], reftok[-150:]) if ident else ''
                if tie_bad:
                    note += ' [and the implementation left the life-cycle model: %s]' % tie_bad
                if ctx.violation('PanelAssembly call %d (%s) after the calls %s returns a result different from %s%s'
                                 % (i, op, ops[:i], label, note), replay, identity=ident):
                    return True
                dist['order_dependent_known'] += 1
    if tie_bad and ctx.violation(tie_bad, replay):
        return True
    if len(distinct) < len(ops) or any(r['oc'] != 'ok' for r in recs):
        ctx.nontrivial.add('asm' + json.dumps([panel_def_line(AD['d1']), panel_def_line(AD['d2']), ops]))
    return False


# (sequence, zero laminate offsets?)  With zero offsets the model predicts equal tokens for every repeated call, so every comparison
# against the fresh-assembly references is strict; with non-zero offsets the listed laminate-order finding may excuse a difference
ASM_CORPUS = [
    (['conn:0', 'k0:0', 'kT', 'k0:0'], False),
    # the former finding C20-asm-k0_conn-cache-ignores-conn (repaired): another list after / before the own one ...
    (['k0:0', 'k0:1', 'conn:1', 'k0:0', 'conn:0', 'conn:1:0', 'conn:2'], True),
    (['k0:1', 'conn:0', 'kT', 'k0:2', 'k0:1', 'conn:1'], True),
    (['k0:0', 'k0:1', 'conn:1', 'k0:0', 'conn:0'], False),
    # ... and the un-symmetrised sum asked for first
    (['conn:0:0', 'conn:0', 'k0:0', 'kT', 'fint', 'conn:0:0', 'conn:2'], True),
    (['conn:1:0', 'k0:0:0', 'k0:0', 'conn:0', 'k0:1:0', 'k0:1', 'kT'], True),
    (['conn:0:0', 'k0:0', 'conn:0', 'kT'], False),
    (['kM', 'kG', 'uvw', 'strain', 'stress', 'fint', 'k0:0', 'kM', 'kG', 'uvw', 'stress', 'fint'], False),
]


def asm_lifecycle(ctx):
    rng = ctx.rng
    cases = []
    for ops, oz in ASM_CORPUS:
        AD = gen_asm_def(rng)
        AD['connGiven'] = True
        AD['d1']['offsetZero'] = AD['d2']['offsetZero'] = oz
        AD['d1']['mu'] = AD['d2']['mu'] = True
        cases.append((AD, ops))
    for _ in range(ctx.scale(25, 250)):
        n = rng.choice([1, 2, 3, 5, 8])
        cases.append((gen_asm_def(rng), [rng.choice(ASM_OPS) for _ in range(n)]))
    lines, idx = [], []
    for AD, ops in cases:
        l = asm_lines(AD, ops)
        idx.append((len(lines), len(l)))
        lines += l
    replies = driver(lines, pid='C20')
    if any(r.startswith('err') for r in replies):
        raise RuntimeError('driver: %r' % [r for r in replies if r.startswith('err')][:3])
    dist = dict(outcomes={}, fresh_fail_known={}, order_dependent_known=0, cases=len(cases))
    for (AD, ops), (i0, k) in zip(cases, idx):
        if asm_case(ctx, AD, ops, replies[i0:i0 + k], dist):
            break
    ctx.cov['assembly_distribution'] = dist


# ------------------------------------------------------------------------------------------ StiffPanelBay
BAY_OPS = ['size', 'k0', 'kG0', 'kM', 'kA', 'cA', 'fext', 'uvw']


def build_bay(BD):
    from compmech.stiffpanelbay import StiffPanelBay
    bay = StiffPanelBay()
    bay.a, bay.b, bay.m, bay.n = BD['a'], BD['b'], BD['m'], BD['n']
    bay.stack, bay.plyt, bay.laminaprop, bay.mu = list(BD['angles']), 1e-3, LP, 1500.
    if BD['modelGiven']:
        bay.model = MODEL_NAMES['plate']
    bay.beta = 5.
    bay.add_panel(y1=0, y2=BD['b'] / 2, Nxx=-1.)
    bay.add_panel(y1=BD['b'] / 2, y2=BD['b'], Nxx=-1.)
    if BD['stiff'] == '2d':
        bay.add_bladestiff2d(ys=BD['b'] / 2, bf=0.05, fstack=[0, 90], fplyt=1e-3, flaminaprop=LP, mf=3, nf=3)
    elif BD['stiff'] == '1d':
        bay.add_bladestiff1d(ys=BD['b'] / 2, bf=0.05, fstack=[0, 90], fplyt=1e-3, flaminaprop=LP)
    bay.forces_skin.append([BD['a'] / 2, BD['b'] / 4, 0, 0, 1.])
    return bay


def bay_call(op, BD):
    def size(b):
        s = 3 * BD['m'] * BD['n']
        return s + (27 if BD['stiff'] == '2d' else 0)
    return dict(size=lambda b: b.get_size(), k0=lambda b: b.calc_k0(silent=True), kG0=lambda b: b.calc_kG0(silent=True),
                kM=lambda b: b.calc_kM(silent=True), kA=lambda b: b.calc_kA(silent=True),
                cA=lambda b: b.calc_cA(silent=True), fext=lambda b: b.calc_fext(silent=True),
                uvw=lambda b: tuple(np.array(x) for x in b.uvw_skin(np.linspace(-1, 1, size(b)) * 1e-3, gridx=3,
                                                                      gridy=4)))[op]


def run_bay_sequence(BD, ops):
    bay = build_bay(BD)
    out = []
    for op in ops:
        try:
            with quiet():
                val = bay_call(op, BD)(bay)
            out.append(('ok', val))
        except Exception as e:                            # noqa
            out.append((type(e).__name__, e))
    return out


def bay_lifecycle(ctx):
    rng = ctx.rng
    cases = [(dict(modelGiven=False, stiff=None, a=1.2, b=0.8, m=3, n=4, angles=[0, 45]),
              ['kA', 'fext', 'uvw', 'size', 'cA', 'k0', 'kA', 'fext', 'uvw', 'size', 'cA']),
             (dict(modelGiven=False, stiff='2d', a=1.2, b=0.8, m=3, n=4, angles=[0, 45]), ['cA', 'kA', 'k0', 'kM']),
             (dict(modelGiven=False, stiff='1d', a=1.2, b=0.8, m=3, n=4, angles=[0, 45]), ['k0', 'cA', 'kA', 'k0', 'uvw'])]
    for _ in range(ctx.scale(12, 120)):
        BD = dict(modelGiven=rng.random() < 0.3, stiff=rng.choice([None, None, '2d', '1d']), a=rng.uniform(0.8, 1.6),
                  b=rng.uniform(0.5, 1.0), m=rng.choice([3, 4]), n=rng.choice([3, 4]),
                  angles=[rng.choice([0, 45, 90]) for _ in range(rng.choice([1, 2, 3]))])
        cases.append((BD, [rng.choice(BAY_OPS) for _ in range(rng.choice([1, 2, 4, 7]))]))
    lines = []
    for BD, ops in cases:
        lines.append('C20 bay %d %d | %s' % (BD['modelGiven'], BD['stiff'] is not None, ' '.join(ops)))
    replies = driver(lines, pid='C20')
    dist = dict(outcomes={}, fresh_fail_known={}, cases=len(cases))
    for (BD, ops), rep in zip(cases, replies):
        if rep.startswith('err'):
            raise RuntimeError('driver: ' + rep)
        model = [x.strip() for x in rep.split(' ; ')]
        replay = dict(kind='bay', definition=BD, ops=ops)
        recs = run_bay_sequence(BD, ops)
        ctx.evaluations += len(ops)
        seen = {}
        for i, ((oc, val), moc, op) in enumerate(zip(recs, model, ops)):
            dist['outcomes'][oc] = dist['outcomes'].get(oc, 0) + 1
            if oc != moc:
                if ctx.violation('StiffPanelBay call %d (%s): outcome model %s, implementation %s (%s)'
                                 % (i, op, moc, oc, str(val)[:100]), replay):
                    return
            if oc == 'AssertionError' and BD['stiff'] and run_bay_sequence(BD, [op])[0][0] == 'ok':
                if ctx.violation('StiffPanelBay call %d (%s) raises AssertionError (stiffener._rebuild: panel1.r == panel2.r) '
                                 'although it succeeds as first call: calc_kA normalised r of panels[0] only'
                                 % (i, op), replay, identity='C20-bay-kA-normalises-r-of-first-panel-only'):
                    return
                dist['assert_known'] = dist.get('assert_known', 0) + 1
            if oc != 'ok':
                continue
            ra = run_bay_sequence(BD, [op])[0]
            rb = run_bay_sequence(BD, ['k0', op])
            cmp = []
            if ra[0] == 'ok':
                cmp.append(('first call on a fresh bay', ra[1]))
            if rb[0][0] == 'ok' and rb[1][0] == 'ok':
                cmp.append(('a fresh bay after calc_k0()', rb[1][1]))
            if ra[0] != 'ok' and rb[1][0] == 'ok' and op not in dist['fresh_fail_known']:
                if ctx.violation('StiffPanelBay: %s cannot be requested first (%s: %s) although it succeeds after '
                                 'calc_k0()' % (op, ra[0], str(ra[1])[:60]), dict(replay, ops=[op]),
                                 identity='C20-bay-fresh-needs-calc_k0'):
                    return
                dist['fresh_fail_known'][op] = 1
            if op in seen:
                cmp.append(('its own earlier evaluation', seen[op]))
            seen.setdefault(op, val)
            for label, ref in cmp:
                ctx.evaluations += 1
                if not same_result(val, ref):
                    if ctx.violation('StiffPanelBay call %d (%s) returns a result different from %s' % (i, op, label),
                                     replay):
                        return
    ctx.cov['bay_distribution'] = dist


# ------------------------------------------------------------------------------------------ ConeCyl (forked workers)
CONE_OPS = ['size', 'k0', 'lb', 'static', 'fext', 'fint', 'kT', 'uvw', 'strain', 'stress']


def build_cone(CD):
    from compmech.conecyl import ConeCyl
    cc = ConeCyl()
    cc.model = CD.get('model', 'clpt_donnell_bc1')
    cc.m1, cc.m2, cc.n2 = 6, 3, 4
    cc.laminaprop = (123.55e3, 8.708e3, 0.319, 5.695e3, 5.695e3, 5.695e3)
    cc.stack = list(CD['angles'])
    cc.plyt = 0.125
    cc.r2 = CD['r2']
    cc.H = CD['H']
    cc.alphadeg = CD['alphadeg']
    cc.nx, cc.nt = 16, 24
    cc.num_eigvalues = 2
    cc.ni_num_cores = CD.get('ni', 2)
    cc.out_num_cores = CD.get('outc', 2)
    if CD['fcGiven']:
        cc.Fc = 1000.
    if CD['rebuilt']:
        cc.add_SPL(10.)
    else:
        cc.forces.append([CD['H'] / 2., 0., 0., 0., 10.])
    return cc


def cone_call(op):
    def c_of(cc):
        return np.linspace(-1, 1, cc.get_size()) * 1e-3
    return dict(size=lambda cc: cc.get_size(), k0=lambda cc: cc.calc_k0(silent=True),
                lb=lambda cc: (cc.lb(), np.array(cc.eigvals))[1],
                static=lambda cc: [np.array(x) for x in cc.static(silent=True)],
                fext=lambda cc: np.array(cc.calc_fext(silent=True)),
                fint=lambda cc: np.array(cc.calc_fint(c_of(cc), silent=True)),
                kT=lambda cc: cc.calc_kT(c_of(cc), silent=True),
                uvw=lambda cc: tuple(np.array(x) for x in cc.uvw(c_of(cc), gridx=3, gridt=5)),
                strain=lambda cc: np.array(cc.strain(c_of(cc), gridx=3, gridt=5)),
                stress=lambda cc: np.array(cc.stress(c_of(cc), gridx=3, gridt=5)))[op]


def forked(fn):
    """run fn(emit) in a forked child; returns (list of emitted objects, exit signal or 0)"""
    import pickle
    r, w = os.pipe()
    pid = os.fork()
    if pid == 0:
        try:
            os.close(r)
            f = os.fdopen(w, 'wb')

            def emit(obj):
                pickle.dump(obj, f)
                f.flush()
            devnull = os.open(os.devnull, os.O_WRONLY)
            os.dup2(devnull, 1)
            os.dup2(devnull, 2)
            fn(emit)
            f.close()
        finally:
            os._exit(0)
    os.close(w)
    f = os.fdopen(r, 'rb')
    out = []
    while True:
        try:
            out.append(pickle.load(f))
        except EOFError:
            break
        except Exception:                                 # noqa  (truncated pickle of a dying child)
            break
    f.close()
    _, status = os.waitpid(pid, 0)
    return out, (os.WTERMSIG(status) if os.WIFSIGNALED(status) else 0)


def cone_sequence(CD, ops):
    """[(outcome, value)] ; a call that kills the interpreter is reported as ('SEGV', None) and ends the sequence"""
    def body(emit):
        cc = build_cone(CD)
        for op in ops:
            emit(('start', op))
            try:
                with np.errstate(all='ignore'):
                    val = cone_call(op)(cc)
                if hasattr(val, 'toarray'):
                    val = val.toarray()
                emit(('ok', val))
            except Exception as e:                        # noqa
                emit((type(e).__name__, str(e)[:100]))
    out, sig = forked(body)
    res = []
    pending = False
    for item in out:
        if item[0] == 'start':
            pending = True
        else:
            res.append(item)
            pending = False
    if sig and pending:
        res.append(('SEGV', 'signal %d' % sig))
    return res


def cone_worker(jobfile, outfile):
    """runs in its own interpreter (no OpenMP region was ever entered before forking)"""
    import pickle
    jobs = json.load(open(jobfile))
    results = []
    for job in jobs:
        if job['kind'] == 'seq':
            results.append(cone_sequence(job['def'], job['ops']))
        elif job['kind'] == 'threads':
            def body(emit, job=job):
                cc = build_cone(job['def'])
                cc.calc_k0(silent=True)
                c = np.linspace(-1, 1, cc.get_size()) * 1e-3
                for nc in range(1, 17):
                    cc.ni_num_cores = nc
                    cc.out_num_cores = nc
                    emit((nc, np.array(cc.calc_fint(c, silent=True)), cc.calc_kT(c, silent=True).toarray(),
                          tuple(np.array(x) for x in cc.uvw(c, gridx=3, gridt=7))))
            results.append(forked(body))
    pickle.dump(results, open(outfile, 'wb'))


def cone_lifecycle(ctx):
    import pickle
    rng = ctx.rng
    cases = [(dict(fcGiven=False, rebuilt=False), ['lb', 'static', 'lb', 'static']),
             (dict(fcGiven=False, rebuilt=False), ['static', 'lb']),
             (dict(fcGiven=False, rebuilt=False), ['uvw', 'strain', 'k0', 'uvw', 'fint', 'stress']),
             (dict(fcGiven=False, rebuilt=True), ['fint']), (dict(fcGiven=True, rebuilt=True), ['stress']),
             (dict(fcGiven=True, rebuilt=False), ['static', 'lb', 'static', 'lb', 'fext']),
             # first-order shear models: the shear-correction factor is applied to the laminate matrix at every re-evaluation
             (dict(fcGiven=True, rebuilt=True, model='fsdt_donnell_bc1'), ['lb', 'lb', 'k0', 'lb']),
             (dict(fcGiven=True, rebuilt=True, model='fsdt_donnell_bcn'), ['static', 'lb', 'static', 'lb'])]
    for _ in range(ctx.scale(10, 100)):
        cases.append((dict(fcGiven=rng.random() < 0.5, rebuilt=rng.random() < 0.5),
                      [rng.choice(CONE_OPS) for _ in range(rng.choice([1, 2, 3, 5, 7]))]))
    for CD, _ in cases:
        CD.update(angles=[rng.choice([0, 45, -45, 90]) for _ in range(rng.choice([2, 3]))], r2=rng.uniform(150, 400),
                  H=rng.uniform(300, 600), alphadeg=rng.choice([0., 0., 10., 25.]))
    lines = ['C20 cone %d %d | %s' % (CD['fcGiven'], CD['rebuilt'], ' '.join(ops)) for CD, ops in cases]
    # model first: a sequence ends at the first call the model predicts to kill the interpreter
    replies = driver(lines, pid='C20')
    jobs = []
    plan = []
    for (CD, ops), rep in zip(cases, replies):
        if rep.startswith('err'):
            raise RuntimeError('driver: ' + rep)
        model = [tuple(y.strip() for y in x.split('#')) for x in rep.split(' ; ')]
        cut = next((i + 1 for i, m in enumerate(model) if m[0] == 'SEGV'), len(ops))
        ops, model = ops[:cut], model[:cut]
        distinct = dedup(ops)
        j0 = len(jobs)
        jobs.append(dict(kind='seq', **{'def': CD}, ops=ops))
        for op in distinct:
            jobs.append(dict(kind='seq', **{'def': CD}, ops=[op]))
            jobs.append(dict(kind='seq', **{'def': CD}, ops=['k0', op]))
        plan.append((CD, ops, model, distinct, j0))
    tj = len(jobs)
    for alphadeg in (0., 20.):
        jobs.append(dict(kind='threads', **{'def': dict(fcGiven=True, rebuilt=True, angles=[0, 45, -45], r2=250., H=500.,
                                                         alphadeg=alphadeg)}))
    jobfile = os.path.join(SCRATCH, 'C20_cone_jobs.json')
    outfile = os.path.join(SCRATCH, 'C20_cone_out.pkl')
    json.dump(jobs, open(jobfile, 'w'))
    if os.path.exists(outfile):
        os.remove(outfile)
    p = subprocess.run([sys.executable, '-m', 'tools.props.C20', 'cone-worker', jobfile, outfile], cwd=VERIF,
                       stdout=subprocess.PIPE, stderr=subprocess.STDOUT, text=True, timeout=3000)
    if not os.path.exists(outfile):
        raise RuntimeError('cone worker failed: ' + p.stdout[-2000:])
    results = pickle.load(open(outfile, 'rb'))
    dist = dict(outcomes={}, known={}, cases=len(cases), forked_runs=tj)
    # model tokens of the reference runs
    ref_lines = []
    for CD, ops, model, distinct, j0 in plan:
        for op in distinct:
            ref_lines.append('C20 cone %d %d | %s' % (CD['fcGiven'], CD['rebuilt'], op))
            ref_lines.append('C20 cone %d %d | k0 %s' % (CD['fcGiven'], CD['rebuilt'], op))
    ref_rep = driver(ref_lines, pid='C20') if ref_lines else []
    rk = 0
    for CD, ops, model, distinct, j0 in plan:
        replay = dict(kind='cone', definition=CD, ops=ops)
        recs = results[j0]
        ctx.evaluations += len(ops)
        refs = {}
        for k, op in enumerate(distinct):
            mA = [tuple(y.strip() for y in x.split('#')) for x in ref_rep[rk].split(' ; ')]
            mB = [tuple(y.strip() for y in x.split('#')) for x in ref_rep[rk + 1].split(' ; ')]
            rk += 2
            refs[op] = (results[j0 + 1 + 2 * k], results[j0 + 2 + 2 * k], mA[0], mB[-1])
        if len(recs) != len(ops):
            if ctx.violation('ConeCyl sequence ended after %d of %d calls (%s)' % (len(recs), len(ops), recs[-1:]), replay):
                return
            continue
        seen = {}
        for i, ((oc, val), m, op) in enumerate(zip(recs, model, ops)):
            dist['outcomes'][oc] = dist['outcomes'].get(oc, 0) + 1
            if oc != m[0]:
                if ctx.violation('ConeCyl call %d (%s): outcome model %s, implementation %s (%s)'
                                 % (i, op, m[0], oc, str(val)[:100]), replay):
                    return
                continue
            ra, rb, mA, mB = refs[op]
            if oc == 'SEGV' or (ra and ra[0][0] != 'ok' and len(rb) == 2 and rb[1][0] == 'ok'):
                ident = 'C20-conecyl-fresh-%s' % ('segfault' if (oc == 'SEGV' or ra[0][0] == 'SEGV') else 'raises')
                if ra and ra[0][0] != 'ok' and len(rb) == 2 and rb[1][0] == 'ok' and (op, ident) not in dist['known']:
                    if ctx.violation('ConeCyl: %s cannot be requested first (%s) although it succeeds after calc_k0()'
                                     % (op, ra[0][0]), dict(replay, ops=[op]), identity=ident):
                        return
                    dist['known'][(op, ident)] = 1
            if oc != 'ok':
                continue
            tol = 1e-6 if op == 'lb' else 0.0
            cmp = []
            if ra and ra[0][0] == 'ok':
                cmp.append(('first call on a fresh shell', ra[0][1], mA[1]))
            if len(rb) == 2 and rb[1][0] == 'ok':
                cmp.append(('a fresh shell after calc_k0()', rb[1][1], mB[1]))
            if op in seen:
                cmp.append(('its own earlier evaluation (call %d)' % seen[op][0], seen[op][1], seen[op][2]))
            else:
                seen[op] = (i, val, m[1])
            for label, ref, reftok in cmp:
                if op == 'lb' and (m[1] == 'zero' or reftok == 'zero') and m[1] == reftok:
                    continue          # zero axial load: kG0 = 0, the eigenvalues are round-off noise in every history
                ctx.evaluations += 1
                tol_ = tol
                if op == 'lb':
                    try:        # ARPACK resolves a multiplier lam to about eps*|lam| only (Cayley transform, random start vector)
                        tol_ = max(tol, 1e-12 * float(np.abs(np.asarray(val[0] if isinstance(val, (tuple, list)) else val)).max()))
                    except Exception:
                        pass
                if op == 'lb' and not same_result(val, ref, tol_):
                    # ARPACK starts from a random vector: on an ill-conditioned pencil (e.g. the indefinite cone stiffness of
                    # fsdt_donnell_bcn, finding C16-fsdt-donnell-bcn-cone-not-psd) two runs of the SAME fresh shell already differ
                    # by ~1e-6.  Calibrate on the run-to-run spread of the fresh reference itself (a history dependence is O(1)).
                    fresh = [r_[0][1] for r_ in (cone_sequence(CD, ['lb']) for _ in range(3)) if r_ and r_[0][0] == 'ok']
                    fresh = [np.asarray(f_) for f_ in fresh if np.asarray(f_).shape == np.asarray(val).shape]
                    if len(fresh) >= 2:
                        sc = max(float(np.abs(fresh[0]).max()), 1e-300)
                        spread = max(float(np.abs(a_ - b_).max()) for a_ in fresh for b_ in fresh) / sc
                        tol_ = max(tol_, 20. * spread)
                        dist['lb_noise_recalibrations'] = dist.get('lb_noise_recalibrations', 0) + 1
                if not same_result(val, ref, tol_):
                    ident = 'C20-conecyl-lb-default-load-order' if m[1] != reftok else None
                    note = ' [the model predicts it: axial load %s vs %s]' % (m[1], reftok) if ident else ''
                    if ctx.violation('ConeCyl call %d (%s) returns a result different from %s%s' % (i, op, label, note),
                                     replay, identity=ident):
                        return
                    dist['known'][('order', op)] = dist['known'].get(('order', op), 0) + 1
        if len(distinct) < len(ops):
            ctx.nontrivial.add('cone' + json.dumps([CD['fcGiven'], CD['rebuilt'], ops]))
    # thread clause: integratev inside calc_fint / calc_kT, prange in uvw
    tdist = {}
    for k, alphadeg in enumerate((0., 20.)):
        out, sig = results[tj + k]
        if sig or len(out) != 16:
            ctx.violation('ConeCyl thread sweep died (signal %s) after %d of 16 core counts' % (sig, len(out)),
                          dict(kind='cone-threads', alphadeg=alphadeg))
            return
        base = out[0]
        worst = 0.
        for nc, fint, kT, uvw in out[1:]:
            ctx.evaluations += 3
            for name, a, b in (('calc_fint', fint, base[1]), ('calc_kT', kT, base[2])):
                s = max(np.abs(b).max(), 1e-300)
                d = np.abs(a - b).max() / s
                worst = max(worst, d)
                if d > 1e-12:
                    ctx.violation('ConeCyl.%s with ni_num_cores=%d differs from ni_num_cores=1 by %.2e relative'
                                  % (name, nc, d), dict(kind='cone-threads', alphadeg=alphadeg, num_cores=nc))
                    return
            if not same_result(uvw, base[3]):
                ctx.violation('ConeCyl.uvw with out_num_cores=%d differs from out_num_cores=1' % nc,
                              dict(kind='cone-threads', alphadeg=alphadeg, num_cores=nc))
                return
        tdist['alphadeg=%g' % alphadeg] = dict(max_rel_dev_integratev=worst, cores='1..16')
    dist['known'] = {str(k): v for k, v in dist['known'].items()}
    ctx.cov['conecyl_distribution'] = dist
    ctx.cov['conecyl_threads'] = tdist


# ------------------------------------------------------------------------------------------ threads, solvers, plots
def thread_clauses(ctx, hook=None):
    """uvw / strain / stress for out_num_cores = 1..16, point counts not divisible by the core count"""
    rng = ctx.rng
    n = 0
    for trial in range(ctx.scale(6, 40)):
        D = gen_panel_def(rng, plain=True)
        D.update(model='none', alphaGiven=False, y12='none')
        p = build_panel(D)
        if hook:
            hook(p)
        A = Args(D)
        with quiet():
            p.calc_k0(silent=True)
        npts = rng.choice([1, 3, 7, 13, 17, 23, 31, 37])
        rs = np.random.RandomState(trial)
        xs = rs.uniform(0, D['N']['a'], npts)
        ys = rs.uniform(0, D['N']['b'], npts)
        base = None
        for nc in range(1, 17):
            p.out_num_cores = nc
            with quiet():
                res = (tuple(np.array(x) for x in p.uvw(A.c, xs=xs, ys=ys)), p.strain(A.c, xs=xs, ys=ys),
                       p.stress(A.c, xs=xs, ys=ys))
            n += 3
            if base is None:
                base = res
            elif not same_result(res, base):
                which = [nm for nm, a, b in zip(('uvw', 'strain', 'stress'), res, base) if not same_result(a, b)]
                ctx.violation('%s with out_num_cores=%d differs from out_num_cores=1 (%d points)' % (which, nc, npts),
                              dict(kind='threads', definition=D, npts=npts, num_cores=nc))
                return
    ctx.evaluations += n
    ctx.cov['panel_threads'] = dict(evaluations=n, cores='1..16', note='bit-identical arrays required')
    try:
        import compmech.integrate.integratev as iv
        ctx.cov['integratev'] = ('module importable; `integratev` itself is a cdef function (only `_test_integratev`, fixed '
                                 'num_cores=1, is exported; its test file imports the absent pyximport and fails at '
                                 'collection) - the thread clause is exercised through ConeCyl.calc_fint/calc_kT')
        iv._test_integratev(10, 10, 'trapz2d')
    except Exception as e:                                # noqa
        ctx.cov['integratev'] = 'not importable: %r' % (e,)


def analysis_inputs(ctx, hook=None):
    """compmech.analysis.lb / freq / static: matrices and vectors handed in are not modified; repeatable"""
    from compmech.analysis import lb, freq, static
    rng = ctx.rng
    for trial in range(ctx.scale(4, 30)):
        D = gen_panel_def(rng, plain=True)
        D.update(model='none', alphaGiven=False, y12='none', mu=True, forces=True)
        D['N'].update(m=4, n=4, bc='ss')
        p = build_panel(D)
        if hook:
            hook(p)
        with quiet():
            K = p.calc_k0(silent=True)
            KG = p.calc_kG0(silent=True)
            M = p.calc_kM(silent=True)
            f = p.calc_fext(silent=True)
        for name, fn, args in (('lb', lambda: lb(K, KG, silent=True, num_eigvalues=2, sparse_solver=False), (K, KG)),
                               ('lb-sparse', lambda: lb(K, KG, silent=True, num_eigvalues=2), (K, KG)),
                               ('freq', lambda: freq(K, M, silent=True, num_eigvalues=2, sparse_solver=False), (K, M)),
                               ('static', lambda: static(K, f, silent=True), (K, f))):
            before = [digest(a) for a in args]
            outs = []
            for rep in range(2):
                try:
                    with quiet():
                        outs.append(fn())
                except Exception as e:                    # noqa
                    outs.append(('raised', type(e).__name__))
            ctx.evaluations += 2
            if [digest(a) for a in args] != before:
                ctx.violation('compmech.analysis.%s modified a matrix / vector passed by the caller' % name,
                              dict(kind='analysis', definition=D, function=name))
                return
            tol = 1e-8 if name == 'lb-sparse' else 0.0
            a, b = outs
            if isinstance(a, tuple) and a and isinstance(a[0], str):
                ok = a == b
            elif name == 'lb-sparse':
                # ARPACK starts from a random vector; the Cayley transform (sigma = 1) resolves a multiplier lam only to
                # about eps*|lam|, so a far sub-critical reference load (|lam| ~ 1e8) repeats to ~1e-8 only
                lam_ = float(np.abs(np.asarray(a[0])).max()) if np.size(a[0]) else 0.
                ok = same_result(a[0], b[0], max(tol, 1e-12 * lam_))
            else:
                ok = same_result(list(a), list(b), tol)
            if not ok:
                ctx.violation('compmech.analysis.%s returns different results for the same arguments' % name,
                              dict(kind='analysis', definition=D, function=name))
                return
    ctx.cov['analysis_inputs'] = 'K, KG, M, fext checksummed around lb (dense, sparse), freq, static; two calls compared'


def plot_clause(ctx, hook=None):
    """Panel.plot (Agg) between field queries: stored fields restored, later results unchanged"""
    try:
        import matplotlib
        matplotlib.use('Agg')
        import matplotlib.pyplot as plt
    except Exception as e:                                # noqa
        ctx.cov['plots'] = 'matplotlib unavailable: %r' % (e,)
        return
    rng = ctx.rng
    for trial in range(ctx.scale(4, 12)):
        D = gen_panel_def(rng, plain=True)
        D.update(model='none', alphaGiven=False, y12='none')
        p = build_panel(D)
        for f_ in 'uv':                 # in-plane edges free: with few terms the edge flags would otherwise switch the whole in-plane field off
            for e_ in ('1t', '1r', '2t', '2r'):
                for d_ in 'xy':
                    setattr(p, f_ + e_ + d_, 1.)
        if hook:
            hook(p)
        A = Args(D)
        with quiet():
            p.calc_k0(silent=True)
            u1 = tuple(np.array(x) for x in p.uvw(A.c, xs=A.xs, ys=A.ys))
            stored = tuple(np.array(p.__dict__[k]) for k in ('u', 'v', 'w'))
            cb = digest(A.c2)
            fig = plt.figure()
            ax = fig.add_subplot(111)
            plot_raised = False
            # rarely used options: a deformed contour, the caller's own (float64, C-ordered) evaluation grids, an inverted axis
            kw = dict(vec=rng.choice(['w', 'u', 'exx', 'Nxx']), gridx=4, gridy=5, ax=ax, deform_u=(trial % 2 == 1),
                      invert_y=(trial % 3 == 2))
            gx, gy = np.meshgrid(np.linspace(0., float(p.a), 5), np.linspace(0., float(p.b), 4))
            gx, gy = np.ascontiguousarray(gx, dtype=np.float64), np.ascontiguousarray(gy, dtype=np.float64)
            gb = digest(gx), digest(gy)
            if trial % 4 in (1, 2):
                kw.update(xs=gx, ys=gy)
            try:
                p.plot(A.c2, **kw)
            except ValueError as e:                       # matplotlib refuses a constant field
                if 'levels' not in str(e):
                    raise
                plot_raised = True                        # a FAILED call: C20 says nothing about the attributes it leaves
            plt.close('all')
            after = tuple(np.array(p.__dict__[k]) for k in ('u', 'v', 'w'))
            u2 = tuple(np.array(x) for x in p.uvw(A.c, xs=A.xs, ys=A.ys))
        ctx.evaluations += 3
        if digest(A.c2) != cb:
            ctx.violation('Panel.plot modified the caller-supplied c', dict(kind='plot', definition=D))
            return
        if (digest(gx), digest(gy)) != gb:
            ctx.violation('Panel.plot(%s) modified the caller-supplied evaluation grids xs / ys in place'
                          % ', '.join('%s=%r' % (k, v) for k, v in kw.items() if k in ('vec', 'deform_u', 'invert_y')),
                          dict(kind='plot', definition=D, options={k: v for k, v in kw.items() if k in ('vec', 'deform_u', 'invert_y')}))
            return
        if not plot_raised and not same_result(stored, after):
            ctx.violation('Panel.plot did not restore the stored displacement field', dict(kind='plot', definition=D))
            return
        if not same_result(u1, u2):
            ctx.violation('uvw differs before / after Panel.plot', dict(kind='plot', definition=D))
            return
    ctx.cov['plots'] = 'Panel.plot (Agg, vec in w/exx/Nxx) between uvw calls: stored u,v,w restored, uvw unchanged'


def cone_inputs(ctx):
    """caller-supplied amplitude vectors of ConeCyl field / force queries are not modified and repeated queries agree, also for
    a load level inc != 1 with non-zero prescribed amplitudes (calc_full_c scales the prescribed entries of a COPY)"""
    rng = ctx.rng
    for trial in range(ctx.scale(3, 12)):
        CD = dict(fcGiven=True, rebuilt=True, angles=[0, 45, -45], r2=rng.uniform(150, 400), H=rng.uniform(300, 600),
                  alphadeg=rng.choice([0., 15.]), model=rng.choice(['clpt_donnell_bc1', 'clpt_donnell_bc3']))
        cc = build_cone(CD)
        cc.betadeg = rng.choice([0.5, -1., 2.])
        cc.thetaTdeg = rng.choice([0., 0.3])
        inc = rng.choice([0.5, 0.25, 0.8])
        with quiet():
            cc.calc_k0(silent=True)
            size = cc.get_size()
            for layout in ('full', 'reduced'):
                n = size if layout == 'full' else size - len(cc.excluded_dofs)
                c = np.ascontiguousarray(np.linspace(-1, 1, n) * 1e-2 + 0.05)
                c0 = c.copy()
                for name, call in (('uvw', lambda: tuple(np.array(x) for x in cc.uvw(c, gridx=3, gridt=5, inc=inc))),
                                   ('strain', lambda: np.array(cc.strain(c, gridx=3, gridt=5, inc=inc))),
                                   ('calc_fint', lambda: np.array(cc.calc_fint(c, inc=inc, silent=True)))):
                    try:
                        r1 = call()
                        r2 = call()
                    except Exception:
                        continue
                    ctx.evaluations += 2
                    if not np.array_equal(c, c0):
                        ctx.violation('ConeCyl.%s(c, inc=%r) modified the caller-supplied %s amplitude vector (prescribed amplitudes '
                                      'betadeg=%r, thetaTdeg=%r)' % (name, inc, layout, cc.betadeg, cc.thetaTdeg),
                                      dict(kind='cone_inputs', definition=CD, call=name, inc=inc, layout=layout))
                        return
                    if not same_result(r1, r2):
                        ctx.violation('ConeCyl.%s(c, inc=%r) called twice with the same %s vector returns different results'
                                      % (name, inc, layout), dict(kind='cone_inputs', definition=CD, call=name, inc=inc, layout=layout))
                        return
    ctx.cov['cone_inputs'] = 'uvw / strain / calc_fint with inc != 1 and non-zero prescribed amplitudes: caller vector unchanged, repeat identical'


def correspondence(ctx):
    d = panel_lifecycle(ctx)
    ctx.log('panel: %d cases, outcomes %s' % (d['cases'], d['outcomes']))
    if ctx.violations:
        return
    for part in (asm_lifecycle, bay_lifecycle, thread_clauses, analysis_inputs, plot_clause, cone_inputs, cone_lifecycle):
        part(ctx)
        ctx.log(part.__name__, 'done')
        if ctx.violations:
            return


def search(ctx, reason):
    """implementation arm after a broken proof / tie: the property predicates that need no Lean side — results
    against fresh-object references, caller arrays, definition attributes, thread counts — over random sequences"""
    rng = ctx.rng
    note = ' [after: %s]' % '; '.join(reason)[:200]
    for _ in range(ctx.scale(60, 600)):
        D = gen_panel_def(rng, plain=rng.random() < 0.5)
        ops = gen_panel_ops(rng, D)
        A = Args(D)
        replay = dict(kind='panel', definition=D, ops=ops)
        recs, _ = run_panel_sequence(D, ops, A)
        ctx.evaluations += len(ops)
        tainted = False               # after calc_kt_kr on a panel with offset results may legitimately differ (known)
        for i, r in enumerate(recs):
            if r['op'] == 'ktkr' and not D['offsetZero']:
                tainted = True
            if r['mutated'] and ctx.violation('call %d (%s) modified the caller-supplied array(s) %s%s'
                                              % (i, r['op'], r['mutated'], note), replay):
                return True
            bad = [w for w in r['W'] if w not in WRITE_ATTRS]
            if bad and ctx.violation('call %d (%s) writes the definition attribute(s) %s%s' % (i, r['op'], bad, note),
                                     replay):
                return True
            if r['oc'] != 'ok':
                continue
            pb = build_panel(D)
            ocW, _, _ = logged(pb, panel_call('k0:0', A))
            ocB, valB, _ = logged(pb, panel_call(r['op'], A))
            if ocW == 'ok' and ocB == 'ok' and not same_result(r['val'], valB):
                ident = 'C20-kt_kr-builds-lam-without-offset' if (tainted or r['op'] == 'ktkr') else None
                if ctx.violation('call %d (%s) returns a result different from a fresh object after calc_k0()%s'
                                 % (i, r['op'], note), replay, identity=ident):
                    return True
    thread_clauses(ctx)
    return bool(ctx.violations)


def replay(ctx, data):
    r = data['replay']
    kind = r.get('kind')
    if kind == 'panel':
        D, ops = r['definition'], r['ops']
        dist = dict(outcomes={}, ops={}, fresh_ok=0, fresh_fail=0, fresh_fail_known={}, order_dependent_known=0,
                    token_differs_numbers_equal=0, solver_failures=0, cases=1)
        replies = driver(panel_lines(D, ops), pid='C20')
        panel_case(ctx, D, ops, replies, dist)
        print(json.dumps(dist))
    elif kind == 'asm':
        AD, ops = r['definition'], r['ops']
        dist = dict(outcomes={}, fresh_fail_known={}, order_dependent_known=0, cases=1)
        asm_case(ctx, AD, ops, driver(asm_lines(AD, ops), pid='C20'), dist)
        print(json.dumps(dist))
    elif kind == 'bay':
        BD, ops = r['definition'], r['ops']
        rep = driver(['C20 bay %d %d | %s' % (BD['modelGiven'], BD['stiff'] is not None, ' '.join(ops))], pid='C20')[0]
        recs = run_bay_sequence(BD, ops)
        print('model         :', rep)
        print('implementation:', ' ; '.join(oc for oc, _ in recs))
        if [x.strip() for x in rep.split(' ; ')] != [oc for oc, _ in recs]:
            ctx.violation('StiffPanelBay outcomes differ from the model', r)
    elif kind == 'threads':
        D = r['definition']
        p = build_panel(D)
        A = Args(D)
        with quiet():
            p.calc_k0(silent=True)
        rs = np.random.RandomState(0)
        xs, ys = rs.uniform(0, D['N']['a'], r['npts']), rs.uniform(0, D['N']['b'], r['npts'])
        outs = []
        for nc in (1, r['num_cores']):
            p.out_num_cores = nc
            with quiet():
                outs.append((tuple(np.array(x) for x in p.uvw(A.c, xs=xs, ys=ys)), p.strain(A.c, xs=xs, ys=ys)))
        if not same_result(outs[0], outs[1]):
            ctx.violation('field query with %d cores differs from 1 core' % r['num_cores'], r)
    elif kind == 'cone':
        CD, ops = r['definition'], r['ops']
        rep = driver(['C20 cone %d %d | %s' % (CD['fcGiven'], CD['rebuilt'], ' '.join(ops))], pid='C20')[0]
        print('model:', rep)
        print('run  : /venv/bin/python -c "from tools.props import C20; print([x[0] for x in C20.cone_sequence(%r, %r)])"'
              % (CD, ops))
    else:
        print('replay names no input:', data['what'])
        return 1
    for v in ctx.violations:
        print('VIOLATION', v['what'])
    for k, t in ctx.known_hits:
        print('KNOWN-FINDING', k)
    return 1 if ctx.violations else 0


if __name__ == '__main__':
    if len(sys.argv) == 4 and sys.argv[1] == 'cone-worker':
        cone_worker(sys.argv[2], sys.argv[3])
