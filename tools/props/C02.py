"""C02 — constitutive stiffness = Hessian of the Donnell CLT strain energy.
T: Gen/Panel/*.lean regenerated from the .pyx sources; theorems Props/C02.lean re-checked.
V: IR of fk0/fk0y1y2 interpreted on random panels vs Panel.calc_k0(finalize=False) of the running code.
Implementation arm: energy-Hessian oracle (operator tables x exact Bardell integrals) vs Panel.calc_k0().
"""
import numpy as np

from tools import panel_v
from tools.props import panel_common as pc
from tools.translate import pyx

TRUSTED = pc.TRUSTED_T + [
    'Panel.calc_k0 glue (dispatch on y1/y2, + fkG0(N*_cte), finalize_symmetric_matrix) is not modelled in Lean: '
    'it is covered by the whole-matrix oracle comparison on the explored panels only',
]
ASSUMPTIONS = [
    'entry theorems are per integration cell (one constant-radius section for conical panels); summation over '
    'series indices / sections and the COO placement are checked numerically (V), not proved',
    'fkL_num (state dependent) belongs to C08/C14',
]
RULE = ('random panels from one PRNG: model in {plate, plate_w, cpanel, kpanel}, m,n in 1..4, random geometry, 1-4 ply '
        'laminates incl. unsymmetric + offset, all 24 edge flags random in {0,1} or generic reals, optional y1<y2, '
        'optional constant pre-load, optional placement (row0/col0/size); non-trivial = m*n >= 4 and a laminate with '
        'B != 0 or generic flags; distinct by case parameters')
KERNELS = ('fk0', 'fk0y1y2')


def translate(ctx):
    pc.translated(ctx)


def run_case(ctx, case, ir, with_v=True):
    """returns (V disagreement or None, property failure or None)"""
    kernels, schemas, consts = ir[case['lean_model']]
    p = pc.make_panel(case)
    size0 = (1 if case['lean_model'] == 'PlateW' else 3) * case['m'] * case['n']
    size, row0, col0 = size0 + case['pad'], case['row0'], case['col0']
    for k in ('Nxx_cte', 'Nyy_cte', 'Nxy_cte'):
        setattr(p, k, case.get(k))
    if case.get('force_ortho'):
        p.force_orthotropic_laminate = True
    try:
        raw = pc.quiet(p.calc_k0, size=size, row0=row0, col0=col0, silent=True, finalize=False).toarray()
        full = pc.quiet(p.calc_k0, size=size, row0=row0, col0=col0, silent=True, finalize=True).toarray()
    except Exception as e:                                   # noqa  (an admissible panel definition: the package must deliver the matrix)
        return None, 'calc_k0 raised %s: %s on an admissible panel definition' % (type(e).__name__, str(e)[:150])
    y12 = (case['y1'], case['y2']) if case['y1'] is not None else None
    kname = 'fk0y1y2' if y12 else 'fk0'
    params = dict(y1=case['y1'], y2=case['y2'])
    ncte = [case.get(k) or 0. for k in ('Nxx_cte', 'Nyy_cte', 'Nxy_cte')]
    v_bad = None
    mine = panel_v.interp_kernel(kernels[kname], consts, p, params, size, row0, col0) if with_v else raw
    if any(ncte) and with_v:
        gname = 'fkG0y1y2' if y12 else 'fkG0'
        mine = mine + panel_v.interp_kernel(kernels[gname], consts, p,
                                            dict(params, Nxx=ncte[0], Nyy=ncte[1], Nxy=ncte[2]), size, row0, col0)
    num_ = 1 if case['lean_model'] == 'PlateW' else 3
    d = max(pc.rel_diff(raw, mine), pc.block_rel_diff(raw, mine, num_, row0) / 10.)
    if d > 1e-9:
        v_bad = 'translated %s interpreted on this panel differs from Panel.calc_k0(finalize=False): rel %.3e' % (kname, d)
    # property predicate on the implementation
    # the laminate of the oracle is computed from the case data by an independent lamination theory (not read from the panel)
    want = panel_v.oracle_matrix(case['model'], p, 'k0', {}, size, row0, col0, y12, F=pc.independent_ABD(case))
    if any(ncte):
        want = want + panel_v.oracle_matrix(case['model'], p, 'kG0', dict(Nxx=ncte[0], Nyy=ncte[1], Nxy=ncte[2]),
                                            size, row0, col0, y12)
    p_bad = None
    d2 = max(pc.rel_diff(full, want), pc.block_rel_diff(full, want, num_, row0))       # every field block on its own scale
    if d2 > 1e-8:
        i, j = np.unravel_index(np.abs(full - want).argmax(), full.shape)
        p_bad = ('calc_k0 differs from the Hessian of the strain energy%s: rel %.3e at [%d,%d] (code %.6e, energy %.6e)'
                 % (' + pre-load' if any(ncte) else '', d2, i, j, full[i, j], want[i, j]))
    elif any(ncte) and pre_load_part_bad(p, case, full, size, row0, col0, y12, ncte):
        p_bad = pre_load_part_bad(p, case, full, size, row0, col0, y12, ncte)
    elif np.abs(full - full.T).max() > 0:
        p_bad = 'calc_k0 not symmetric'
    elif not any(ncte):
        w = np.linalg.eigvalsh(full)
        if w.min() < -1e-9 * max(abs(w).max(), 1e-300):
            p_bad = 'calc_k0 not positive semi-definite (min eig %.3e, max %.3e)' % (w.min(), w.max())
    return v_bad, p_bad


def pre_load_part_bad(p, case, full, size, row0, col0, y12, ncte):
    """'a constant membrane pre-load adds exactly the matching initial-stress matrix', judged on the scale of that matrix itself
    (it can be many orders of magnitude below the constitutive part, where the whole-matrix comparison cannot see it)"""
    for k in ('Nxx_cte', 'Nyy_cte', 'Nxy_cte'):
        setattr(p, k, None)
    bare = pc.quiet(p.calc_k0, size=size, row0=row0, col0=col0, silent=True, finalize=True).toarray()
    for k in ('Nxx_cte', 'Nyy_cte', 'Nxy_cte'):
        setattr(p, k, case.get(k))
    g = panel_v.oracle_matrix(case['model'], p, 'kG0', dict(Nxx=ncte[0], Nyy=ncte[1], Nxy=ncte[2]), size, row0, col0, y12)
    tol = 1e-6 * np.abs(g).max() + 1e-11 * np.abs(bare).max()
    d = np.abs((full - bare) - g)
    if d.max() > tol and np.abs(g).max() > 1e3 * 1e-11 * np.abs(bare).max():
        i, j = np.unravel_index(d.argmax(), d.shape)
        return ('calc_k0 with the constant pre-load N_cte=%r minus calc_k0 without it is not the initial-stress matrix of that load: '
                'at [%d,%d] difference %.6e, pre-stress Hessian %.6e' % (tuple(ncte), i, j, (full - bare)[i, j], g[i, j]))
    return None


def gen_preload(rng):
    """constant membrane pre-stress: every component alone (also pure shear), pairs, all three; unset components are None or 0"""
    z = lambda: rng.choice([None, 0.])
    v = lambda: rng.choice([-1, 1]) * rng.uniform(20., 1e3)
    pat = rng.choice(['x', 'y', 's', 's', 'xy', 'xs', 'ys', 'xys', 'xys', 'cancel', 'cancel', 'cancel'])
    if pat == 'cancel':
        # components that cancel in a sum (exactly, in floating point: multiples of 1/4) or whose magnitudes coincide:
        # the pre-load is non-zero although Nxx + Nyy + Nxy == 0 (equal and opposite biaxial load, ...)
        p_ = rng.choice([-1, 1]) * rng.randint(80, 4000) / 4.
        q_ = rng.choice([-1, 1]) * rng.randint(80, 4000) / 4.
        return rng.choice([(p_, -p_, z()), (p_, z(), -p_), (z(), p_, -p_), (p_, q_, -(p_ + q_)), (p_, p_, -2 * p_)])
    return (v() if 'x' in pat else z(), v() if 'y' in pat else z(), v() if 's' in pat else z())


def gen(ctx, rng):
    case = pc.gen_panel_case(rng, max_mn=ctx.scale(3, 5))
    case['pad'] = rng.choice([0, 0, 3, 7])
    case['row0'] = rng.choice([0, case['pad']]) if case['pad'] else 0
    case['col0'] = case['row0']      # a panel occupies the same range of rows and columns
    if rng.random() < 0.35:
        case['Nxx_cte'], case['Nyy_cte'], case['Nxy_cte'] = gen_preload(rng)
    case['force_ortho'] = rng.random() < 0.2           # Panel.force_orthotropic_laminate (rarely used option)
    return case


def additivity(ctx, rng, t=None):
    """sub-intervals that tile the width add up to the full-width matrix"""
    case = pc.gen_panel_case(rng, max_mn=3, y12=False)
    if (rng.random() < 0.5) if t is None else (t % 2 == 0):          # ... also with a constant membrane pre-load on every strip
        case['Nxx_cte'], case['Nyy_cte'], case['Nxy_cte'] = gen_preload(rng)
    b = case['b']
    cuts = sorted([0.] + [rng.uniform(0.05, 0.95) * b for _ in range(rng.randint(1, 3))] + [b])
    def mk(c):
        q_ = pc.make_panel(c)
        for k in ('Nxx_cte', 'Nyy_cte', 'Nxy_cte'):
            setattr(q_, k, c.get(k))
        return q_
    p = mk(case)
    full = pc.quiet(p.calc_k0, silent=True).toarray()
    acc = np.zeros_like(full)
    for y1, y2 in zip(cuts[:-1], cuts[1:]):
        c2 = dict(case, y1=y1, y2=y2)
        acc += pc.quiet(mk(c2).calc_k0, silent=True).toarray()
    d = pc.rel_diff(full, acc)
    if d > 1e-9:
        return dict(case, cuts=cuts), 'sub-interval matrices over cuts %r do not add up to the full-width matrix: rel %.3e' % (cuts, d)
    return None, None


def reuse_case(ctx, rng, t=None):
    """the stiffness matrix belongs to the laminate the panel has NOW: a Panel whose stack / ply data are edited (in place or by
    re-assignment) between two evaluations gives the matrix of a freshly defined panel with the edited data"""
    case = pc.gen_panel_case(rng, models=('Plate', 'CPanel'), max_mn=3, y12=False)
    if len(case['stack']) < 2:
        case['stack'] = list(case['stack']) + [30.]
    p = pc.make_panel(case)
    pc.quiet(p.calc_k0, silent=True)
    EDITS = ['stack item', 'stack reverse', 'plyt', 'laminaprop', 'offset', 'geometry', 'flags']
    edit = rng.choice(EDITS) if t is None else EDITS[t % len(EDITS)]         # every kind of edit on every run
    c2 = dict(case, stack=list(case['stack']))
    if edit == 'stack item':
        k = rng.randrange(len(c2['stack']))
        c2['stack'][k] = c2['stack'][k] + rng.choice([15., 30., -40.])
        p.stack[k] = c2['stack'][k]                      # in-place edit of the caller's list
    elif edit == 'stack reverse':
        c2['stack'] = c2['stack'][::-1]
        c2['stack'][0] += 10.
        p.stack.reverse()
        p.stack[0] += 10.
    elif edit == 'plyt':
        c2['plyt'] = case['plyt'] * 1.5
        p.plyt = c2['plyt']
        p.plyts = []
    elif edit == 'offset':
        c2['offset'] = case['offset'] + rng.choice([-1., 1.]) * rng.uniform(0.3, 1.5) * case['plyt']
        p.offset = c2['offset']
    elif edit == 'geometry':
        c2['a'], c2['b'] = case['a'] * 1.25, case['b'] * 0.8
        p.a, p.b = c2['a'], c2['b']
        if case['r']:
            c2['r'] = case['r'] * 1.5
            p.r = c2['r']
    elif edit == 'flags':
        c2['flags'] = dict(case['flags'])
        for k_ in rng.sample(sorted(c2['flags']), 5):
            c2['flags'][k_] = 1. - c2['flags'][k_] if c2['flags'][k_] in (0., 1.) else 0.
            setattr(p, k_, c2['flags'][k_])
    else:
        lp = list(case['laminaprop'])
        lp[0] *= 0.7
        c2['laminaprop'] = tuple(lp)
        p.laminaprop = tuple(lp)
        p.laminaprops = []
    got = pc.quiet(p.calc_k0, silent=True).toarray()
    want = pc.quiet(pc.make_panel(c2).calc_k0, silent=True).toarray()
    d = pc.rel_diff(got, want)
    if d > 1e-12:
        return dict(case=case, edit=edit, edited=c2), ('calc_k0 after editing the panel\'s %s differs from the matrix of a freshly defined panel with '
                                                        'the edited data: rel %.3e (stale laminate)' % (edit, d))
    return None, None


def correspondence(ctx):
    ir = pc.translated(ctx)
    rng = ctx.rng
    n = ctx.scale(40, 400)
    dist = dict(models={}, y1y2=0, preload=0, placed=0, generic_flags=0)
    for t in range(n):
        case = gen(ctx, rng)
        ctx.evaluations += 1
        dist['models'][case['lean_model']] = dist['models'].get(case['lean_model'], 0) + 1
        dist['y1y2'] += case['y1'] is not None
        dist['preload'] += bool(case.get('Nxx_cte'))
        dist['placed'] += case['pad'] > 0
        generic = any(v not in (0., 1.) for v in case['flags'].values())
        dist['generic_flags'] += generic
        if case['m'] * case['n'] >= 4 and (len(case['stack']) > 1 or generic):
            ctx.nontrivial.add(repr(sorted(case.items(), key=str)))
        ctx.sample({k: v for k, v in case.items() if k != 'flags'}, limit=3)
        v_bad, p_bad = run_case(ctx, case, ir)
        if p_bad:
            ctx.violation('C02 fails on the implementation: ' + p_bad, dict(case=case))
            return
        if v_bad:
            ctx.violation(v_bad + ' (source model and running binary diverge, or translator error); the energy '
                          'oracle agrees with the running code on this panel', dict(case=case, tie='V fk0'),
                          found_input=False)
            return
    # very thin, very large panels with a rich basis: the bending block is 1e-9 of the membrane block and its high-order entries are
    # 1e-15 of the largest entry of the matrix (judged block-wise, on their own scale; seeded change C15-1 prunes exactly those)
    for t in range(ctx.scale(1, 4)):
        case = pc.gen_panel_case(rng, models=('Plate', 'CPanel') if t else ('Plate',), max_mn=3, y12=False)
        mn = 10 + 2 * t
        case.update(a=rng.uniform(8., 14.), b=rng.uniform(4., 6.), plyt=rng.choice([0.1e-3, 0.2e-3]), stack=[0.] if t % 2 == 0 else [0., 90.],
                    laminaprop=(71e9, 71e9, 0.33) if t % 2 == 0 else (142.5e9, 8.7e9, 0.28, 5.1e9, 5.1e9, 5.1e9), m=mn, n=mn, offset=0.,
                    pad=0, row0=0, col0=0)
        if case['r'] is not None:
            case['r'] = 40.
        for k in case['flags']:
            case['flags'][k] = 0. if k[1:3] in ('1t', '2t') else 1.
        ctx.evaluations += 1
        v_bad, p_bad = run_case(ctx, case, ir, with_v=False)
        dist['thin_rich'] = dist.get('thin_rich', 0) + 1
        if p_bad:
            ctx.violation('C02 fails on the implementation: ' + p_bad, dict(case=case))
            return
    for t in range(ctx.scale(6, 40)):
        c, bad = additivity(ctx, rng, t)
        ctx.evaluations += 1
        if bad:
            ctx.violation('C02 fails on the implementation: ' + bad, dict(case=c, additivity=True))
            return
    for t in range(ctx.scale(14, 70)):
        c, bad = reuse_case(ctx, rng, t)
        ctx.evaluations += 1
        if bad:
            ctx.violation('C02 fails on the implementation: ' + bad, dict(case=c, reuse=True))
            return
    ctx.cov['input_distribution'] = dist
    ctx.cov['programs'] = 8
    ctx.cov['translated_kernels'] = ['%s.%s' % (m, k) for m in ir for k in KERNELS]


def search(ctx, reason):
    """a theorem / the translator no longer checks: (1) model arm - which entry of the source-as-written
    differs from the energy form, with a rational witness; (2) implementation arm on random panels."""
    found = False
    try:
        ir = pc.translated(ctx)
    except Exception as e:
        ir = None
        ctx.log('translator unusable for the model arm: %s' % e)
    if ir:
        for lean_model, (kernels, schemas, consts) in ir.items():
            for kname in KERNELS:
                bad = panel_v.entry_vs_spec(kernels[kname], consts, pc.MODEL_OF[lean_model], 'k0', ctx.rng)
                ctx.evaluations += 1
                if bad:
                    ro, co, pt = bad[0]
                    ctx.violation('C02 fails on the source as written: %s.%s entry (row+%d, col+%d) is not the Hessian of the '
                                  'Donnell strain energy (at a random rational point the source gives %r, the energy form %r); '
                                  'the running binary is stale w.r.t. this source if the implementation arm stays quiet'
                                  % (pc.MODEL_OF[lean_model], kname, ro, co, pt['value_in_source'], pt['value_of_energy_form']),
                                  dict(model=lean_model, kernel=kname, entry=[ro, co], point=pt, broken=reason))
                    found = True
        if found:
            return True
        rng = ctx.rng
        for t in range(ctx.scale(30, 200)):
            case = gen(ctx, rng)
            ctx.evaluations += 1
            try:
                v_bad, p_bad = run_case(ctx, case, ir)
            except pyx.TranslateError:
                v_bad, p_bad = None, None
            if p_bad:
                ctx.violation('C02 fails on the implementation: ' + p_bad, dict(case=case, broken=reason))
                return True
    return found


def replay(ctx, data):
    r = data['replay']
    if 'case' in r and r['case'] and not r.get('additivity'):
        ir = pc.translated(ctx)
        v_bad, p_bad = run_case(ctx, r['case'], ir)
        print('V:', v_bad, '| property on implementation:', p_bad)
        return 1 if (v_bad or p_bad) else 0
    print('replay:', data['what'])
    return 1
