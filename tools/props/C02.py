"""C02 — constitutive stiffness = Hessian of the Donnell CLT strain energy.
T: Gen/Panel/*.lean regenerated from the .pyx sources; theorems Props/C02.lean re-checked.
H: Model/PanelGlue.lean (hand model of the glue of Panel.calc_k0 / calc_kG0 / calc_kM / calc_kA / calc_cA / calc_kT) vs the running
   _panel.py: kernel calls recorded by wrapping modelDB.db[model]['matrices' / 'matrices_num'] (glue_correspondence).
V: IR of fk0/fk0y1y2 interpreted on random panels vs Panel.calc_k0(finalize=False) of the running code.
Implementation arm: energy-Hessian oracle (operator tables x exact Bardell integrals) vs Panel.calc_k0().
"""
from fractions import Fraction

import numpy as np

from tools import panel_v
from tools.props import panel_common as pc
from tools.translate import pyx

TRUSTED = pc.TRUSTED_T + [
    'hand model lean/CompmechVerif/Model/PanelGlue.lean of the Python glue Panel._rebuild / get_size / check_c / calc_k0 / calc_kG0 / calc_kT / '
    'calc_kM / calc_kA / calc_cA (which kernel, every scalar argument, r / alpharad carried by the panel, combination of the results, '
    'exception classes, attributes left behind): tied to the running _panel.py by the recorded-kernel-call correspondence '
    'glue_correspondence (model run at Q on the exact float inputs through drivers/C02.lean) on the explored states / arguments only; '
    'the compiled kernels are parameters of that model (their models are the regenerated Gen/Panel files)',
]
ASSUMPTIONS = [
    'entry theorems are per integration cell (one constant-radius section for conical panels); summation over '
    'series indices / sections and the COO placement are checked numerically (V), not proved',
    'fkL_num (state dependent) belongs to C08/C14',
]
RULE = ('random panels from one PRNG: model in {plate, plate_w, cpanel, kpanel}, m,n in 1..4, random geometry, 1-4 ply '
        'laminates incl. unsymmetric + offset, all 24 edge flags random in {0,1} or generic reals, optional y1<y2, '
        'optional constant pre-load, optional placement (row0/col0/size); non-trivial = m*n >= 4 and a laminate with '
        'B != 0 or generic flags; distinct by case parameters')
KERNELS = ('fk0', 'fk0y1y2')


def translate(ctx):
    pc.translated(ctx)


def run_case(ctx, case, ir, with_v=True):
    """returns (V disagreement or None, property failure or None)"""
    kernels, schemas, consts = ir[case['lean_model']]
    p = pc.make_panel(case)
    size0 = (1 if case['lean_model'] == 'PlateW' else 3) * case['m'] * case['n']
    size, row0, col0 = size0 + case['pad'], case['row0'], case['col0']
    for k in ('Nxx_cte', 'Nyy_cte', 'Nxy_cte'):
        setattr(p, k, case.get(k))
    if case.get('force_ortho'):
        p.force_orthotropic_laminate = True
    try:
        raw = pc.quiet(p.calc_k0, size=size, row0=row0, col0=col0, silent=True, finalize=False).toarray()
        full = pc.quiet(p.calc_k0, size=size, row0=row0, col0=col0, silent=True, finalize=True).toarray()
    except Exception as e:                                   # noqa  (an admissible panel definition: the package must deliver the matrix)
        return None, 'calc_k0 raised %s: %s on an admissible panel definition' % (type(e).__name__, str(e)[:150])
    y12 = (case['y1'], case['y2']) if case['y1'] is not None else None
    kname = 'fk0y1y2' if y12 else 'fk0'
    params = dict(y1=case['y1'], y2=case['y2'])
    ncte = [case.get(k) or 0. for k in ('Nxx_cte', 'Nyy_cte', 'Nxy_cte')]
    v_bad = None
    mine = panel_v.interp_kernel(kernels[kname], consts, p, params, size, row0, col0) if with_v else raw
    if any(ncte) and with_v:
        gname = 'fkG0y1y2' if y12 else 'fkG0'
        mine = mine + panel_v.interp_kernel(kernels[gname], consts, p,
                                            dict(params, Nxx=ncte[0], Nyy=ncte[1], Nxy=ncte[2]), size, row0, col0)
    num_ = 1 if case['lean_model'] == 'PlateW' else 3
    d = max(pc.rel_diff(raw, mine), pc.block_rel_diff(raw, mine, num_, row0) / 10.)
    if d > 1e-9:
        v_bad = 'translated %s interpreted on this panel differs from Panel.calc_k0(finalize=False): rel %.3e' % (kname, d)
    # property predicate on the implementation
    # the laminate of the oracle is computed from the case data by an independent lamination theory (not read from the panel)
    want = panel_v.oracle_matrix(case['model'], p, 'k0', {}, size, row0, col0, y12, F=pc.independent_ABD(case))
    if any(ncte):
        want = want + panel_v.oracle_matrix(case['model'], p, 'kG0', dict(Nxx=ncte[0], Nyy=ncte[1], Nxy=ncte[2]),
                                            size, row0, col0, y12)
    p_bad = None
    d2 = max(pc.rel_diff(full, want), pc.block_rel_diff(full, want, num_, row0))       # every field block on its own scale
    if d2 > 1e-8:
        i, j = np.unravel_index(np.abs(full - want).argmax(), full.shape)
        p_bad = ('calc_k0 differs from the Hessian of the strain energy%s: rel %.3e at [%d,%d] (code %.6e, energy %.6e)'
                 % (' + pre-load' if any(ncte) else '', d2, i, j, full[i, j], want[i, j]))
    elif any(ncte) and pre_load_part_bad(p, case, full, size, row0, col0, y12, ncte):
        p_bad = pre_load_part_bad(p, case, full, size, row0, col0, y12, ncte)
    elif np.abs(full - full.T).max() > 0:
        p_bad = 'calc_k0 not symmetric'
    elif not any(ncte):
        w = np.linalg.eigvalsh(full)
        if w.min() < -1e-9 * max(abs(w).max(), 1e-300):
            p_bad = 'calc_k0 not positive semi-definite (min eig %.3e, max %.3e)' % (w.min(), w.max())
    return v_bad, p_bad


def pre_load_part_bad(p, case, full, size, row0, col0, y12, ncte):
    """'a constant membrane pre-load adds exactly the matching initial-stress matrix', judged on the scale of that matrix itself
    (it can be many orders of magnitude below the constitutive part, where the whole-matrix comparison cannot see it)"""
    for k in ('Nxx_cte', 'Nyy_cte', 'Nxy_cte'):
        setattr(p, k, None)
    bare = pc.quiet(p.calc_k0, size=size, row0=row0, col0=col0, silent=True, finalize=True).toarray()
    for k in ('Nxx_cte', 'Nyy_cte', 'Nxy_cte'):
        setattr(p, k, case.get(k))
    g = panel_v.oracle_matrix(case['model'], p, 'kG0', dict(Nxx=ncte[0], Nyy=ncte[1], Nxy=ncte[2]), size, row0, col0, y12)
    tol = 1e-6 * np.abs(g).max() + 1e-11 * np.abs(bare).max()
    d = np.abs((full - bare) - g)
    if d.max() > tol and np.abs(g).max() > 1e3 * 1e-11 * np.abs(bare).max():
        i, j = np.unravel_index(d.argmax(), d.shape)
        return ('calc_k0 with the constant pre-load N_cte=%r minus calc_k0 without it is not the initial-stress matrix of that load: '
                'at [%d,%d] difference %.6e, pre-stress Hessian %.6e' % (tuple(ncte), i, j, (full - bare)[i, j], g[i, j]))
    return None


def gen_preload(rng):
    """constant membrane pre-stress: every component alone (also pure shear), pairs, all three; unset components are None or 0"""
    z = lambda: rng.choice([None, 0.])
    v = lambda: rng.choice([-1, 1]) * rng.uniform(20., 1e3)
    pat = rng.choice(['x', 'y', 's', 's', 'xy', 'xs', 'ys', 'xys', 'xys', 'cancel', 'cancel', 'cancel'])
    if pat == 'cancel':
        # components that cancel in a sum (exactly, in floating point: multiples of 1/4) or whose magnitudes coincide:
        # the pre-load is non-zero although Nxx + Nyy + Nxy == 0 (equal and opposite biaxial load, ...)
        p_ = rng.choice([-1, 1]) * rng.randint(80, 4000) / 4.
        q_ = rng.choice([-1, 1]) * rng.randint(80, 4000) / 4.
        return rng.choice([(p_, -p_, z()), (p_, z(), -p_), (z(), p_, -p_), (p_, q_, -(p_ + q_)), (p_, p_, -2 * p_)])
    return (v() if 'x' in pat else z(), v() if 'y' in pat else z(), v() if 's' in pat else z())


def gen(ctx, rng):
    case = pc.gen_panel_case(rng, max_mn=ctx.scale(4, 5))
    case['pad'] = rng.choice([0, 0, 3, 7])
    case['row0'] = rng.choice([0, case['pad']]) if case['pad'] else 0
    case['col0'] = case['row0']      # a panel occupies the same range of rows and columns
    if rng.random() < 0.35:
        case['Nxx_cte'], case['Nyy_cte'], case['Nxy_cte'] = gen_preload(rng)
    case['force_ortho'] = rng.random() < 0.2           # Panel.force_orthotropic_laminate (rarely used option)
    return case


def additivity(ctx, rng, t=None):
    """sub-intervals that tile the width add up to the full-width matrix"""
    case = pc.gen_panel_case(rng, max_mn=3, y12=False)
    if (rng.random() < 0.5) if t is None else (t % 2 == 0):          # ... also with a constant membrane pre-load on every strip
        case['Nxx_cte'], case['Nyy_cte'], case['Nxy_cte'] = gen_preload(rng)
    b = case['b']
    cuts = sorted([0.] + [rng.uniform(0.05, 0.95) * b for _ in range(rng.randint(1, 3))] + [b])
    def mk(c):
        q_ = pc.make_panel(c)
        for k in ('Nxx_cte', 'Nyy_cte', 'Nxy_cte'):
            setattr(q_, k, c.get(k))
        return q_
    p = mk(case)
    full = pc.quiet(p.calc_k0, silent=True).toarray()
    acc = np.zeros_like(full)
    for y1, y2 in zip(cuts[:-1], cuts[1:]):
        c2 = dict(case, y1=y1, y2=y2)
        acc += pc.quiet(mk(c2).calc_k0, silent=True).toarray()
    d = pc.rel_diff(full, acc)
    if d > 1e-9:
        return dict(case, cuts=cuts), 'sub-interval matrices over cuts %r do not add up to the full-width matrix: rel %.3e' % (cuts, d)
    return None, None


def reuse_case(ctx, rng, t=None):
    """the stiffness matrix belongs to the laminate the panel has NOW: a Panel whose stack / ply data are edited (in place or by
    re-assignment) between two evaluations gives the matrix of a freshly defined panel with the edited data"""
    case = pc.gen_panel_case(rng, models=('Plate', 'CPanel'), max_mn=3, y12=False)
    if len(case['stack']) < 2:
        case['stack'] = list(case['stack']) + [30.]
    p = pc.make_panel(case)
    pc.quiet(p.calc_k0, silent=True)
    EDITS = ['stack item', 'stack reverse', 'plyt', 'laminaprop', 'offset', 'geometry', 'flags']
    edit = rng.choice(EDITS) if t is None else EDITS[t % len(EDITS)]         # every kind of edit on every run
    c2 = dict(case, stack=list(case['stack']))
    if edit == 'stack item':
        k = rng.randrange(len(c2['stack']))
        c2['stack'][k] = c2['stack'][k] + rng.choice([15., 30., -40.])
        p.stack[k] = c2['stack'][k]                      # in-place edit of the caller's list
    elif edit == 'stack reverse':
        c2['stack'] = c2['stack'][::-1]
        c2['stack'][0] += 10.
        p.stack.reverse()
        p.stack[0] += 10.
    elif edit == 'plyt':
        c2['plyt'] = case['plyt'] * 1.5
        p.plyt = c2['plyt']
        p.plyts = []
    elif edit == 'offset':
        c2['offset'] = case['offset'] + rng.choice([-1., 1.]) * rng.uniform(0.3, 1.5) * case['plyt']
        p.offset = c2['offset']
    elif edit == 'geometry':
        c2['a'], c2['b'] = case['a'] * 1.25, case['b'] * 0.8
        p.a, p.b = c2['a'], c2['b']
        if case['r']:
            c2['r'] = case['r'] * 1.5
            p.r = c2['r']
    elif edit == 'flags':
        c2['flags'] = dict(case['flags'])
        for k_ in rng.sample(sorted(c2['flags']), 5):
            c2['flags'][k_] = 1. - c2['flags'][k_] if c2['flags'][k_] in (0., 1.) else 0.
            setattr(p, k_, c2['flags'][k_])
    else:
        lp = list(case['laminaprop'])
        lp[0] *= 0.7
        c2['laminaprop'] = tuple(lp)
        p.laminaprop = tuple(lp)
        p.laminaprops = []
    got = pc.quiet(p.calc_k0, silent=True).toarray()
    want = pc.quiet(pc.make_panel(c2).calc_k0, silent=True).toarray()
    d = pc.rel_diff(got, want)
    if d > 1e-12:
        return dict(case=case, edit=edit, edited=c2), ('calc_k0 after editing the panel\'s %s differs from the matrix of a freshly defined panel with '
                                                        'the edited data: rel %.3e (stale laminate)' % (edit, d))
    return None, None



# ----------------------------------------------------------------------------- H: Model/PanelGlue.lean vs the running glue of _panel.py
# The hand model of Panel.calc_k0 / calc_kG0 / calc_kM / calc_kA / calc_cA (+ calc_kT) predicts, for a panel STATE and call arguments,
# the list of kernel calls (kernel, every scalar argument, the r / alpharad the panel object carries at that moment), the way the kernel
# results are combined, the exception class, and the attributes left behind.  The real calls are recorded by replacing the module objects
# db[model]['matrices'] / ['matrices_num'] by recorders which either delegate to the compiled kernel ('real') or hand back a small random
# integer COO matrix ('fake': the panel definition need not be one the kernels accept, and the combination is compared exactly).
GLUE_METHODS = ('k0', 'kG0', 'kM', 'kA', 'cA', 'kT', 'fint')
GLUE_TAG = {'plate_clt_donnell_bardell': 'plate', 'plate_clt_donnell_bardell_w': 'platew',
            'cpanel_clt_donnell_bardell': 'cpanel', 'kpanel_clt_donnell_bardell': 'kpanel'}
GLUE_DOFS = {'plate': 3, 'platew': 1, 'cpanel': 3, 'kpanel': 3}
GLUE_ERRORS = [('ValueError', 'is not a valid model option', 'fintModel'), ('ValueError', 'matrices_num not implemented', 'fintNoNum'),
               ('ValueError', 'calc_fint not implemented', 'fintNoKernel'), ('TypeError', "required positional argument: 'c'", 'cMissing'),
               ('ValueError', 'Buffer has wrong number of dimensions', 'cBufferNdim'), ('ValueError', 'Invalid shape for Finput', 'finputShape'),
               ('ValueError', 'dimension mismatch', 'dotMismatch'),
               ('ValueError', 'valid models are', 'rebuildModel'), ('ValueError', 'stack must be defined', 'rebuildStack'),
               ('ValueError', 'laminaprop must be defined', 'rebuildLaminaprop'), ('ValueError', 'plyt must be defined', 'rebuildPlyt'),
               ('TypeError', 'must be a NumPy ndarray', 'cNotArray'), ('ValueError', 'must be a 1-D', 'cNdim'),
               ('ValueError', 'same size as the global', 'cSize'), ('NotImplementedError', 'Partial domain', 'stripK0State'),
               ('NotImplementedError', 'Only y1=0', 'stripKGState'), ('KeyError', 'matrices_num', 'noNumModule'), ('KeyError', '', 'noModel'),
               ('ValueError', '"mu"', 'muMissing'), ('NotImplementedError', 'Conical', 'conical'), ('TypeError', 'not iterable', 'modelNoneIn'),
               ('ValueError', 'cannot be a NoneValue', 'machNone'), ('ValueError', 'must be >= 1', 'machBelowOne'),
               ('ValueError', 'Invalid flow', 'flowInvalid'), ('AttributeError', "'size'", 'noSizeAttr'), ('AttributeError', 'has no attribute', 'noKernel'),
               ('RuntimeError', 'lam object is None', 'lamNone')]


def _opt(rng, v, none=0.2, zero=0.2):
    r_ = rng.random()
    return None if r_ < none else (0. if r_ < none + zero else v)


def gen_triple(rng, kind):
    """three membrane resultants: all None / None-or-0.0 / cancelling / general (single components, pure shear, pairs, all three)"""
    if kind == 'none':
        return (None, None, None)
    if kind == 'zeros':
        t = [rng.choice([None, 0.]) for _ in range(3)]
        t[rng.randrange(3)] = 0.
        return tuple(t)
    if kind == 'cancel':
        while True:
            t = gen_preload(rng)
            if sum(x or 0. for x in t) == 0.:
                return t
    return gen_preload(rng)


def gen_glue_case(rng, t):
    base = pc.gen_panel_case(rng, max_mn=2, y12=False)
    base['flags'] = {k: float(v) for k, v in base['flags'].items()}
    meth = ('k0', 'kG0', 'kM', 'kA', 'cA', 'kT', 'k0', 'kA', 'kG0', 'kM', 'fint', 'kT', 'fint')[t % 13]
    real = rng.random() < 0.35
    tag = GLUE_TAG[base['model']]
    own = GLUE_DOFS[tag] * base['m'] * base['n']
    b = base['b']
    g = dict(base=base, method=meth, real=real, fake_seed=rng.randrange(10 ** 9))
    # ---- the definition
    ypat = rng.choice(['none', 'none', 'both0', 'both0', 'both', 'both', 'y1only', 'y1zero', 'y2only'])
    yi = sorted([rng.uniform(0.1, 0.45) * b, rng.choice([rng.uniform(0.55, 0.95) * b, b])])
    g['ypat'] = ypat
    g['y1'], g['y2'] = {'none': (None, None), 'both0': (0., yi[1]), 'both': (yi[0], yi[1]), 'y1only': (yi[0], None),
                        'y1zero': (0., None), 'y2only': (None, yi[1])}[ypat]
    g['prepat'] = rng.choice(['none', 'zeros', 'cancel', 'general', 'general'])
    g['cte'] = gen_triple(rng, g['prepat'])
    g['loadpat'] = rng.choice(['none', 'zeros', 'cancel', 'general', 'general', 'general'])
    g['loads'] = gen_triple(rng, g['loadpat'])
    g['offset'] = rng.choice([0., base['offset'], rng.choice([-1., 1.]) * rng.uniform(0.2, 2.) * base['plyt']])
    g['mu'] = None if rng.random() < 0.15 else base['mu']
    g['flow'] = rng.choice(['x', 'x', 'X', 'y', 'Y', 'z'])
    if rng.random() < 0.55:
        g['aero'] = dict(beta=rng.uniform(0.5, 50.), gamma=_opt(rng, rng.uniform(0.1, 5.), 0.3, 0.3), aeromu=_opt(rng, rng.uniform(0.1, 2.), 0.4, 0.1),
                         Mach=rng.choice([None, 2.]), rho_air=None, V=None, speed_sound=None)
    else:
        g['aero'] = dict(beta=None, gamma=_opt(rng, 3.), aeromu=None, Mach=rng.choice([None, 0.5, 1, 1., 1.5, 3.]),
                         rho_air=rng.uniform(0.2, 1.3), V=rng.uniform(300., 900.), speed_sound=rng.uniform(290., 340.))
    g['ortho'] = rng.random() < 0.2
    if real:
        g['model_attr'], g['r'], g['alphadeg'] = tag, base['r'], base['alphadeg']
        if tag == 'kpanel' and rng.random() < 0.3:
            g['alphadeg'] = None
        g['stack_ok'], g['lp'], g['plyt'] = True, True, True
        g['lps'] = g['plyts'] = True if meth in ('kM', 'kA', 'cA') else rng.random() < 0.3
        g['lam'] = True if meth in ('kM', 'kA', 'cA') else rng.random() < 0.5
    else:
        g['model_attr'] = tag if rng.random() < 0.9 else rng.choice(['unset', 'unset', 'invalid'])
        g['r'] = rng.choice([base['r'], base['r'], None, 0., rng.uniform(0.5, 5.)])
        g['alphadeg'] = rng.choice([base['alphadeg'], base['alphadeg'], None, 0., 12.5])
        if g['model_attr'] == 'unset':
            # all four branches of the model selection of _rebuild: (r, alphadeg) given or not
            g['r'], g['alphadeg'] = rng.choice([(None, None), (None, None), (2.5, None), (2.5, 10.), (None, 10.), (0., None)])
        g['stack_ok'] = rng.random() > 0.04
        g['lp'] = rng.random() > 0.06
        g['plyt'] = rng.random() > 0.06
        g['lps'], g['plyts'] = rng.random() < 0.3, rng.random() < 0.3
        g['lam'] = rng.random() < 0.5
    g['alstale'] = rng.choice([None, None, 7.5, 0.])
    g['size_attr'] = rng.choice(['absent', 'own', 'own'] if real else ['absent', 'own', 'own', 'other'])
    # ---- the call
    pad = rng.choice([0, 0, 3, 7])
    g['size'] = own + pad if (pad or rng.random() < 0.3) else None
    r0 = rng.choice([0, pad])
    g['row0'], g['col0'] = rng.choice([(None, None), (r0, r0), (r0, r0), (r0, None), (None, r0)])
    if not real and rng.random() < 0.15:
        g['col0'] = rng.randrange(0, pad + 1)
    g['finalize'] = rng.random() < 0.6
    g['c'] = 'none'
    g['F'] = False
    g['nx'] = g['ny'] = None
    g['nl'] = False
    if meth in ('k0', 'kG0', 'kT', 'fint'):
        g['c'] = rng.choice(['none'] * 14 + ['ok'] * 6 + ['wrongsize', '2d', 'list']) if meth != 'fint' else \
            rng.choice(['ok'] * 12 + ['list'] * 3 + ['wrongsize', 'wrongsize', '2d', 'none'])
        g['F'] = rng.random() < 0.25
        g['nx'], g['ny'] = rng.choice([(None, None), (2, 3), (3, None), (None, 2)])
        g['nl'] = rng.random() < 0.5
        if real and (g['c'] != 'none' or g['F']):
            # the compiled numerical kernels index the Ritz vector with the placement offsets: keep them inside it
            g['size'], g['row0'], g['col0'] = rng.choice([None, own]), rng.choice([None, 0]), rng.choice([None, 0])
            if g['size_attr'] == 'other':
                g['size_attr'] = 'own'
        if meth == 'fint':
            if real and g['c'] == 'wrongsize':
                g['c'] = 'ok'                       # the compiled force kernel does not check the length of c
            if rng.random() < 0.6:
                g['lam'] = True                     # calc_fint reads self.F as it is: mostly after a calc_k0
    g['aeromu_arg'] = rng.uniform(0.1, 3.)
    g['prior'] = rng.random() < 0.3
    return g


class _GlueRec(object):
    """stands for one kernel module: records every call of a kernel function and delegates to the compiled one or fakes its result"""
    def __init__(self, mod, tag, log, render, real, frng):
        self.__dict__.update(_mod=mod, _tag=tag, _log=log, _render=render, _real=real, _frng=frng)

    def __getattr__(self, nm):
        f = getattr(self._mod, nm)            # a kernel the module does not have: the module's own AttributeError
        if not callable(f) or nm.startswith('_'):
            return f

        def g(*a, **k):
            entry = self._render(self._tag, nm, a, k)
            if self._real:
                out = f(*a, **k)
            elif nm == 'calc_fint':
                out = _fake_fint(a, self._frng)
            else:
                out = _fake_out(entry['size'], self._frng)
            entry['raw'] = out
            entry['out'] = np.array(out, dtype=float) if nm == 'calc_fint' else out.copy()
            self._log.append(entry)
            return out
        return g


def _fake_out(size, frng):
    from scipy.sparse import coo_matrix
    size = max(int(size), 1)
    pos = [(frng.randrange(size), frng.randrange(size)) for _ in range(frng.randint(2, 6))]
    d = frng.randrange(size)
    pos += [(d, d), pos[0]]                                       # a diagonal entry and a duplicate position
    if size > 1:
        i, j = sorted(frng.sample(range(size), 2))
        pos += [(i, j), (j, i)]                                   # strictly upper and strictly lower
    vals = [float(frng.choice([-1, 1]) * frng.randint(1, 9)) for _ in pos]
    return coo_matrix((vals, ([r for r, _ in pos], [c for _, c in pos])), shape=(size, size), dtype=float)


def _fake_fint(a, frng):
    """stand-in of the compiled calc_fint(double [:] cs, object Finput, panel, int size, int col0, int nx, int ny): the two checks made at its
    entry (typed-memoryview conversion of cs, shape of Finput), then a random integer vector of length size"""
    cs, Finput, _, size, col0, nx, ny = a
    if np.ndim(cs) != 1:
        raise ValueError('Buffer has wrong number of dimensions (expected 1, got %d)' % np.ndim(cs))
    Fi = np.asarray(Finput, dtype=float)
    if Fi.shape != (nx, ny, 6, 6) and Fi.shape != (6, 6):
        raise ValueError('Invalid shape for Finput!')
    return np.array([float(frng.randint(-9, 9)) for _ in range(max(int(size), 0))])


def _qs(x):
    from tools.common import q
    if x is None:
        return '-'
    try:
        return q(x)
    except (ValueError, OverflowError):
        return 'nonfinite'


def glue_run(g, prior_only=False, tracer=None):
    """runs the real glue on the case; returns dict(line=<driver line without results>, log, outcome, post, ...)"""
    import random as _random
    from compmech.panel import modelDB, _panel
    import compmech.composite.laminate as lam_mod
    base = g['base']
    tag = GLUE_TAG[base['model']]
    p = pc.make_panel(base)
    frng = _random.Random(g['fake_seed'])
    own = GLUE_DOFS[tag] * base['m'] * base['n']

    def define(p, alt=False):
        p.model = {'unset': None, 'invalid': 'no_such_model'}.get(g['model_attr'], base['model'])
        p.r, p.alphadeg = g['r'], g['alphadeg']
        p.y1, p.y2 = (g['y1'], g['y2']) if not alt else ((None, None) if g['y1'] is not None and g['y2'] is not None else (0., 0.5 * base['b']))
        p.offset = g['offset'] if not alt else g['offset'] + 0.5 * base['plyt']
        p.mu = g['mu'] if not alt else 17.
        p.Nxx, p.Nyy, p.Nxy = g['loads'] if not alt else (3., -4., 5.)
        p.Nxx_cte, p.Nyy_cte, p.Nxy_cte = g['cte'] if not alt else ((None, None, None) if any(g['cte']) else (2., 0., -1.))
        p.flow = g['flow'] if not alt else ('y' if g['flow'].lower() == 'x' else 'x')
        for k_, v_ in g['aero'].items():
            setattr(p, k_, v_)
        if alt and p.beta is not None:
            p.beta, p.gamma = p.beta * 2., 0.25
        p.force_orthotropic_laminate = bool(g['ortho'])
        p.stack = list(base['stack']) if g['stack_ok'] else []
        p.laminaprop = tuple(base['laminaprop']) if g['lp'] else None
        p.plyt = base['plyt'] if g['plyt'] else None
        p.laminaprops = [tuple(base['laminaprop']) for _ in base['stack']] if g['lps'] else None
        p.plyts = [base['plyt'] for _ in base['stack']] if g['plyts'] else None
        if g['lam']:
            p.lam = lam_mod.read_stack(list(base['stack']), plyt=base['plyt'], laminaprop=tuple(base['laminaprop']), offset=p.offset)
            p.F = p.lam.ABD
        else:
            p.lam, p.F = None, None
        if g['alstale'] is None:
            p.__dict__.pop('alpharad', None)
        else:
            p.alpharad = np.deg2rad(g['alstale'])
        if g['size_attr'] == 'absent':
            p.__dict__.pop('size', None)
        else:
            p.size = own if g['size_attr'] == 'own' else own + 5

    size_eff = g['size'] if g['size'] is not None else own
    crng = np.random.RandomState(g['fake_seed'] % (2 ** 31))
    cvec = {'none': None, 'ok': crng.uniform(-1, 1, size_eff) * 1e-3, 'wrongsize': crng.uniform(-1, 1, size_eff + 1),
            '2d': crng.uniform(-1, 1, (size_eff, 1)), 'list': [0.5] * size_eff}[g['c']]
    Fgiven = None
    if g['F']:
        Fgiven = lam_mod.read_stack(list(base['stack']), plyt=base['plyt'], laminaprop=tuple(base['laminaprop']), offset=0.).ABD.copy()
    kw = dict(silent=True, finalize=g['finalize'])
    if g['method'] == 'fint':
        del kw['finalize']                                   # calc_fint(c, size, col0, silent, nx, ny, Fnxny, inc): no row0, no finalize
    if g['method'] != 'cA':
        for k_ in ('size', 'row0', 'col0'):
            if g[k_] is not None and not (g['method'] == 'fint' and k_ == 'row0'):
                kw[k_] = g[k_]
    if g['method'] in ('k0', 'kG0', 'kT', 'fint'):
        if cvec is not None:
            kw['c'] = cvec
        if Fgiven is not None:
            kw['Fnxny'] = Fgiven
        for k_ in ('nx', 'ny'):
            if g[k_] is not None:
                kw[k_] = g[k_]
        if g['method'] not in ('kT', 'fint') and g['nl']:
            kw['NLgeom'] = True
    meth = getattr(p, 'calc_' + g['method'])
    args = (g['aeromu_arg'],) if g['method'] == 'cA' else ()

    log = []
    missing = object()

    def render(mtag, nm, a, k):
        e = dict(mod=mtag, name=nm, size=1, strs=[], al=missing, r=missing)
        pan = None
        for i_, x in enumerate(a):
            if x is p:
                pan = x
                e['strs'].append('P')
                if i_ + 1 < len(a) and isinstance(a[i_ + 1], (int, np.integer)):
                    e['size'] = int(a[i_ + 1])
            elif isinstance(x, np.ndarray):
                if x.ndim == 1:
                    if cvec is not None and isinstance(cvec, np.ndarray) and x.shape == cvec.shape and np.array_equal(x, cvec):
                        e['strs'].append('c')
                    elif isinstance(cvec, list) and nm == 'calc_fint' and np.array_equal(x, np.asarray(cvec, dtype=float)):
                        e['strs'].append('c')                # calc_fint converts a list itself (no check_c)
                    elif not x.any():
                        e['strs'].append('zeros%d' % x.shape[0])
                    else:
                        e['strs'].append('array?')
                elif Fgiven is not None and x is Fgiven:
                    e['strs'].append('Fnxny')
                elif x is getattr(p, 'F', None) or (p.lam is not None and x is p.lam.ABD):
                    e['strs'].append('F')
                else:
                    e['strs'].append('array?')
            elif isinstance(x, (bool, np.bool_)):
                e['strs'].append('bool?')
            elif isinstance(x, (int, np.integer)):
                e['strs'].append(str(int(x)))
            elif isinstance(x, (float, np.floating)):
                e['strs'].append(_qs(x))
            else:
                e['strs'].append('obj?%s' % type(x).__name__)
        for k_, v_ in sorted(k.items()):
            e['strs'].append('%s=%s' % (k_, int(v_) if isinstance(v_, (int, np.integer)) and not isinstance(v_, bool) else repr(v_)))
        if pan is not None:
            e['r'] = pan.__dict__.get('r', missing)
            e['al'] = pan.__dict__.get('alpharad', missing)
        return e

    offsets = []

    class LamProxy(object):
        def __getattr__(self, nm):
            f = getattr(lam_mod, nm)
            if nm != 'read_stack':
                return f

            def rs(*a, **k):
                offsets.append(k.get('offset', 'default'))
                return f(*a, **k)
            return rs

    saved = {}

    def install(record):
        for mname, ent in modelDB.db.items():
            for key in ('matrices', 'matrices_num'):
                if key in ent:
                    saved[(mname, key)] = ent[key]
                    ent[key] = _GlueRec(ent[key], 'mat' if key == 'matrices' else 'num', log if record else [], render, g['real'] and record, frng)
        saved['lam'] = _panel.laminate
        _panel.laminate = LamProxy()

    def restore():
        _panel.laminate = saved.pop('lam')
        for (mname, key), v_ in saved.items():
            modelDB.db[mname][key] = v_
        saved.clear()

    if g['prior']:
        # the same method was already evaluated on ANOTHER definition of this object (whatever it left behind must not matter)
        define(p, alt=True)
        install(False)
        try:
            pc.quiet(meth, *args, **kw)
        except Exception:                                    # noqa
            pass
        finally:
            restore()
        del offsets[:]
    define(p)
    if prior_only:
        return p
    a = g['aero']
    M = a['Mach']
    qv = 1.
    if M is not None and M >= 1:
        Me = 1.0001 if M == 1 else M
        qv = (Me ** 2 - 1) ** 0.5
    st = p.__dict__
    mtag = 'unset' if p.model is None else GLUE_TAG.get(p.model, 'invalid')
    fl = p.flow.lower() if p.flow.lower() in ('x', 'y') else 'other'
    pline = ('model=%s a=%s b=%s r=%s alphadeg=%s alfrom=%s y1=%s y2=%s offset=%s mu=%s Nxx=%s Nyy=%s Nxy=%s NxxCte=%s NyyCte=%s NxyCte=%s flow=%s '
             'beta=%s gamma=%s aeromu=%s mach=%s rho=%s V=%s ainf=%s q=%s m=%d n=%d nx=%d ny=%d size=%s ortho=%d stack=%d lps=%d lp=%d plyts=%d plyt=%d lam=%d'
             % (mtag, _qs(p.a), _qs(p.b), _qs(p.r), _qs(p.alphadeg), _qs(g['alstale']), _qs(p.y1), _qs(p.y2), _qs(p.offset), _qs(p.mu),
                _qs(p.Nxx), _qs(p.Nyy), _qs(p.Nxy), _qs(p.Nxx_cte), _qs(p.Nyy_cte), _qs(p.Nxy_cte), fl, _qs(p.beta), _qs(p.gamma), _qs(p.aeromu),
                _qs(p.Mach), _qs(p.rho_air or 0.), _qs(p.V or 0.), _qs(p.speed_sound or 1.), _qs(qv), p.m, p.n, p.nx, p.ny,
                '-' if 'size' not in st else str(st['size']), bool(p.force_orthotropic_laminate), len(p.stack or []), bool(p.laminaprops),
                bool(p.laminaprop), bool(p.plyts), p.plyt is not None, p.lam is not None))
    cdesc = '-'
    if g['c'] != 'none':
        cdesc = '%d:%d:%d' % (isinstance(cvec, np.ndarray), getattr(cvec, 'ndim', 0), cvec.shape[0] if isinstance(cvec, np.ndarray) else 0)
        if g['method'] == 'fint':
            # calc_fint hands np.ascontiguousarray(c) to the kernel and to the sparse product: what matters is the array it becomes
            cdesc = '%d:%d:%d' % (isinstance(cvec, np.ndarray), np.ndim(cvec), np.shape(cvec)[0])
    aline = ('size=%s row0=%s col0=%s fin=%d c=%s nx=%s ny=%s F=%d nl=%d aeromu=%s'
             % tuple(['-' if g[k_] is None else str(g[k_]) for k_ in ('size', 'row0', 'col0')] + [g['finalize'], cdesc]
                     + ['-' if g[k_] is None else str(g[k_]) for k_ in ('nx', 'ny')] + [g['F'], g['nl'], _qs(g['aeromu_arg'])]))
    import contextlib
    install(True)
    try:
        try:
            with (tracer if tracer is not None else contextlib.nullcontext()):
                ret = pc.quiet(meth, *args, **kw)
            outcome = ('ok', ret)
        except Exception as e:                               # noqa
            outcome = ('err', type(e).__name__, str(e))
    finally:
        restore()
    post = dict(model='unset' if p.model is None else GLUE_TAG.get(p.model, 'invalid'), r=p.__dict__.get('r'), al=p.__dict__.get('alpharad', missing),
                size=p.__dict__.get('size'), mach=p.Mach, lam=p.lam is not None, lps=bool(p.laminaprops), plyts=bool(p.plyts))
    return dict(p=p, pline=pline, aline=aline, log=log, outcome=outcome, post=post, offsets=offsets, missing=missing, cvec=cvec)


def glue_line(g, run):
    from tools.common import q
    if g['method'] == 'fint':
        res = []
        for e in run['log']:
            if e['name'] == 'calc_fint':
                res.append(' '.join(q(float(v_)) for v_ in e['out']))
            else:
                o = e['out'].tocoo() if not g['real'] else e['out'].tocsr().tocoo()
                res.append(' '.join('%d %d %s' % (r_, c_, q(v_)) for r_, c_, v_ in zip(o.row, o.col, o.data)))
        nv = len(run['log'][0]['out']) if run['log'] else 0
        probes = list(range(nv))[:240]
        run['probes'] = probes
        cv_ = run['cvec']
        cs = [] if cv_ is None or np.ndim(cv_) != 1 else [float(x) for x in np.asarray(cv_, dtype=float)]
        return 'C02 glue fint | %s | %s | %s | %s | %s' % (run['pline'], run['aline'], ' ; '.join(res), ' '.join(str(i) for i in probes),
                                                          ' '.join(q(x) for x in cs))
    res, support = [], set()
    for e in run['log']:
        o = e['out'].tocoo() if not g['real'] else e['out'].tocsr().tocoo()
        res.append(' '.join('%d %d %s' % (r_, c_, q(v_)) for r_, c_, v_ in zip(o.row, o.col, o.data)))
        for r_, c_ in zip(o.row, o.col):
            support.add((int(r_), int(c_)))
            support.add((int(c_), int(r_)))
    probes = sorted(support)
    if len(probes) > 240:
        import random as _random
        probes = sorted(_random.Random(g['fake_seed']).sample(probes, 240))
    run['support'], run['probes'] = support, probes
    return 'C02 glue %s | %s | %s | %s | %s' % (g['method'], run['pline'], run['aline'], ' ; '.join(res),
                                             ' '.join('%d %d' % pq for pq in probes))


def _same_q(a, b, exact):
    from tools.common import unq
    if a == b:
        return True
    if exact or '/' not in a or '/' not in b:
        return False
    x, y = unq(a), unq(b)
    return abs(x - y) <= abs(y) * Fraction(1, 10 ** 12)


def glue_compare(g, run, rep):
    """None or a text describing the first difference between the model reply and what the running glue did"""
    from tools.common import unq, close
    missing = run['missing']
    parts = [x.strip() for x in rep.split('|')]
    post_s = None
    exact = not (g['method'] == 'kA' and g['aero']['beta'] is None)          # Mach route: sqrt and rounding of the derived coefficients

    def post_bad(s):
        kv = dict(w.split('=') for w in s.split())
        po = run['post']
        if kv['model'] != po['model']:
            return 'attribute model afterwards: model %s, implementation %s' % (kv['model'], po['model'])
        if kv['r'] != _qs(po['r']):
            return 'attribute r afterwards: model %s, implementation %r' % (kv['r'], po['r'])
        if (kv['al'] == '-') != (po['al'] is missing) or (kv['al'] != '-' and float(np.deg2rad(float(unq(kv['al'])))) != float(po['al'])):
            return 'attribute alpharad afterwards: model deg2rad(%s), implementation %r' % (kv['al'], None if po['al'] is missing else po['al'])
        if kv['size'] != ('-' if po['size'] is None else str(po['size'])):
            return 'attribute size afterwards: model %s, implementation %r' % (kv['size'], po['size'])
        if not _same_q(kv['mach'], _qs(po['mach']), False):          # 1.0001 is not a binary fraction
            return 'attribute Mach afterwards: model %s, implementation %r' % (kv['mach'], po['mach'])
        for k_ in ('lam', 'lps', 'plyts'):
            if kv[k_] != str(int(po[k_])):
                return 'attribute %s set afterwards: model %s, implementation %r' % (k_, kv[k_], po[k_])
        return None

    if parts[0].startswith('err '):
        _, etype, etag = parts[0].split()
        if run['outcome'][0] != 'err':
            return 'model: raises %s (%s); implementation: returns (kernel calls %s)' % (etype, etag, [e['name'] for e in run['log']])
        itag = 'unmapped'
        for ty, frag, tg in GLUE_ERRORS:
            if run['outcome'][1] == ty and frag in run['outcome'][2]:
                itag = tg
                break
        if run['outcome'][1] != etype or itag != etag:
            return 'model: raises %s (%s); implementation: raises %s: %s' % (etype, etag, run['outcome'][1], run['outcome'][2][:120])
        return post_bad(parts[1])
    if parts[0] != 'ok':
        return 'driver: ' + rep[:200]
    if run['outcome'][0] != 'ok':
        return 'model: kernel calls %s; implementation: raises %s: %s' % (parts[1], run['outcome'][1], run['outcome'][2][:160])
    mcalls = [c for c in parts[1].split(' & ') if c]
    icalls = run['log']
    shown = ['%s.%s(%s)' % (e['mod'], e['name'], ','.join(e['strs'])) for e in icalls]
    if len(mcalls) != len(icalls):
        return 'kernel calls: model %s; implementation %s' % (mcalls, shown)
    for k_, (mc, e) in enumerate(zip(mcalls, icalls)):
        head, tail = mc.split('@')
        name, margs = head[:-1].split('(')
        margs = margs.split(',') if margs else []
        if name != '%s.%s' % (e['mod'], e['name']) or len(margs) != len(e['strs']) or \
                not all(_same_q(x, y, exact) for x, y in zip(e['strs'], margs)):
            return 'kernel call %d: model %s; implementation %s' % (k_, head, shown[k_])
        mr, mal = [w.split('=')[1] for w in tail.split(';')]
        ir_ = e['r']
        if (mr == '-') != (ir_ is missing or ir_ is None) or (mr != '-' and mr != _qs(ir_)):
            return 'kernel call %d (%s): panel.r seen by the kernel: model %s, implementation %r' % (k_, name, mr, None if ir_ is missing else ir_)
        ial = e['al']
        if (mal == '-') != (ial is missing) or (mal != '-' and float(np.deg2rad(float(unq(mal)))) != float(ial)):
            return ('kernel call %d (%s): panel.alpharad seen by the kernel: model deg2rad(%s), implementation %r'
                    % (k_, name, mal, None if ial is missing else ial))
    if g['method'] == 'fint':
        # the returned VECTOR: the kernel's own object when no pre-stress term is added, else an ndarray; values at every index
        ret = run['outcome'][1]
        pre = parts[2].split('=')[1] == '1'
        if not pre and ret is not icalls[0]['raw']:
            return 'model: calc_fint returns the object the force kernel returned; implementation returns %s' % type(ret).__name__
        if pre and not isinstance(ret, np.ndarray):
            return 'model: calc_fint returns np.asarray(kernel result) + kG0_cte.dot(c), an ndarray; implementation returns %s' % type(ret).__name__
        bad = post_bad(parts[3])
        if bad:
            return bad
        vec = np.asarray(ret, dtype=float)
        if vec.ndim != 1 or vec.shape[0] != len(icalls[0]['out']):
            return 'model: vector of length %d; implementation: shape %r' % (len(icalls[0]['out']), vec.shape)
        vals = parts[4].split() if len(parts) > 4 else []
        scale = max(float(np.abs(vec).max()) if vec.size else 0., 1e-300)
        for i_, v in zip(run['probes'], vals):
            if not close(float(vec[i_]), unq(v), scale):
                return ('internal force vector, entry %d: model (kernel result%s) %.12g, implementation %.12g'
                        % (i_, ' + finalize(kG0_cte).c' if pre else '', float(unq(v)), vec[i_]))
        return None
    info = dict(w.split('=') for w in parts[2].split())
    p = run['p']
    ret = run['outcome'][1]
    stored = getattr(p, info['store'], None)
    if (info['ret'] == '1') != (ret is not None) or (ret is not None and stored is not ret) or stored is None:
        return 'model: result stored in %s and %sreturned; implementation: returned %s, attribute %s' % (
            info['store'], '' if info['ret'] == '1' else 'not ', type(ret).__name__, type(stored).__name__)
    if g['method'] in ('k0', 'kT'):
        want_off = [] if info['lamoff'] == '-' else [info['lamoff']]
        if [_qs(o) for o in run['offsets']] != want_off:
            return 'laminate rebuilt with offset: model %s, implementation read_stack(offset=%r)' % (want_off, run['offsets'])
    bad = post_bad(parts[3])
    if bad:
        return bad
    dense = stored.toarray()
    if info['imag'] == '1':
        if np.abs(dense.real).max() > 0:
            return 'model: purely imaginary matrix; implementation has a real part'
        dense = dense.imag
    elif np.iscomplexobj(dense):
        return 'model: real matrix; implementation complex'
    vals = parts[4].split() if len(parts) > 4 else []
    scale = max(float(np.abs(dense).max()), 1e-300)
    for (r_, c_), v in zip(run['probes'], vals):
        same = (Fraction(*float(dense[r_, c_]).as_integer_ratio()) == unq(v)) if not g['real'] else close(float(dense[r_, c_]), unq(v), scale)
        if not same:
            return ('combination %s of the kernel results: entry [%d,%d] model %.12g, implementation %.12g'
                    % (info['comb'], r_, c_, float(unq(v)), dense[r_, c_]))
    for r_, c_ in zip(*np.nonzero(dense)):
        if (int(r_), int(c_)) not in run['support']:
            return 'combination %s: implementation has an entry at [%d,%d] outside the kernel results and their mirror images' % (info['comb'], r_, c_)
    return None


def glue_F_bad(g, run, zeros):
    """after calc_k0: the panel's laminate matrix is ABD of the CURRENT definition with exactly the modelled entries zeroed (force_orthotropic)"""
    import compmech.composite.laminate as lam_mod
    p = run['p']
    if g['method'] not in ('k0', 'kT') or run['outcome'][0] != 'ok' or not run['offsets']:
        return None
    want = lam_mod.read_stack(list(p.stack), plyts=p.plyts, laminaprops=p.laminaprops, offset=p.offset).ABD.copy()
    if g['ortho']:
        for i, j in zeros:
            want[i, j] = 0.
    if p.F is None or not np.array_equal(np.asarray(p.F), want):
        return 'Panel.F after calc_k0 is not lam.ABD of the current definition%s' % (' with the 16/26/61/62 terms removed' if g['ortho'] else '')
    return None


def glue_property_case(g):
    """the admissible C02 case (for run_case: energy oracle on the implementation) next to a glue case: the generated VALID panel the glue
    case was derived from, with the same strip bounds (both or none), constant pre-load, offset, laminate option and placement - whatever
    un-kernel-like state (model attribute, r, alphadeg, Ritz vector, ...) the glue case itself carries"""
    base = g['base']
    if g['method'] not in ('k0', 'kT'):
        return None
    own = GLUE_DOFS[GLUE_TAG[base['model']]] * base['m'] * base['n']
    y1, y2 = (g['y1'], g['y2']) if (g['y1'] is not None and g['y2'] is not None) else (None, None)
    pad = max((g['size'] - own) if g['size'] is not None else 0, 0)
    r0 = min(g['row0'] or 0, pad)
    return dict(base, y1=y1, y2=y2, offset=g['offset'], pad=pad, row0=r0, col0=r0, Nxx_cte=g['cte'][0], Nyy_cte=g['cte'][1],
                Nxy_cte=g['cte'][2], force_ortho=g['ortho'])


def glue_report(ctx, g, bad, ir, only_if_input=False):
    """a disagreement between Model/PanelGlue.lean and the running glue: is it a failure of the property on this (or the neighbouring
    admissible) input?  returns True when it was reported with a failing input of the property"""
    case = glue_property_case(g)
    p_bad = None
    if case is not None and ir is not None:
        try:
            _, p_bad = run_case(ctx, case, ir, with_v=False)
        except Exception as e:                               # noqa
            p_bad = None
    if p_bad:
        ctx.violation('C02 fails on the implementation: %s  [found through the glue correspondence: %s]' % (p_bad, bad), dict(case=case, glue=g))
        return True
    if not only_if_input:
        ctx.violation('model Model/PanelGlue.lean and Panel.calc_%s disagree: %s' % (g['method'], bad), dict(glue=g, tie='H panel glue'),
                      found_input=False)
    return False


def glue_corpus():
    """directed cases that run first on every run: every branch of the modelled functions and the shapes of the seeded regressions
    (strip from y1 = 0.0, pre-load whose components cancel, d = -offset on the conical model, stale alpharad / cached matrix after a prior
    call, Fnxny through calc_kT, two-call finalize of calc_kA, Mach == 1)"""
    import random as _random
    out = []

    def directed(method, lean_model, **over):
        k_ = 0
        while True:
            g = gen_glue_case(_random.Random(7919 * len(out) + k_), 0)
            if g['base']['lean_model'] == lean_model:
                break
            k_ += 1
        tag = GLUE_TAG[g['base']['model']]
        b = g['base']['b']
        g.update(method=method, real=False, model_attr=tag, r=g['base']['r'], alphadeg=g['base']['alphadeg'], stack_ok=True, lp=True, plyt=True,
                 lps=False, plyts=False, lam=True, c='none', F=False, nx=None, ny=None, nl=False, prior=False, size=None, row0=None, col0=None,
                 size_attr='own', alstale=None, finalize=True, y1=None, y2=None, ypat='directed', cte=(None, None, None), prepat='directed',
                 loads=(3., None, -2.), loadpat='directed', flow='x', mu=g['base']['mu'],
                 aero=dict(beta=2., gamma=None, aeromu=None, Mach=None, rho_air=None, V=None, speed_sound=None))
        for k2, v in over.items():
            g[k2] = v(b) if callable(v) else v
        out.append(g)
    directed('k0', 'Plate', model_attr='unset', r=None, alphadeg=None)
    directed('k0', 'CPanel', model_attr='unset', r=2.5, alphadeg=None)
    directed('k0', 'KPanel', model_attr='unset', r=2.5, alphadeg=10.)
    directed('k0', 'Plate', model_attr='unset', r=None, alphadeg=10.)
    directed('k0', 'Plate', y1=0., y2=lambda b: 0.5 * b, cte=(250., -250., None))
    directed('k0', 'KPanel', y1=0., y2=lambda b: 0.25 * b, cte=(None, 0., -7.), finalize=False, prior=True, alstale=7.5)
    directed('k0', 'PlateW', y1=lambda b: 0.25 * b, y2=None, cte=(0., 0., None), size=11, row0=4, col0=4)
    directed('k0', 'Plate', F=True, size_attr='own', nl=True)
    directed('k0', 'CPanel', c='ok', nx=3, ny=2)
    directed('kG0', 'Plate', y1=0., y2=lambda b: 0.75 * b, loads=(None, 5., -5.))
    directed('kG0', 'Plate', c='ok', lam=True)
    directed('kG0', 'CPanel', c='ok', F=True, nl=True, prior=True, alstale=0.)
    directed('kG0', 'Plate', c='ok', lam=False)
    directed('kT', 'Plate', c='ok', F=True)
    directed('kT', 'CPanel', y1=0., y2=lambda b: b, cte=(1., 1., -2.), loads=(0., 4., None))
    directed('kM', 'KPanel', offset=1.5e-3, alstale=7.5, prior=True)
    directed('kM', 'Plate', offset=-2e-3, y1=0., y2=lambda b: 0.5 * b, size=40, row0=9, col0=9, finalize=False)
    directed('kM', 'CPanel', mu=None)
    directed('kA', 'CPanel', aero=dict(beta=3., gamma=0.5, aeromu=None, Mach=None, rho_air=None, V=None, speed_sound=None))
    directed('kA', 'CPanel', r=None, aero=dict(beta=None, gamma=None, aeromu=None, Mach=1, rho_air=1.1, V=700., speed_sound=330.))
    directed('kA', 'Plate', flow='Y', finalize=False, aero=dict(beta=None, gamma=None, aeromu=None, Mach=2.5, rho_air=1.1, V=700., speed_sound=330.))
    directed('kA', 'KPanel')
    directed('cA', 'PlateW', finalize=False)
    directed('cA', 'KPanel')
    directed('cA', 'CPanel', finalize=True)
    directed('cA', 'Plate', size_attr='absent')
    directed('k0', 'Plate', stack_ok=False)
    directed('k0', 'Plate', lp=False)
    directed('kG0', 'Plate', plyt=False)
    directed('k0', 'Plate', c='list')
    directed('k0', 'Plate', c='2d')
    directed('kG0', 'Plate', c='wrongsize')
    directed('k0', 'Plate', y1=0., y2=lambda b: 0.5 * b, c='ok')
    directed('k0', 'KPanel', cte=(None, None, -30.))
    directed('k0', 'KPanel', F=True)
    directed('k0', 'Plate', F=True, size=40, size_attr='absent')
    directed('kG0', 'KPanel', loads=(None, None, None))
    directed('kG0', 'Plate', y1=None, y2=lambda b: 0.5 * b, c='ok')
    directed('kG0', 'PlateW', c='ok')
    directed('kM', 'Plate', model_attr='unset')
    directed('kA', 'Plate', model_attr='unset')
    directed('kA', 'Plate', model_attr='invalid')
    directed('kA', 'Plate', aero=dict(beta=None, gamma=None, aeromu=None, Mach=None, rho_air=1.1, V=700., speed_sound=330.))
    directed('kA', 'Plate', aero=dict(beta=None, gamma=None, aeromu=None, Mach=0.5, rho_air=1.1, V=700., speed_sound=330.))
    directed('kA', 'CPanel', aero=dict(beta=None, gamma=None, aeromu=None, Mach=1.8, rho_air=1.1, V=700., speed_sound=330.))
    directed('kA', 'Plate', flow='z')
    # calc_fint: every branch, and the shapes of the slips it has had (pre-stress term dropped, nx / Fnxny not forwarded)
    directed('fint', 'Plate', c='ok', cte=(120., None, -30.))
    directed('fint', 'CPanel', c='ok', F=True, nx=3, ny=2, cte=(0., 0., None))
    directed('fint', 'Plate', c='ok', nx=4, ny=None, cte=(250., -250., None), size=40, col0=9)
    directed('fint', 'CPanel', c='list', y1=0., y2=lambda b: 0.5 * b, cte=(None, 7., None), alstale=7.5)
    directed('fint', 'Plate', c='ok', y1=lambda b: 0.25 * b, y2=None, size_attr='absent')
    directed('fint', 'PlateW', c='ok')
    directed('fint', 'KPanel', c='ok')
    directed('fint', 'Plate', c='ok', model_attr='unset')
    directed('fint', 'Plate', c='ok', model_attr='invalid')
    directed('fint', 'Plate', c='none')
    directed('fint', 'Plate', c='2d', cte=(1., None, None))
    directed('fint', 'Plate', c='ok', lam=False)
    directed('fint', 'Plate', c='ok', lam=False, F=True)
    directed('fint', 'Plate', c='wrongsize', cte=(None, None, 3.))
    directed('fint', 'CPanel', c='wrongsize')
    directed('kT', 'Plate', c='ok', nx=4, ny=3, cte=(120., None, -30.))
    return out


def glue_correspondence(ctx, rng, cases=None):
    """H: recorded-kernel-call correspondence of the glue model; returns True when a disagreement was reported"""
    from tools.common import driver
    ir = getattr(ctx, '_panel_ir', None)
    zeros = [tuple(int(x) for x in w.split(',')) for w in driver(['C02 orthozeros'], pid='C02')[0].split()]
    full_run = cases is None
    if cases is None:
        cases = glue_corpus() + [gen_glue_case(rng, t) for t in range(ctx.scale(200, 3000))]
    dist = dict(cases=len(cases), methods={}, models={}, model_attr={}, mode=dict(real=0, fake=0), y1y2={}, preload={}, loads={}, size_given=0,
                row0_given=0, col0_given=0, row0_ne_col0=0, finalize={True: 0, False: 0}, c={}, Fnxny_given=0, NLgeom=0, prior_call=0,
                offset_nonzero=0, outcomes={}, kernel_calls={}, n_calls={})
    runs, lines = [], []
    from compmech.panel import _panel
    from tools.props.C05 import LineTracer
    PanelCls = _panel.Panel
    modelled = [PanelCls._rebuild, PanelCls.get_size, _panel.check_c, PanelCls._get_lam_F, PanelCls.calc_k0, PanelCls.calc_kG0, PanelCls.calc_kT,
                PanelCls.calc_kM, PanelCls.calc_kA, PanelCls.calc_cA, PanelCls.calc_fint]
    tracer = LineTracer(modelled)
    for g in cases:
        run = glue_run(g, tracer=tracer)
        runs.append(run)
        lines.append(glue_line(g, run))
    replies = driver(lines, pid='C02')
    if len(replies) != len(lines):
        raise RuntimeError('C02 driver returned %d replies for %d lines' % (len(replies), len(lines)))
    nbad = with_input = 0
    for g, run, rep in zip(cases, runs, replies):
        ctx.evaluations += 1
        inc = lambda d, k: d.__setitem__(str(k), d.get(str(k), 0) + 1)
        inc(dist['methods'], g['method'])
        inc(dist['models'], g['base']['lean_model'])
        inc(dist['model_attr'], g['model_attr'])
        dist['mode']['real' if g['real'] else 'fake'] += 1
        inc(dist['y1y2'], g['ypat'])
        inc(dist['preload'], g['prepat'])
        inc(dist['loads'], g['loadpat'])
        dist['size_given'] += g['size'] is not None
        dist['row0_given'] += g['row0'] is not None
        dist['col0_given'] += g['col0'] is not None
        dist['row0_ne_col0'] += (g['row0'] or 0) != (g['col0'] or 0)
        dist['finalize'][bool(g['finalize'])] += 1
        inc(dist['c'], g['c'])
        dist['Fnxny_given'] += bool(g['F'])
        dist['NLgeom'] += bool(g['nl'])
        dist['prior_call'] += bool(g['prior'])
        dist['offset_nonzero'] += g['offset'] != 0.
        inc(dist['outcomes'], 'ok' if rep.startswith('ok') else ' '.join(rep.split('|')[0].split()[1:3]))
        inc(dist['n_calls'], len(run['log']))
        for e in run['log']:
            inc(dist['kernel_calls'], '%s.%s' % (e['mod'], e['name']))
        if len(run['log']) >= 1 and (g['y1'] is not None or any(x is not None for x in g['cte'])):
            ctx.nontrivial.add(('glue', g['method'], g['fake_seed']))
        bad = glue_compare(g, run, rep) or glue_F_bad(g, run, zeros)
        if len(ctx.samples) < 2 and rep.startswith('ok') and len(run['log']) == 2:
            ctx.sample(dict(glue_method=g['method'], model=g['base']['model'], y1=g['y1'], y2=g['y2'], cte=g['cte'], model_reply=rep.split('| model=')[0][:300]))
        if bad:
            # the first three disagreements are reported as they are; after that only one that is a failing input of the property itself
            nbad += 1
            if glue_report(ctx, g, bad, ir, only_if_input=nbad > 3):
                with_input += 1
            if (nbad >= 3 and with_input) or nbad >= 40:
                break
    dist['finalize'] = {str(k): v for k, v in dist['finalize'].items()}
    cov = {}
    for f in modelled:
        al = tracer.all_lines(f)
        miss = sorted(al - tracer.hit[f.__name__])
        cov[f.__name__] = dict(lines=len(al), executed=len(al) - len(miss), missed=miss)
        if miss and full_run and f.__name__ == '_get_lam_F':
            ctx.notes.append('glue correspondence: lines %s of Panel._get_lam_F (first-order shear models: none in modelDB) are never executed' % miss)
        elif miss and full_run and f.__name__ == 'calc_fint' and len(miss) <= 2:
            ctx.notes.append('glue correspondence: lines %s of Panel.calc_fint (a numerical module without calc_fint: none in modelDB) are never '
                             'executed' % miss)
        elif miss and full_run and not nbad:
            # coverage gate (DESIGN 2.2): a line of a modelled function the corpus never reaches is an unchecked tie
            ctx.violation('glue correspondence: lines %s of %s in compmech/panel/_panel.py are never executed by the corpus, so the hand model '
                          'Model/PanelGlue.lean is not compared with them' % (miss, f.__qualname__), dict(tie='H panel glue coverage', function=f.__qualname__,
                                                                                                  lines=miss), found_input=False)
            nbad += 1
    dist['line_coverage_of_modelled_functions'] = cov
    ctx.cov['glue_correspondence'] = dist
    return nbad > 0


def correspondence(ctx):
    ir = pc.translated(ctx)
    rng = ctx.rng
    if glue_correspondence(ctx, rng) and any(v['found_input'] for v in ctx.violations):
        return
    # (a glue disagreement that is no failing input on its own case is a broken tie: the streams below go on looking for an input on which
    #  the property fails - e.g. the laminate handed to the kernels as a copy shows only with force_orthotropic_laminate in the oracle stream)
    n = ctx.scale(40, 400)
    dist = dict(models={}, y1y2=0, preload=0, placed=0, generic_flags=0)
    for t in range(n):
        case = gen(ctx, rng)
        ctx.evaluations += 1
        dist['models'][case['lean_model']] = dist['models'].get(case['lean_model'], 0) + 1
        dist['y1y2'] += case['y1'] is not None
        dist['preload'] += bool(case.get('Nxx_cte'))
        dist['placed'] += case['pad'] > 0
        generic = any(v not in (0., 1.) for v in case['flags'].values())
        dist['generic_flags'] += generic
        if case['m'] * case['n'] >= 4 and (len(case['stack']) > 1 or generic):
            ctx.nontrivial.add(repr(sorted(case.items(), key=str)))
        ctx.sample({k: v for k, v in case.items() if k != 'flags'}, limit=3)
        v_bad, p_bad = run_case(ctx, case, ir)
        if p_bad:
            ctx.violation('C02 fails on the implementation: ' + p_bad, dict(case=case))
            return
        if v_bad:
            ctx.violation(v_bad + ' (source model and running binary diverge, or translator error); the energy '
                          'oracle agrees with the running code on this panel', dict(case=case, tie='V fk0'),
                          found_input=False)
            return
    # very thin, very large panels with a rich basis: the bending block is 1e-9 of the membrane block and its high-order entries are
    # 1e-15 of the largest entry of the matrix (judged block-wise, on their own scale; seeded change C15-1 prunes exactly those)
    for t in range(ctx.scale(1, 4)):
        case = pc.gen_panel_case(rng, models=('Plate', 'CPanel') if t else ('Plate',), max_mn=3, y12=False)
        mn = 10 + 2 * t
        case.update(a=rng.uniform(8., 14.), b=rng.uniform(4., 6.), plyt=rng.choice([0.1e-3, 0.2e-3]), stack=[0.] if t % 2 == 0 else [0., 90.],
                    laminaprop=(71e9, 71e9, 0.33) if t % 2 == 0 else (142.5e9, 8.7e9, 0.28, 5.1e9, 5.1e9, 5.1e9), m=mn, n=mn, offset=0.,
                    pad=0, row0=0, col0=0)
        if case['r'] is not None:
            case['r'] = 40.
        for k in case['flags']:
            case['flags'][k] = 0. if k[1:3] in ('1t', '2t') else 1.
        ctx.evaluations += 1
        v_bad, p_bad = run_case(ctx, case, ir, with_v=False)
        dist['thin_rich'] = dist.get('thin_rich', 0) + 1
        if p_bad:
            ctx.violation('C02 fails on the implementation: ' + p_bad, dict(case=case))
            return
    for t in range(ctx.scale(6, 40)):
        c, bad = additivity(ctx, rng, t)
        ctx.evaluations += 1
        if bad:
            ctx.violation('C02 fails on the implementation: ' + bad, dict(case=c, additivity=True))
            return
    for t in range(ctx.scale(14, 70)):
        c, bad = reuse_case(ctx, rng, t)
        ctx.evaluations += 1
        if bad:
            ctx.violation('C02 fails on the implementation: ' + bad, dict(case=c, reuse=True))
            return
    ctx.cov['input_distribution'] = dist
    ctx.cov['programs'] = 8
    ctx.cov['translated_kernels'] = ['%s.%s' % (m, k) for m in ir for k in KERNELS]


def search(ctx, reason):
    """a theorem / the translator no longer checks: (1) model arm - which entry of the source-as-written
    differs from the energy form, with a rational witness; (2) implementation arm on random panels."""
    found = False
    try:
        ir = pc.translated(ctx)
    except Exception as e:
        ir = None
        ctx.log('translator unusable for the model arm: %s' % e)
    if ir:
        for lean_model, (kernels, schemas, consts) in ir.items():
            for kname in KERNELS:
                bad = panel_v.entry_vs_spec(kernels[kname], consts, pc.MODEL_OF[lean_model], 'k0', ctx.rng)
                ctx.evaluations += 1
                if bad:
                    ro, co, pt = bad[0]
                    ctx.violation('C02 fails on the source as written: %s.%s entry (row+%d, col+%d) is not the Hessian of the '
                                  'Donnell strain energy (at a random rational point the source gives %r, the energy form %r); '
                                  'the running binary is stale w.r.t. this source if the implementation arm stays quiet'
                                  % (pc.MODEL_OF[lean_model], kname, ro, co, pt['value_in_source'], pt['value_of_energy_form']),
                                  dict(model=lean_model, kernel=kname, entry=[ro, co], point=pt, broken=reason))
                    found = True
        if found:
            return True
        rng = ctx.rng
        for t in range(ctx.scale(30, 200)):
            case = gen(ctx, rng)
            ctx.evaluations += 1
            try:
                v_bad, p_bad = run_case(ctx, case, ir)
            except pyx.TranslateError:
                v_bad, p_bad = None, None
            if p_bad:
                ctx.violation('C02 fails on the implementation: ' + p_bad, dict(case=case, broken=reason))
                return True
    return found


def replay(ctx, data):
    r = data['replay']
    if 'case' in r and r['case'] and not r.get('additivity'):
        ir = pc.translated(ctx)
        v_bad, p_bad = run_case(ctx, r['case'], ir)
        print('V:', v_bad, '| property on implementation:', p_bad)
        return 1 if (v_bad or p_bad) else 0
    if r.get('glue'):
        bad = glue_correspondence(ctx, ctx.rng, cases=[r['glue']])
        for v in ctx.violations:
            print('glue correspondence:', v['what'])
        if not bad:
            print('glue correspondence: model and implementation agree on this case')
        return 1 if bad else 0
    print('replay:', data['what'])
    return 1
