"""C04 — mass matrix = kinetic-energy Hessian, total mass, reference-surface invariance.
T: Gen/Panel/*.lean (fkM, fkMy1y2) regenerated; theorems compute that the kernels put the mid-plane at z = -d.
V: IR vs Panel.calc_kM(finalize=False).  Implementation arm: kinetic-energy oracle with the mid-plane where
laminate.py puts it (z = +offset), total mass of an unrestrained flat panel, positive definiteness on the
active amplitudes, invariance of the natural frequencies of an unrestrained homogeneous panel under a move of
the reference surface.
"""
import numpy as np
from scipy.linalg import eigh

from tools import panel_v
from tools.props import panel_common as pc
from tools.translate import pyx

TRUSTED = pc.TRUSTED_T + [
    'Panel.calc_kM glue (which sign of the offset is handed to the kernel): hand model lean/CompmechVerif/Model/PanelGlue.lean (theorems calc_kM_dispatch: '
    'd = -offset for every model; calc_kM_eq_kinetic_hessian_plate), tied to the running _panel.py by the recorded-kernel-call correspondence of ./check C02 '
    '(tools/props/C02.py: glue_correspondence), and covered here by the oracle comparison and the frequency-invariance predicate, on explored panels only',
    'LAPACK eigh for the frequency-invariance predicate',
]
ASSUMPTIONS = ['entry theorems are per integration cell; summation/placement checked numerically (V)',
               'bladestiff1d flange mass (fkMf) belongs to C13']
RULE = ('random panels (all four models, m,n 1..4, generic flags, optional y1<y2, placement, offsets of both signs); '
        'unrestrained homogeneous plates/cylindrical panels for total mass and frequency invariance; '
        'non-trivial = m*n>=4 and offset != 0')
KERNELS = ('fkM', 'fkMy1y2')


def translate(ctx):
    pc.translated(ctx)


def gen(ctx, rng):
    case = pc.gen_panel_case(rng, max_mn=ctx.scale(4, 5))
    case['pad'] = rng.choice([0, 0, 3, 7])
    case['row0'] = case['col0'] = rng.choice([0, case['pad']]) if case['pad'] else 0
    if rng.random() < 0.6:
        case['offset'] = rng.choice([-1, 1]) * rng.uniform(0.1, 2) * case['plyt'] * len(case['stack'])
    return case


def run_case(ctx, case, ir):
    kernels, schemas, consts = ir[case['lean_model']]
    p = pc.make_panel(case)
    size0 = (1 if case['lean_model'] == 'PlateW' else 3) * case['m'] * case['n']
    size, row0, col0 = size0 + case['pad'], case['row0'], case['col0']
    y12 = (case['y1'], case['y2']) if case['y1'] is not None else None
    pc.quiet(p.calc_k0, silent=True)
    raw = pc.quiet(p.calc_kM, size=size, row0=row0, col0=col0, silent=True, finalize=False).toarray()
    kname = 'fkMy1y2' if y12 else 'fkM'
    v_bad = p_bad = None
    # which `d` does the glue hand to the kernel?  read it off by matching: V is about the kernel, so try both
    ds = {}
    for sgn in (1., -1.):
        mine = panel_v.interp_kernel(kernels[kname], consts, p, dict(y1=case['y1'], y2=case['y2'], d=sgn * case['offset']),
                                     size, row0, col0)
        ds[sgn] = max(pc.rel_diff(raw, mine), pc.block_rel_diff(raw, mine, size0 // (case['m'] * case['n']), row0) / 10.)
    if min(ds.values()) > 1e-9:
        v_bad = 'translated %s interpreted on this panel differs from Panel.calc_kM(finalize=False) for d=+offset and d=-offset: rel %r' % (kname, ds)
    full = pc.quiet(p.calc_kM, size=size, row0=row0, col0=col0, silent=True, finalize=True).toarray()
    want = panel_v.oracle_matrix(case['model'], p, 'kM', dict(delta=case['offset']), size, row0, col0, y12)
    d2 = max(pc.rel_diff(full, want), pc.block_rel_diff(full, want, size0 // (case['m'] * case['n']), row0))   # every field block on its own scale
    if d2 > 1e-8:
        i, j = np.unravel_index(np.abs(full - want).argmax(), full.shape)
        p_bad = ('calc_kM differs from the Hessian of the kinetic energy of a plate whose mid-plane is at z=+offset '
                 '(where laminate.py stacks it): rel %.3e at [%d,%d] (code %.6e, energy %.6e)' % (d2, i, j, full[i, j], want[i, j]))
    elif np.abs(full - full.T).max() > 0:
        p_bad = 'calc_kM not symmetric'
    else:
        act = np.where(np.abs(full).sum(axis=0) != 0)[0]
        if len(act):
            w = np.linalg.eigvalsh(full[np.ix_(act, act)])
            if w.min() <= -1e-10 * abs(w).max():
                p_bad = 'calc_kM not positive definite on the active amplitudes (min eig %.3e, max %.3e)' % (w.min(), w.max())
    return v_bad, p_bad


def free_panel(rng, curved=False, offset=0., m=5, n=5, y12=None):
    from compmech.panel import Panel
    p = Panel(a=rng.uniform(0.5, 2), b=rng.uniform(0.5, 2), r=(rng.uniform(1, 4) if curved else None), stack=[0],
              plyt=rng.choice([0.01, 0.002]), laminaprop=(71e9, 71e9, 0.33), mu=rng.choice([2700., 1300.]), m=m, n=n,
              offset=offset)
    if y12:
        p.y1, p.y2 = y12[0] * p.b, y12[1] * p.b
    for f in 'uvw':
        for e in ('1t', '1r', '2t', '2r'):
            for d in 'xy':
                setattr(p, f + e + d, 1.)
    return p


def total_mass(ctx, rng):
    off = rng.choice([0., rng.uniform(-1, 1) * 0.01])
    y12 = rng.choice([None, (0.2, 0.7)])
    p = free_panel(rng, offset=off, m=rng.choice([3, 4, 5]), n=rng.choice([3, 4]), y12=y12)
    pc.quiet(p.calc_k0, silent=True)
    M = pc.quiet(p.calc_kM, silent=True).toarray()
    area = p.a * ((p.y2 - p.y1) if y12 else p.b)
    m, n = p.m, p.n
    for comp in range(3):
        c = np.zeros(3 * m * n)
        for i in (0, 2):
            for j in (0, 2):
                c[3 * (j * m + i) + comp] = 1.      # f0 + f2 = 1 in both directions: unit rigid translation
        got = float(c @ M @ c)
        want = p.mu * p.plyt * area
        if abs(got - want) > 1e-9 * want:
            return dict(a=p.a, b=p.b, offset=off, y12=y12, comp=comp, m=m, n=n), \
                'unit rigid translation (component %d) has quadratic form %.9e, mu*h*area = %.9e' % (comp, got, want)
    return None, None


def freq_invariance(ctx, rng):
    curved = rng.random() < 0.3
    st = rng.getstate()
    res = []
    h = None
    offs = [0., rng.choice([-1, 1]) * rng.uniform(0.2, 2.)]
    for k, off in enumerate(offs):
        rng.setstate(st)
        rng.random(); rng.random()
        p = free_panel(rng, curved=False, m=5, n=5)
        h = p.plyt
        p.offset = off * h
        K = pc.quiet(p.calc_k0, silent=True).toarray()
        M = pc.quiet(p.calc_kM, silent=True).toarray()
        w = eigh(K, M, eigvals_only=True)
        w = np.sort(np.abs(w))
        scale = w[-1]
        el = np.sqrt(w[w > 1e-9 * scale])[:4]
        res.append(el)
    if len(res[0]) != len(res[1]) or np.abs(res[0] - res[1]).max() > 1e-6 * res[0].max():
        return dict(offsets_in_thicknesses=offs, plyt=h, freqs=[list(map(float, r)) for r in res]), \
            ('natural frequencies of an unrestrained homogeneous plate change when only the reference surface is moved: '
             '%s (offset 0) vs %s (offset %.3g h)' % (np.round(res[0], 4), np.round(res[1], 4), offs[1]))
    return None, None


def small_units(ctx, rng):
    """consistent small units (N - mm - tonne) and many series terms: the high-order mass entries are far below 1e-16 in
    absolute value and are still the kinetic-energy Hessian, entry by entry, and positive definite"""
    lean_model, mn = rng.choice([('PlateW', rng.randint(9, 12)), ('Plate', rng.randint(5, 7))])
    case = pc.gen_panel_case(rng, models=(lean_model,), max_mn=3, y12=False)
    case.update(m=mn, n=mn, a=rng.uniform(20., 60.), b=rng.uniform(15., 40.), plyt=0.125, mu=rng.choice([1.6e-9, 2.7e-9, 7.8e-9]),
                stack=[0, 90, 90, 0], laminaprop=(142.5e3, 8.7e3, 0.28, 5.1e3, 5.1e3, 5.1e3), offset=0.)
    for k in case['flags']:
        case['flags'][k] = 1.
    p = pc.make_panel(case)
    pc.quiet(p.calc_k0, silent=True)
    full = pc.quiet(p.calc_kM, silent=True).toarray()
    want = panel_v.oracle_matrix(case['model'], p, 'kM', dict(delta=0.), full.shape[0], 0, 0, None)
    want = np.triu(want) + np.triu(want, 1).T
    dg = np.sqrt(np.abs(np.diag(want)))
    if np.any(dg == 0):
        return case, None
    err = np.abs(full - want) / np.outer(dg, dg)
    if err.max() > 1e-6:
        i, j = np.unravel_index(err.argmax(), err.shape)
        return case, ('mass matrix in N-mm-tonne units with %d x %d terms: entry [%d,%d] = %.6e, kinetic-energy Hessian %.6e '
                      '(error %.2e relative to sqrt(M_ii M_jj); smallest diagonal entry of the Hessian %.3e)'
                      % (mn, mn, i, j, full[i, j], want[i, j], err.max(), np.diag(want).min()))
    w = np.linalg.eigvalsh(full / np.outer(dg, dg))
    if w.min() <= 0:
        return case, 'mass matrix in N-mm-tonne units not positive definite on the active amplitudes (scaled min eig %.3e)' % w.min()
    return case, None


def correspondence(ctx):
    ir = pc.translated(ctx)
    rng = ctx.rng
    dist = dict(models={}, y1y2=0, offset_nonzero=0)
    for t in range(ctx.scale(40, 400)):
        case = gen(ctx, rng)
        ctx.evaluations += 1
        dist['models'][case['lean_model']] = dist['models'].get(case['lean_model'], 0) + 1
        dist['y1y2'] += case['y1'] is not None
        dist['offset_nonzero'] += case['offset'] != 0
        if case['m'] * case['n'] >= 4 and case['offset'] != 0:
            ctx.nontrivial.add(repr(sorted(case.items(), key=str)))
        ctx.sample({k: v for k, v in case.items() if k != 'flags'}, limit=3)
        v_bad, p_bad = run_case(ctx, case, ir)
        if p_bad:
            if ctx.violation('C04 fails on the implementation: ' + p_bad, dict(case=case),
                             identity='C04-mass-offset-sign' if 'mid-plane' in p_bad else None):
                return
        if v_bad:
            ctx.violation(v_bad, dict(case=case, tie='V fkM'), found_input=False)
            return
    for t in range(ctx.scale(4, 30)):
        for fn, ident in ((total_mass, None), (freq_invariance, 'C04-mass-offset-sign')) + (((small_units, None),) if t < ctx.scale(2, 8) else ()):
            c, bad = fn(ctx, rng)
            ctx.evaluations += 1
            if bad and ctx.violation('C04 fails on the implementation: ' + bad, dict(case=c, derived=fn.__name__), identity=ident):
                return
    for t in range(ctx.scale(len(pc.REDEF_EDITS), 5 * len(pc.REDEF_EDITS))):
        c, bad = pc.redefinition_check(rng, t, lambda p: pc.quiet(p.calc_kM, silent=True).toarray())
        ctx.evaluations += 1
        ident = 'C04-kM-zero-after-plyts-reset' if c.get('identity') == 'no-rebuild-after-plyts-reset' else None
        if bad and ctx.violation('C04 fails on the implementation: calc_kM ' + bad, dict(case=c, derived='redefinition'), identity=ident):
            return
    # the mass matrix of a stiffened bay belongs to the bay's CURRENT definition too (density of all skin panels / of one panel edited after a first
    # evaluation; stream shared with C13)
    from tools.props import C13
    for t in (0, 3, 4, 7)[:ctx.scale(2, 4)]:
        desc, bad = C13.bay_redefinition(ctx, rng, t)
        ctx.evaluations += 1
        if bad and ctx.violation('C04 fails on the implementation: ' + bad, dict(case=desc, derived='bay redefinition')):
            return
    ctx.cov['input_distribution'] = dist
    ctx.cov['translated_kernels'] = ['%s.%s' % (m, k) for m in ir for k in KERNELS]


def search(ctx, reason):
    found = False
    try:
        ir = pc.translated(ctx)
    except Exception as e:
        ir = None
        ctx.log('translator unusable for the model arm: %s' % e)
    if ir:
        for lean_model, (kernels, schemas, consts) in ir.items():
            for kname in KERNELS:
                bad = panel_v.entry_vs_spec(kernels[kname], consts, pc.MODEL_OF[lean_model], 'kM', ctx.rng)
                ctx.evaluations += 1
                if bad:
                    ro, co, pt = bad[0]
                    ctx.violation('C04 fails on the source as written: %s.%s entry (row+%d, col+%d) is not the Hessian of the '
                                  'kinetic energy with mid-plane at z=-d (source %r, energy form %r at a random rational point)'
                                  % (pc.MODEL_OF[lean_model], kname, ro, co, pt['value_in_source'], pt['value_of_energy_form']),
                                  dict(model=lean_model, kernel=kname, entry=[ro, co], point=pt, broken=reason))
                    found = True
        if found:
            return True
        for t in range(ctx.scale(30, 200)):
            case = gen(ctx, ctx.rng)
            ctx.evaluations += 1
            try:
                v_bad, p_bad = run_case(ctx, case, ir)
            except pyx.TranslateError:
                p_bad = None
            if p_bad and ctx.violation('C04 fails on the implementation: ' + p_bad, dict(case=case, broken=reason),
                                       identity='C04-mass-offset-sign' if 'mid-plane' in p_bad else None):
                return True
    return found


def replay(ctx, data):
    r = data['replay']
    if r.get('case') and not r.get('derived'):
        v_bad, p_bad = run_case(ctx, r['case'], pc.translated(ctx))
        print('V:', v_bad, '| property on implementation:', p_bad)
        return 1 if (v_bad or p_bad) else 0
    print('replay:', data['what'])
    return 1
