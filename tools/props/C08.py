"""C08 — internal force = energy gradient; tangent stiffness = its exact Jacobian.
T: Gen/PanelNum regenerated from *_num.pyx (pointwise content of fkL_num, fkG_num, calc_fint); Props/C08.lean re-checked
   (incl. the 18 cubic-in-t Jacobian identities and HasDerivAt over the reals).
V: the generated pointwise pieces driven through numpy's Gauss-Legendre rule vs Panel.calc_k0(c), calc_kG0(c), calc_fint(c).
Implementation arm: fint(0) = 0, kT symmetric, kT(0) = k0, kT.dc = exact derivative of the cubic fint (5-point formula,
exact for cubics), closed-path work, for panels and for assemblies with penalty connections.
"""
import ast

import numpy as np

from tools import bardell, panel_v
from tools.props import panel_common as pc
from tools.translate import gen_num, pyx

TRUSTED = pc.TRUSTED_T + [
    'the Gauss loops / laminate-table switch / COO book-keeping of the *_num kernels are checked as a schema by the '
    'translator and numerically by V, not proved; exactness of the Gauss rule for the quartic integrand is C10',
    'PanelAssembly.calc_kT / calc_fint glue (sum over panels + k0_conn) is covered by the Jacobian predicate on explored assemblies',
    'Panel.calc_kT / calc_fint glue: hand model Model/PanelGlue.lean (calcKT, calcFint), tied by the recorded-kernel-call correspondence '
    '(tools/props/C02.py glue_correspondence, methods kT and fint); the compiled kernels enter the glue theorems as parameters',
]
ASSUMPTIONS = ['the per-point laminate table is read in its upper entries only (symmetry of each 6x6 table is the caller\'s duty)',
               'conical panels have no non-linear kernels registered (modelDB): outside C08']
RULE = ('random flat / cylindrical panels (m,n 1..3, generic flags, B-coupled laminates), random states with out-of-plane '
        'amplitudes up to several thicknesses, random directions, Gauss orders m+2..m+4, uniform and per-point laminate tables, '
        'assemblies of 2 panels with SS connections; non-trivial = m*n >= 4 and |w| >= thickness; distinct by case parameters')


def translate(ctx):
    if not hasattr(ctx, '_num_ir'):
        ctx._num_ir = gen_num.translate_all()
    return ctx._num_ir


# ----------------------------------------------------------------------------- interpreter of the generated pieces
def ev(e, env):
    if isinstance(e, ast.Subscript) and pyx._src(e.value) == 'cs':
        return env['cs'][int(pyx.evaluate(e.slice, env))]
    if isinstance(e, ast.BinOp):
        a, b = ev(e.left, env), ev(e.right, env)
        return {ast.Add: lambda: a + b, ast.Sub: lambda: a - b, ast.Mult: lambda: a * b, ast.Div: lambda: a / b,
                ast.Pow: lambda: a ** b}[type(e.op)]()
    if isinstance(e, ast.UnaryOp):
        return -ev(e.operand, env)
    return pyx.evaluate(e, env)


def point_env(F, p, xi, eta, Fm):
    env = dict(a=p.a, b=p.b, r=p.r)
    for nm, (pq) in F.lam.items():
        env[nm] = Fm[pq[0], pq[1]]
    return env


def atom_vals(F, p, env, idx):
    """values of the point atoms whose index variable is in `idx` (dict var -> value)"""
    for nm, (d, iv, pt, flags) in F.atoms.items():
        if iv in idx:
            fl = tuple(float(getattr(p, F.attrs[f])) for f in flags)
            env[nm] = bardell.phi(d, idx[iv], fl, env['xi'] if pt == 'xi' else env['eta'])


def interp(fns, p, c, nx, ny, Fm, NL):
    """kL, kG (upper parts as accumulated) and fint from the generated pieces"""
    m, n = p.m, p.n
    size = 3 * m * n
    xs, wx = np.polynomial.legendre.leggauss(nx)
    ys, wy = np.polynomial.legendre.leggauss(ny)
    kL = np.zeros((size, size)); kG = np.zeros((size, size)); fint = np.zeros(size)
    for ptx in range(nx):
        for pty in range(ny):
            state = {}
            for fname in ('fkL_num', 'fkG_num', 'calc_fint'):
                F = fns[fname]
                env = point_env(F, p, xs[ptx], ys[pty], Fm if Fm.ndim == 2 else Fm[ptx, pty])
                env.update(xi=xs[ptx], eta=ys[pty], weight=wx[ptx] * wy[pty], cs=c, col0=0, num=3, m=m)
                acc = {}
                for (tgt, expr, cond, lineno) in F.accs:
                    acc.setdefault(tgt, 0.)
                for j in range(n):
                    for i in range(m):
                        env.update(i=i, j=j, col=3 * (j * m + i))
                        atom_vals(F, p, env, dict(i=i, j=j))
                        for (tgt, expr, cond, lineno) in F.accs:
                            if cond == 'NL' and not NL and fname != 'calc_fint':
                                continue
                            acc[tgt] += ev(expr, env)
                env.update(acc)
                for (kind, tgt, expr, lineno) in F.pdefs:
                    if kind == '+=':
                        env[tgt] = env[tgt] + ev(expr, env)
                    else:
                        env[tgt] = ev(expr, env)
                if fname == 'calc_fint':
                    for j in range(n):
                        for i in range(m):
                            env.update(i=i, j=j)
                            atom_vals(F, p, env, dict(i=i, j=j))
                            for (off, expr, lineno) in F.fint:
                                fint[3 * (j * m + i) + off] += ev(expr, env)
                    continue
                out = kL if fname == 'fkL_num' else kG
                for i in range(m):
                    for k in range(m):
                        for j in range(n):
                            for l in range(n):
                                row, col = 3 * (j * m + i), 3 * (l * m + k)
                                if row > col:
                                    continue
                                env.update(i=i, j=j, k=k, l=l)
                                atom_vals(F, p, env, dict(i=i, j=j, k=k, l=l))
                                for (ro, co, expr, lineno) in F.entries:
                                    out[row + ro, col + co] += ev(expr, env)
    return kL, kG, fint


# ----------------------------------------------------------------------------- cases
def gen(ctx, rng):
    case = pc.gen_panel_case(rng, models=('Plate', 'CPanel'), max_mn=ctx.scale(2, 3), y12=False)
    case['m'] = max(case['m'], 2)
    case['n'] = max(case['n'], 2)
    case['offset'] = rng.choice([0., rng.uniform(-1, 1) * case['plyt']])
    h = case['plyt'] * len(case['stack'])
    amp = rng.choice([0.1, 1., 3.]) * h
    num = 3 * case['m'] * case['n']
    c = np.array([rng.uniform(-1, 1) for _ in range(num)])
    c[0::3] *= amp * 0.1
    c[1::3] *= amp * 0.1
    c[2::3] *= amp
    case['c'] = c.tolist()
    case['dc'] = [rng.uniform(-1, 1) for _ in range(num)]
    case['nxy'] = (case['m'] + rng.randint(2, 4), case['n'] + rng.randint(2, 4))
    case['table'] = rng.random() < 0.45
    case['taper'] = case['table'] and rng.random() < 0.6      # non-uniform per-point laminate table
    case['amp_in_h'] = amp / h
    # constant membrane pre-stress carried by the panel (calc_k0 / calc_kT add kG0(N_cte); the internal force must match)
    case['ncte'] = ([rng.uniform(-1, 1) * 1e3, rng.choice([0., 40.]), rng.choice([0., -25.])] if rng.random() < 0.3 else None)
    if rng.random() < 0.25:
        # rarely used option: every route (analytic k0, numerical kL / kG / fint) must see the same, orthotropic, laminate
        case['force_ortho'] = True
        case['stack'] = list(case['stack']) + [rng.choice([30., -55., 17.])]
        if len(case['laminaprop']) == 3 or case['laminaprop'][0] == case['laminaprop'][1]:
            case['laminaprop'] = (142.5e9, 8.7e9, 0.28, 5.1e9, 5.1e9, 5.1e9)
    return case


def run_case(ctx, case, ir, do_v=True):
    """-> (V disagreement or None, property failure or None); a package call that RAISES on a valid case is a failing input"""
    try:
        return run_case_(ctx, case, ir, do_v)
    except Exception as e:
        import traceback
        tb = traceback.extract_tb(e.__traceback__)
        where = [f for f in tb if '/compmech/' in f.filename]
        if not where:
            raise           # a defect of this harness, not of the package
        return None, ('%s raised %s: %s for a valid non-linear evaluation (nx, ny = %r, per-point laminate table: %r)'
                      % (where[-1].name, type(e).__name__, e, tuple(case['nxy']), bool(case.get('table'))))


def run_case_(ctx, case, ir, do_v=True):
    fns, consts = ir[case['lean_model']]
    p = pc.make_panel(case)
    if case.get('ncte'):
        p.Nxx_cte, p.Nyy_cte, p.Nxy_cte = case['ncte']
        do_v = False            # V compares the bare kernels; the pre-stress term is added by the Python layer
    pc.quiet(p.calc_k0, silent=True)
    c = np.array(case['c']); dc = np.array(case['dc'])
    nx, ny = case['nxy']
    Fm = np.array(p.F)
    Ftab = np.tile(Fm, (nx, ny, 1, 1)) if case['table'] else None
    if case.get('taper'):
        gx, gy = np.meshgrid(np.linspace(0, 1, nx), np.linspace(0, 1, ny), indexing='ij')
        Ftab = np.ascontiguousarray(Ftab * (1. + 0.4 * gx - 0.25 * gy * gx)[:, :, None, None])
    kw = dict(nx=nx, ny=ny, Fnxny=Ftab, silent=True)
    fint = lambda cc: np.array(pc.quiet(p.calc_fint, np.ascontiguousarray(cc), **kw))
    kT = pc.quiet(p.calc_kT, c=c, **kw).toarray()
    f0 = fint(c)
    scale = max(np.abs(kT).max(), 1e-300)
    bad = None
    if np.abs(kT - kT.T).max() > 1e-12 * scale:
        bad = 'tangent stiffness not symmetric (max asym %.3e, scale %.3e)' % (np.abs(kT - kT.T).max(), scale)
    if bad is None and np.abs(fint(np.zeros_like(c))).max() > 1e-12 * max(np.abs(f0).max(), 1e-300):
        bad = 'internal force does not vanish at the undeformed state'
    if bad is None:
        hh = 1.0
        d = dc * (np.abs(c).max() / max(np.abs(dc).max(), 1e-300)) * 0.5
        deriv = (-fint(c + 2 * hh * d) + 8 * fint(c + hh * d) - 8 * fint(c - hh * d) + fint(c - 2 * hh * d)) / (12 * hh)
        want = kT @ d
        sc = max(np.abs(want).max(), np.abs(deriv).max(), 1e-300)
        # every field (u, v, w rows) on its own scale: in a thin panel the out-of-plane rows are orders of magnitude below the in-plane ones
        scf = np.array([max(np.abs(want[a_::3]).max(), np.abs(deriv[a_::3]).max(), 1e-5 * sc) for a_ in range(3)])[np.arange(len(want)) % 3] \
            if len(want) % 3 == 0 else np.full(len(want), sc)
        if np.abs(deriv - want).max() > 1e-8 * sc or (np.abs(deriv - want) / scf).max() > 1e-7:
            k = int((np.abs(deriv - want) / scf).argmax())
            sc = scf[k]
            bad = ('kT.dc differs from the exact derivative of the cubic internal force along dc: rel %.3e at dof %d '
                   '(kT.dc %.6e, d fint %.6e)' % (np.abs(deriv - want).max() / sc, k, want[k], deriv[k]))
    if bad is None and not case.get('taper'):
        k0 = pc.quiet(p.calc_k0, silent=True).toarray()
        kT0 = pc.quiet(p.calc_kT, c=np.zeros_like(c), **kw).toarray()
        if pc.rel_diff(k0, kT0) > 1e-8:
            bad = 'tangent at the undeformed state differs from the linear stiffness (rel %.3e)' % pc.rel_diff(k0, kT0)
        else:
            eps = 1e-7 * np.abs(c).max()
            fl = fint(eps * dc / max(np.abs(dc).max(), 1e-300))
            lin = k0 @ (eps * dc / max(np.abs(dc).max(), 1e-300))
            if np.abs(fl - lin).max() > 1e-5 * max(np.abs(lin).max(), 1e-300):
                bad = 'internal force for an infinitesimal state is not K0*c'
    v_bad = None
    if do_v and bad is None:
        kLm, kGm, fm = interp(fns, p, c, nx, ny, Ftab if Ftab is not None else Fm, True)
        kLr = pc.quiet(p.calc_k0, c=c, finalize=False, NLgeom=True, **kw).toarray()
        kGr = pc.quiet(p.calc_kG0, c=c, finalize=False, NLgeom=True, **kw).toarray()
        for nm, a1, a2 in (('fkL_num', kLm, kLr), ('fkG_num', kGm, kGr)):
            if pc.rel_diff(a1, a2) > 1e-9:
                v_bad = 'translated %s pieces driven through Gauss-Legendre differ from the running kernel: rel %.3e' % (nm, pc.rel_diff(a1, a2))
        if v_bad is None and np.abs(fm - f0).max() > 1e-9 * max(np.abs(f0).max(), 1e-300):
            v_bad = 'translated calc_fint pieces differ from the running kernel: rel %.3e' % (np.abs(fm - f0).max() / max(np.abs(f0).max(), 1e-300))
    return v_bad, bad


def assembly_case(ctx, rng):
    from compmech.panel.assembly import PanelAssembly
    c1 = pc.gen_panel_case(rng, models=('Plate',), max_mn=2, y12=False)
    c2 = pc.gen_panel_case(rng, models=('Plate',), max_mn=2, y12=False)
    for c_ in (c1, c2):
        c_['m'] = c_['n'] = 2
    c2['a'] = c1['a']
    p1, p2 = pc.make_panel(c1), pc.make_panel(c2)
    for p in (p1, p2):
        pc.quiet(p.calc_k0, silent=True)
        p.nx, p.ny = 5, 5
    asm = PanelAssembly([p1, p2], conn=[dict(p1=p1, p2=p2, func='SSycte', ycte1=p1.b, ycte2=0.)])
    size = asm.get_size()
    h = c1['plyt'] * len(c1['stack'])
    c = np.array([rng.uniform(-1, 1) for _ in range(size)]) * h
    d = np.array([rng.uniform(-1, 1) for _ in range(size)]) * h * 0.5
    # pre-buckling-like states: every out-of-plane amplitude of one panel (or of all panels) exactly zero, in-plane ones not -
    # the membrane forces still make the geometric part of the tangent
    flat = rng.choice(['none', 'none', 'second panel', 'all'])
    for pn_ in ([p2] if flat == 'second panel' else ([p1, p2] if flat == 'all' else [])):
        c[pn_.col_start + 2: pn_.col_end: 3] = 0.
    fint = lambda cc: np.array(pc.quiet(asm.calc_fint, np.ascontiguousarray(cc), silent=True))
    # call history on the SAME assembly before the quantities are requested: raw (un-finalized) evaluations, other states
    prelude = rng.choice([[], [], ['kT raw'], ['k0 raw'], ['kT raw', 'fint'], ['k0', 'kT raw'], ['fint', 'kT raw', 'k0']])
    for op in prelude:
        c0 = np.array([rng.uniform(-1, 1) for _ in range(size)]) * h
        if op == 'kT raw':
            pc.quiet(asm.calc_kT, c=c0, silent=True, finalize=False)
        elif op == 'k0 raw':
            pc.quiet(asm.calc_k0, silent=True, finalize=False)
        elif op == 'k0':
            pc.quiet(asm.calc_k0, silent=True)
        else:
            fint(c0)
    kT = pc.quiet(asm.calc_kT, c=c, silent=True).toarray()
    if np.abs(kT - kT.T).max() > 1e-12 * np.abs(kT).max():
        return dict(c1=c1, c2=c2, history=prelude), 'assembly tangent not symmetric (calls made before on the same assembly: %r)' % (prelude,)
    deriv = (-fint(c + 2 * d) + 8 * fint(c + d) - 8 * fint(c - d) + fint(c - 2 * d)) / 12.
    want = kT @ d
    sc = max(np.abs(want).max(), 1e-300)
    if np.abs(deriv - want).max() > 1e-8 * sc:
        return dict(c1=c1, c2=c2, history=prelude), ('assembly kT.dc differs from the derivative of the assembly internal force: '
                                                     'rel %.3e (calls made before on the same assembly: %r)' % (
                                                         np.abs(deriv - want).max() / sc, prelude))
    if np.abs(fint(np.zeros(size))).max() > 0:
        return dict(c1=c1, c2=c2), 'assembly internal force does not vanish at the undeformed state'
    return None, None


def glue_tie(ctx):
    """H: the hand model of Panel.calc_kT / Panel.calc_fint (Model/PanelGlue.lean: calcKT, calcFint - theorems calc_kT_dispatch,
    calc_fint_dispatch, calc_kT_fint_consistent, calc_fint_zero_state, panel_tangent_is_jacobian_glue of Props/C08.lean) against the running
    _panel.py: recorded kernel calls (names, every argument, exception class, returned vector / matrix), same driver and comparison as the
    C02 glue correspondence, restricted to the two methods; returns True when a disagreement was reported"""
    import random as _random
    from tools.props import C02
    r2 = _random.Random(ctx.seed * 7919 + 8)
    cases = [g for g in C02.glue_corpus() if g['method'] in ('fint', 'kT')]
    cases += [C02.gen_glue_case(r2, (5, 10, 11, 12)[i % 4] + 13 * i) for i in range(ctx.scale(60, 900))]
    bad = C02.glue_correspondence(ctx, r2, cases=cases)
    ctx.cov['glue_correspondence_kT_fint'] = ctx.cov.pop('glue_correspondence', None)
    return bad


def correspondence(ctx):
    ir = translate(ctx)
    rng = ctx.rng
    if glue_tie(ctx):
        return
    dist = dict(models={}, table=0, amp={})
    for t in range(ctx.scale(14, 150)):
        case = gen(ctx, rng)
        ctx.evaluations += 1
        dist['models'][case['lean_model']] = dist['models'].get(case['lean_model'], 0) + 1
        dist['table'] += case['table']
        dist['amp'][case['amp_in_h']] = dist['amp'].get(case['amp_in_h'], 0) + 1
        if case['m'] * case['n'] >= 4 and case['amp_in_h'] >= 1:
            ctx.nontrivial.add((case['lean_model'], case['m'], case['n'], case['a'], case['amp_in_h']))
        ctx.sample(dict(model=case['lean_model'], m=case['m'], n=case['n'], nxy=case['nxy'], table=case['table'],
                        amplitude_in_thicknesses=case['amp_in_h']), limit=3)
        v_bad, bad = run_case(ctx, case, ir, do_v=(t % 3 == 0))
        if bad:
            ctx.violation('C08 fails on the implementation: ' + bad, dict(case=case))
            return
        if v_bad:
            ctx.violation(v_bad, dict(case=case, tie='V num kernels'), found_input=False)
            return
    for t in range(ctx.scale(12, 60)):
        c, bad = assembly_case(ctx, rng)
        ctx.evaluations += 1
        if bad:
            ctx.violation('C08 fails on the implementation: ' + bad, dict(case=c, derived='assembly'))
            return
    ctx.cov['input_distribution'] = dist


def model_arm(ctx, ir, reason):
    """source as written: is the generated tangent the derivative of the generated internal force? (pointwise, random point)"""
    rng = ctx.rng
    found = False
    for lean_model, (fns, consts) in ir.items():
        case = gen(ctx, rng)
        case['lean_model'], case['model'] = lean_model, pc.MODEL_OF[lean_model]
        if lean_model == 'CPanel' and not case['r']:
            case['r'] = 2.
        if lean_model == 'Plate':
            case['r'] = None
        p = pc.make_panel(case)
        pc.quiet(p.calc_k0, silent=True)
        c = np.array(case['c']); d = np.array(case['dc']) * np.abs(c).max()
        nx, ny = case['nxy']
        Fm = np.array(p.F)
        f = lambda cc: interp(fns, p, cc, nx, ny, Fm, True)[2]
        kL, kG, _ = interp(fns, p, c, nx, ny, Fm, True)
        kT = panel_v.finalize_sym(kL + kG)
        deriv = (-f(c + 2 * d) + 8 * f(c + d) - 8 * f(c - d) + f(c - 2 * d)) / 12.
        want = kT @ d
        sc = max(np.abs(want).max(), 1e-300)
        ctx.evaluations += 1
        if np.abs(deriv - want).max() > 1e-8 * sc:
            k = int(np.abs(deriv - want).argmax())
            ctx.violation('C08 fails on the source as written (%s_num.pyx): the tangent assembled from fkL_num + fkG_num is not the '
                          'derivative of calc_fint (rel %.3e at dof %d: kT.dc %.6e, d fint %.6e); the running binary is stale w.r.t. this '
                          'source if the implementation arm stays quiet' % (pc.MODEL_OF[lean_model], np.abs(deriv - want).max() / sc, k, want[k], deriv[k]),
                          dict(case=case, broken=reason))
            found = True
    return found


def search(ctx, reason):
    try:
        ir = translate(ctx)
    except Exception as e:
        ctx.log('translator unusable: %s' % e)
        ir = None
    if ir and model_arm(ctx, ir, reason):
        return True
    for t in range(ctx.scale(15, 80)):
        case = gen(ctx, ctx.rng)
        ctx.evaluations += 1
        v_bad, bad = run_case(ctx, case, ir, do_v=False)
        if bad:
            ctx.violation('C08 fails on the implementation: ' + bad, dict(case=case, broken=reason))
            return True
    return False


def replay(ctx, data):
    r = data['replay']
    if r.get('case') and not r.get('derived'):
        v_bad, bad = run_case(ctx, r['case'], translate(ctx))
        print('V:', v_bad, '| property on implementation:', bad)
        return 1 if (v_bad or bad) else 0
    print('replay:', data['what'])
    return 1
