"""C06 - frequency-analysis glue: correspondence of Model/EigPost.lean (`freq`, `sortStep`, `takeIdx`, `reExpand`)
with compmech/analysis/freq.py::freq, compmech/sparse.py::remove_null_cols and Panel.freq, plus the predicates
of the property evaluated directly on the implementation.

`compmech.analysis.freq.eigs/eig` (Panel.freq: `compmech.panel._panel.eigs/eig`) are replaced by recording
wrappers for one call; the raw solver output and what `numpy.sqrt` returns for it are the inputs of the model.
Shared helpers live in tools/props/C05.py.
"""
import numpy as np
import scipy.linalg
from fractions import Fraction
from scipy.sparse import csr_matrix

from tools.common import q, unq, driver, load_findings
from tools.props.C05 import (Recorder, LineTracer, coo_text, res_text, finite_out, parse_reply, fclose,
                             compare_requests, compare_error, SHAPE_RE, rand_spd, embed, fro, make_panel,
                             PANEL_MODELS, TOL_RES, TOL_VAL)

TRUSTED = [
    'Lean 4.33 kernel; axioms within {propext, Classical.choice, Quot.sound} (audited each run)',
    'Mathlib v4.33 (ordered fields, floor rings, list permutations)',
    'hand-written model lean/CompmechVerif/Model/EigPost.lean of the glue of freq / Panel.freq / remove_null_cols '
    '- tied to the running Python by the request/result correspondence of this check (equal to the code only on '
    'what the harness explored)',
    'external numerics as recorded contract (validated on every sample, not verified): ARPACK eigs (shift-invert '
    'sigma=-1, which=LM: k pairs K v = z M v nearest to -1), LAPACK eig(-M, K) (all pairs -M v = x K v), '
    'numpy.sqrt (principal root), scipy csr slicing / nonzero(), numpy lexsort (stable) and round (half to even)',
    'numpy fancy-index / boolean-mask assignment semantics (broadcast rules) as modelled by `assignRows`',
    'binary rounding (x*10 before rint, -1./x, 1e-6) is not modelled; cases whose smallest comparison margin '
    'is < 1e-9 are discarded',
]
ASSUMPTIONS = [
    'K and M symmetric positive definite on the same set of active amplitudes and null elsewhere (massless '
    'amplitudes that carry stiffness are outside the property: the two paths then solve different problems)',
    'no column of M sums to exactly zero unless it is null (dense path: `col_sum != 0`)',
    'sizes n >= 6, at least 3 active amplitudes (eigs needs 0 < k < N-1), 1 <= num_eigvalues <= 25, tol = 0',
    'a pair is a frequency together with its mode: eigvals[i], eigvecs[:, i], i < min(len, columns)',
    '"to solver precision": ||K v - w^2 M v|| / ((||K||_F + |w^2| ||M||_F) ||v||) <= 1e-7',
    '"ascending" is judged only with sort=True (sort=False asks for the solver order)',
    '"the same lowest frequencies": as sorted multisets, against a dense symmetric solve of the active block',
    'ARPACK non-convergence is a failure of the external solver (counted, not a property violation)',
]
RULE = ('problems from one PRNG: random SPD pairs (dense small, banded large) on a random subset of amplitudes, '
        'spectra spread over 1..4 decades so that frequencies share 0.1-buckets now and then, genuine Panel '
        'matrices (plate, plate_w, cpanel, kpanel; m, n <= 6) and two-panel StiffPanelBay matrices; every problem '
        'is run with sparse/dense x sort on/off, reduced_dof on both switches, a mass-scaled variant and (panels) '
        'Panel.freq; plus an out-of-domain stream (non-symmetric K, complex frequencies) used for the '
        'model/implementation correspondence only; non-trivial = null amplitudes and a returned pair, or a glue exception; distinct by '
        '(generator parameters, switches)')


# ----------------------------------------------------------------------------- problems
def gen_params(rng, thorough, big=False):
    if big:
        n = rng.choice([120, 200, 300, 400])
    elif thorough:
        n = rng.choice([6, 7, 8, 9, 10, 12, 15, 18, 21, 27, 30, 40, 60, 80, 100])
    else:
        n = rng.choice([6, 7, 8, 9, 10, 12, 15, 18, 21, 27, 30, 40, 60])
    r = rng.random()
    nnull = 0 if r < 0.35 else (1 if r < 0.55 else rng.randint(1, max(1, n - 4)))
    nact = n - nnull
    num = rng.randint(1, 25) if rng.random() < 0.4 else rng.randint(1, max(1, min(25, nact - 3)))
    mgrade = (rng.uniform(-13.5, -12.3) if (rng.random() < 0.2 and nact >= 5 and not big) else None)
    if mgrade is not None:
        num = max(1, min(num, nact - 2))      # the mode of the token mass itself (ill-conditioned, ~1e6 x the others) is not requested
    return dict(kind='random', seed=rng.randrange(2 ** 31), n=n, nnull=nnull, num=num,
                scale=rng.choice([0.25, 0.5, 2.0, 4.0, 9.0]), fmt=rng.choice(['csr', 'csr', 'coo', 'csc']),
                mexp=(rng.uniform(-11, -8) if rng.random() < 0.25 else None),
                mgrade=mgrade)


def conv(A, fmt):
    A = csr_matrix(A)
    return A.tocoo() if fmt == 'coo' else (A.tocsc() if fmt == 'csc' else A)


def build_random(p):
    rs = np.random.RandomState(p['seed'])
    n = p['n']
    act = np.sort(rs.choice(n, size=n - p['nnull'], replace=False))
    m = len(act)
    banded = m > 80
    Ka = rand_spd(rs, m, banded)
    Ma = rand_spd(rs, m, banded)
    Ma = Ma / np.abs(Ma).max() * 10 ** rs.uniform(-3, 0)
    if p.get('mexp') is not None:
        # consistent small units (e.g. N-mm-tonne): every mass entry far below 1e-8, the matrix as positive definite as before
        Ma = Ma / np.abs(Ma).max() * 10 ** p['mexp']
    if p.get('mgrade') is not None:
        # one amplitude carrying only a token (but genuine) lumped mass, 12-13 decades below its neighbours: still active
        j_ = rs.randint(m)
        Ma[j_, :] = 0.
        Ma[:, j_] = 0.
        Ma[j_, j_] = np.abs(Ma).max() * 10 ** p['mgrade']
    return conv(embed(Ka, n, act), p.get('fmt', 'csr')), conv(embed(Ma, n, act), p.get('fmt', 'csr')), act


def build_complex(p):
    """OUT-OF-DOMAIN stream (correspondence only): non-symmetric K, so that frequencies are complex and the
    secondary sort key (rounded imaginary part) and complex arithmetic of the glue are exercised"""
    rs = np.random.RandomState(p['seed'])
    n = p['n']
    act = np.sort(rs.choice(n, size=n - p['nnull'], replace=False))
    m = len(act)
    A = rs.randn(m, m)
    Ka = rand_spd(rs, m, False)
    Ka = Ka + (A - A.T) * np.abs(Ka).max() * rs.uniform(0.2, 1.0)
    Ma = rand_spd(rs, m, False)
    Ma = Ma / np.abs(Ma).max() * 10 ** rs.uniform(-2, 0)
    return csr_matrix(embed(Ka, n, act)), csr_matrix(embed(Ma, n, act)), act


def build_diag(p):
    """K = diag(w^2), M = I on the active amplitudes: frequencies are prescribed"""
    w = np.array(p['omega'], dtype=float)
    n = p['n']
    act = np.array(p['act'])
    K = np.zeros((n, n))
    M = np.zeros((n, n))
    K[act, act] = w ** 2
    M[act, act] = 1.
    return csr_matrix(K), csr_matrix(M), act


def gen_panel_params(rng):
    return dict(kind=rng.choice(['panel', 'panel', 'bay']), model=rng.choice(PANEL_MODELS), m=rng.randint(4, 6),
                nn=rng.randint(4, 6), a=rng.choice([1., 0.7, 2.]), b=rng.choice([0.5, 1.]), Nxx=0., Nyy=0.,
                num=rng.choice([1, 2, 3, 5, 5, 8, 12, 25]), scale=rng.choice([0.5, 2.0, 4.0]))


def build_panel(p):
    pn = make_panel(p)
    k0 = csr_matrix(pn.calc_k0(silent=True))
    kM = csr_matrix(pn.calc_kM(silent=True))
    return k0, kM, np.unique(k0.nonzero()[1])


def build_bay(p):
    from compmech.stiffpanelbay import StiffPanelBay
    spb = StiffPanelBay()
    spb.a, spb.b = p['a'], p['b']
    spb.plyt = 0.00013
    spb.laminaprop = (128.e9, 11.e9, 0.25, 4.48e9, 1.53e9, 1.53e9)
    spb.stack = [0, -45, +45, 90, 90, +45, -45, 0]
    spb.model = p['model'] if '_w' not in p['model'] else 'plate_clt_donnell_bardell'
    spb.r, spb.alphadeg = 1.e6, 0.
    spb.mu = 1.5e3
    spb.m, spb.n = p['m'], p['nn']
    spb.add_panel(0, spb.b / 2., plyt=spb.plyt)
    spb.add_panel(spb.b / 2., spb.b, plyt=spb.plyt)
    k0 = csr_matrix(spb.calc_k0(silent=True))
    kM = csr_matrix(spb.calc_kM(silent=True))
    return k0, kM, np.unique(k0.nonzero()[1])


def build(p):
    return dict(random=build_random, diag=build_diag, panel=build_panel, bay=build_bay,
                complex=build_complex)[p['kind']](p)


# ----------------------------------------------------------------------------- running the implementation
def run_freq(K, M, num, sparse, sort, reduced, tracer=None):
    import importlib
    Fq = importlib.import_module('compmech.analysis.freq')
    import warnings
    with Recorder([(Fq, 'eigs', 'eigs'), (Fq, 'eig', 'eig')]) as rec:
        try:
            with np.errstate(all='ignore'), warnings.catch_warnings():
                warnings.simplefilter('ignore')
                if tracer is not None:
                    with tracer:
                        ev, evec = Fq.freq(K, M, sparse_solver=sparse, silent=True, sort=sort, reduced_dof=reduced,
                                           num_eigvalues=num)
                else:
                    ev, evec = Fq.freq(K, M, sparse_solver=sparse, silent=True, sort=sort, reduced_dof=reduced,
                                       num_eigvalues=num)
            outcome = ('ok', np.asarray(ev), np.asarray(evec))
        except Exception as ex:
            outcome = ('exc', ex)
    return outcome, rec.calls


def run_panel_freq(p, num, sparse, sort, reduced):
    import compmech.panel._panel as P
    import warnings
    pn = make_panel(p)
    pn.num_eigvalues = num
    with Recorder([(P, 'eigs', 'eigs'), (P, 'eig', 'eig')]) as rec:
        try:
            with np.errstate(all='ignore'), warnings.catch_warnings():
                warnings.simplefilter('ignore')
                pn.freq(sparse_solver=sparse, silent=True, sort=sort, reduced_dof=reduced)
            outcome = ('ok', np.asarray(pn.eigvals), np.asarray(pn.eigvecs))
        except Exception as ex:
            outcome = ('exc', ex)
    return outcome, rec.calls, csr_matrix(pn.k0), csr_matrix(pn.kM)


def sqrt_outputs(calls, sparse):
    """what numpy.sqrt returns for the eigenvalue array of the (single) solver call, or None"""
    outs = [c['out'] for c in calls if 'out' in c]
    if not outs:
        return None, None
    raw = outs[0][0].astype(complex)
    with np.errstate(all='ignore'):
        arg = raw if sparse else -1. / raw
        return arg, np.sqrt(arg)


def model_line(n, num, sparse, sort, reduced, K, M, res, sq):
    sqt = '' if sq is None else ' '.join('%s %s' % (q(z.real), q(z.imag)) for z in sq.tolist())
    return 'C06 freq %d %d %d %d %d | %s | %s | %s | %s' % (n, num, int(sparse), int(sort), int(reduced),
                                                             coo_text(K), coo_text(M), res_text(res, cplx=True), sqt)


def cclose(z, y, scale):
    return fclose(z.real, y[0], scale) and fclose(z.imag, y[1], scale)


def compare_freq(rep, outcome, calls, K, M, n):
    """None (agree), 'discard' (margin too small) or a description"""
    m = parse_reply(rep, cplx=True)
    d = compare_requests(m['reqs'], calls, [('K', csr_matrix(K)), ('M', csr_matrix(M))], n)
    if d:
        return d
    if not m['ok']:
        return compare_error(m['err'], outcome, calls)
    if m['margin'] < Fraction(1, 10 ** 9):
        return 'discard'
    if outcome[0] != 'ok':
        return 'model returns shape %s, implementation raised %r' % (m['shape'], outcome[1])
    ev, evec = outcome[1].astype(complex), outcome[2].astype(complex)
    if evec.ndim != 2 or tuple(evec.shape) != m['shape']:
        return 'eigvecs shape: model %s, implementation %s' % (m['shape'], evec.shape)
    if ev.shape != (len(m['vals']),):
        return 'eigvals length: model %d, implementation %s' % (len(m['vals']), ev.shape)
    for k, (x, y) in enumerate(zip(ev.tolist(), m['vals'])):
        if not (np.isfinite(x) and cclose(x, y, max(abs(x), 1e-300))):
            return 'eigvals[%d]: model %r, implementation %r' % (k, complex(float(y[0]), float(y[1])), x)
    flat = evec.T.reshape(-1).tolist()
    scale = max([abs(x) for x in flat] + [1e-300])
    for k, (x, y) in enumerate(zip(flat, m['ents'])):
        if not cclose(x, y, scale):
            return 'eigvecs[%d, %d]: model %r, implementation %r' % (
                k % evec.shape[0], k // evec.shape[0], complex(float(y[0]), float(y[1])), x)
    return None


# ----------------------------------------------------------------------------- property predicates on the implementation
def classify_exception(ex, calls, n, num, nred, sparse, reduced):
    from scipy.sparse.linalg import ArpackNoConvergence, ArpackError
    if isinstance(ex, (ArpackNoConvergence, ArpackError)):
        return 'solver'
    m = SHAPE_RE.search(str(ex))
    if not sparse and reduced:
        if isinstance(ex, ValueError) and (m or 'must match exactly' in str(ex)):
            return 'C06-reduced-dof-shape-mismatch'
        return None
    if isinstance(ex, ValueError) and m and sparse:
        r1, c1, r2, c2 = [int(g) for g in m.groups()]
        if r1 == r2 == nred and c2 == num and c1 == min(num, n - 2) < num:
            return 'C06-shape-mismatch-num-eigvalues'
        return None
    if (isinstance(ex, TypeError) and 'k >= N - 1' in str(ex) and sparse and calls and calls[-1].get('exc') is ex
            and min(num, n - 2) >= nred - 1 and nred < n):
        return 'C06-k-not-reduced'
    return None


def exact_freqs(K, M, act):
    Ka = csr_matrix(K)[act, :][:, act].toarray()
    Ma = csr_matrix(M)[act, :][:, act].toarray()
    # M v = mu K v through the Cholesky factor of K (K is the well-conditioned one; a token mass makes M nearly singular):
    # the LOWEST frequencies (largest mu) keep full relative accuracy
    mu = scipy.linalg.eigh(Ma, Ka, eigvals_only=True)[::-1]
    with np.errstate(divide='ignore'):
        return np.sqrt(np.abs(1. / mu))


def check_contract(calls, bad):
    for c in calls:
        if 'out' not in c:
            continue
        A, B = csr_matrix(c['a']), csr_matrix(c['b'])
        z, W = c['out']
        na, nb = fro(A), fro(B)
        for j in range(min(W.shape[1], len(z))):
            w = W[:, j]
            r = np.linalg.norm(A @ w - z[j] * (B @ w))
            den = (na + abs(z[j]) * nb) * np.linalg.norm(w)
            if not r <= TOL_RES * den:
                bad.append('contract: %s pair %d has backward error %.2e' % (c['solver'], j, r / max(den, 1e-300)))
                break
        if c['solver'] == 'eigs' and W.shape[1] != c['kw'].get('k'):
            bad.append('contract: eigs returned %d columns for k=%r' % (W.shape[1], c['kw'].get('k')))


def predicates(K, M, act, num, sparse, sort, reduced, outcome, calls, wex, n):
    bad = []
    info = dict(pairs=0)
    nred = len(act)
    if outcome[0] == 'exc':
        ident = classify_exception(outcome[1], calls, n, num, nred, sparse, reduced)
        if ident == 'solver':
            info['solver_failure'] = repr(outcome[1])[:120]
            return bad, info
        bad.append((ident, 'freq raised %s: %s' % (type(outcome[1]).__name__, str(outcome[1])[:160])))
        return bad, info
    ev, evec = outcome[1], outcome[2]
    if evec.ndim != 2 or evec.shape[0] != n or ev.ndim != 1:
        bad.append((None, 'returned arrays have shapes %s, %s' % (ev.shape, evec.shape)))
        return bad, info
    npairs = min(len(ev), evec.shape[1])
    info['pairs'] = npairs
    K, M = csr_matrix(K), csr_matrix(M)
    nK, nM = fro(K), fro(M)
    null = np.setdiff1d(np.arange(n), act)
    if np.any(evec[null, :] != 0):
        bad.append((None, 'mode non-zero on a massless / stiffness-less amplitude'))
    for i in range(npairs):
        v, w = evec[:, i], complex(ev[i])
        nv = np.linalg.norm(v)
        if not (nv > 0 and np.isfinite(w)):
            bad.append((None, 'pair %d: zero mode or non-finite frequency %r' % (i, w)))
            break
        r = np.linalg.norm(K @ v - w * w * (M @ v))
        den = (nK + abs(w * w) * nM) * nv
        if not r <= TOL_RES * den:
            bad.append((None, 'pair %d: K v != w^2 M v, w = %r, backward error %.2e' % (i, w, r / max(den, 1e-300))))
            break
    re = ev.real.astype(float) if np.iscomplexobj(ev) else ev.astype(float)
    im = ev.imag.astype(float) if np.iscomplexobj(ev) else 0 * re
    if npairs and (np.any(re <= 0) or np.any(np.abs(im) > 1e-6 * np.abs(re))):
        bad.append((None, 'frequencies not positive real: %r' % ev[:6].tolist()))
    if sort and len(re) > 1:
        d = np.diff(re)
        if np.any(d < -1e-9 * np.abs(re[1:])):
            k = int(np.argmax(d < -1e-9 * np.abs(re[1:])))
            same_bucket = np.round(re[k], 1) == np.round(re[k + 1], 1)
            bad.append(('C06-sort-by-rounded-key' if same_bucket else None,
                        'frequencies not ascending with sort=True: ... %r, %r ...' % (float(re[k]), float(re[k + 1]))))
    # the lowest frequencies, as a sorted multiset, against the dense symmetric solve of the active block
    if len(re) and not reduced:
        got = np.sort(re)
        p = min(len(got), len(wex))
        # a mode more than 2e5 x above the fundamental (the mode of a token lumped mass) is ill-conditioned in any solver: not compared
        while p and wex[p - 1] > 2e5 * wex[0]:
            p -= 1
        if p and not np.all(np.abs(got[:p] - wex[:p]) <= TOL_VAL * wex[:p]):
            k = int(np.argmax(np.abs(got[:p] - wex[:p]) > TOL_VAL * wex[:p]))
            bad.append((None, '%d-th lowest returned frequency is %r, the %d-th lowest frequency of the pair is %r'
                        % (k + 1, float(got[k]), k + 1, float(wex[k]))))
        if not sparse and len(got) != nred:
            bad.append((None, 'dense path returned %d frequencies for %d active amplitudes' % (len(got), nred)))
    cbad = []
    check_contract(calls, cbad)
    info['contract'] = cbad
    return bad, info


# ----------------------------------------------------------------------------- one problem = several runs
def runs_of(p, tracer=None):
    K, M, act = build(p)
    n = K.shape[0]
    num = p['num']
    out = []

    def add(tag, Kx, Mx, sparse, sort, reduced, **kw):
        oc, calls = run_freq(Kx, Mx, num, sparse, sort, reduced, tracer)
        d = dict(tag=tag, n=n, num=num, sparse=sparse, sort=sort, reduced=reduced, K=Kx, M=Mx, act=act, outcome=oc,
                 calls=calls)
        d.update(kw)
        out.append(d)
    if p['kind'] == 'complex':
        add('freq', K, M, False, True, False)
        add('freq', K, M, True, True, False)
        return out
    for sparse in (True, False):
        for sort in (True, False):
            add('freq', K, M, sparse, sort, False)
    add('freq', K, M, False, bool(p.get('seed', 1) % 2), True)        # dense reduced_dof
    add('freq', K, M, True, True, True)                               # sparse: reduced_dof is ignored
    s = p['scale']
    add('scaled', K, M * s, bool(p.get('seed', 0) % 3 != 0), True, False, factor=s)
    if p['kind'] == 'panel':
        for sparse, sort, reduced in ((True, True, False), (False, True, False), (False, False, True)):
            oc, calls, K2, M2 = run_panel_freq(p, num, sparse, sort, reduced)
            out.append(dict(tag='Panel.freq', n=n, num=num, sparse=sparse, sort=sort, reduced=reduced, K=K2, M=M2,
                            act=np.unique(K2.nonzero()[1]), outcome=oc, calls=calls))
    return out


def evaluate(p, runs):
    bad = []
    stats = dict(pairs=0, solver_failures=0, contract=[])
    if p['kind'] == 'complex':          # outside the property's domain: correspondence only
        for r in runs:
            r['info'] = dict(pairs=0)
        return bad, stats
    wex = exact_freqs(runs[0]['K'], runs[0]['M'], runs[0]['act'])
    for r in runs:
        w = wex / np.sqrt(r['factor']) if r['tag'] == 'scaled' else (
            exact_freqs(r['K'], r['M'], r['act']) if r['tag'] == 'Panel.freq' else wex)
        b, info = predicates(r['K'], r['M'], r['act'], r['num'], r['sparse'], r['sort'], r['reduced'], r['outcome'],
                             r['calls'], w, r['n'])
        r['info'] = info
        stats['pairs'] += info['pairs']
        stats['solver_failures'] += 'solver_failure' in info
        stats['contract'] += info.get('contract', [])
        for ident, text in b:
            bad.append((ident, '[%s %s sort=%s reduced_dof=%s] %s' % (
                r['tag'], 'sparse' if r['sparse'] else 'dense', r['sort'], r['reduced'], text)))
    ok = [r for r in runs if r['outcome'][0] == 'ok' and not (r['reduced'] and not r['sparse'])]
    base_s = [r for r in ok if r['tag'] == 'freq' and r['sparse'] and r['sort'] and not r['reduced']]
    base_d = [r for r in ok if r['tag'] == 'freq' and not r['sparse'] and r['sort']]
    if base_s and base_d:
        a, b = np.sort(base_s[0]['outcome'][1].real), np.sort(base_d[0]['outcome'][1].real)
        k = min(len(a), len(b))
        while k and b[k - 1] > 2e5 * b[0]:      # ill-conditioned mode of a token lumped mass: not compared
            k -= 1
        if k and not np.all(np.abs(a[:k] - b[:k]) <= TOL_VAL * np.abs(b[:k])):
            bad.append((None, 'sparse and dense paths return different lowest frequencies: %r vs %r'
                        % (a[:k][:6].tolist(), b[:k][:6].tolist())))
    for r in ok:
        if r['tag'] == 'scaled':
            base = [x for x in ok if x['tag'] == 'freq' and x['sparse'] == r['sparse'] and x['sort'] and not x['reduced']]
            if base:
                a = np.sort(base[0]['outcome'][1].real) / np.sqrt(r['factor'])
                b = np.sort(r['outcome'][1].real)
                k = min(len(a), len(b))
                while k and b[k - 1] > 2e5 * b[0]:
                    k -= 1
                if k and not np.all(np.abs(a[:k] - b[:k]) <= TOL_VAL * np.abs(b[:k])):
                    bad.append((None, 'scaling the mass by %g does not scale the frequencies by 1/sqrt of it: %r vs %r'
                                % (r['factor'], a[:k][:6].tolist(), b[:k][:6].tolist())))
    return bad, stats


# witnesses of the listed findings and regression inputs of the repaired ones (fixed entries, /repo 3692045, d870371:
# they must RETURN now; a re-appearance is a VIOLATION): run first
CORPUS = [
    # 6 amplitudes, default 25 requested values, sparse path: k = 4 (was: shape mismatch (6,4) vs (6,25))
    dict(kind='random', seed=21, n=6, nnull=0, num=25, scale=2.0, fmt='csr'),
    # 8 amplitudes, two null, 5 requested: k re-capped to 4 < 6 - 1 (was: eigs 'k >= N - 1')
    dict(kind='random', seed=22, n=8, nnull=2, num=5, scale=0.5, fmt='csr'),
    # prescribed frequencies sharing a 0.1 bucket: [3, 7, 10.04, 10.01, 15, 20] on both paths
    dict(kind='diag', n=6, act=[0, 1, 2, 3, 4, 5], omega=[10.04, 10.01, 3., 7., 20., 15.], num=4, scale=4.0),
    # dense reduced_dof: (6,6) block assigned to 9 rows
    dict(kind='random', seed=24, n=9, nnull=0, num=3, scale=2.0, fmt='csr'),
    # null amplitudes, everything returned, both paths
    dict(kind='diag', n=9, act=[0, 2, 3, 5, 6, 7, 8], omega=[5., 1., 9., 2.5, 30., 14., 77.], num=3, scale=0.25),
]


def describe_clean(p):
    return dict((k, v) for k, v in p.items() if not k.startswith('_'))


def correspondence(ctx):
    import importlib
    Fq = importlib.import_module('compmech.analysis.freq')
    import compmech.sparse as S
    rng = ctx.rng
    problems = [dict(p) for p in CORPUS]
    for _ in range(ctx.scale(70, 800)):
        problems.append(gen_params(rng, ctx.thorough()))
    for _ in range(ctx.scale(8, 60)):
        problems.append(gen_panel_params(rng))
    for _ in range(ctx.scale(1, 8)):
        problems.append(gen_params(rng, ctx.thorough(), big=True))
    for _ in range(ctx.scale(10, 80)):
        problems.append(dict(kind='complex', seed=rng.randrange(2 ** 31), n=rng.choice([6, 8, 10, 14, 20]),
                             nnull=rng.choice([0, 1, 3]), num=rng.randint(1, 4), scale=1.0))
    tracer = LineTracer([Fq.freq, S.remove_null_cols])
    dist = dict(problems=len(problems), runs=0, sparse=0, dense=0, sort_on=0, reduced_on=0, with_null=0,
                exceptions={}, pairs=0, solver_failures=0, sizes={}, contract_failures=0, nonfinite_skipped=0,
                discarded_small_margin=0, panel_freq=0, kinds={}, not_ascending_hits=0)
    pending = []
    nviol = 0
    for p in problems:
        runs = runs_of(p, tracer)
        bad, stats = evaluate(p, runs)
        dist['pairs'] += stats['pairs']
        dist['solver_failures'] += stats['solver_failures']
        dist['contract_failures'] += len(stats['contract'])
        dist['kinds'][p['kind']] = dist['kinds'].get(p['kind'], 0) + 1
        n = runs[0]['n']
        b = min(n // 50 * 50, 400) if n >= 50 else n // 10 * 10
        dist['sizes'][b] = dist['sizes'].get(b, 0) + 1
        for c in stats['contract'][:2]:
            ctx.notes.append('solver contract not met on %r: %s' % (describe_clean(p), c))
        p['_bad'] = bad
        for ident, text in bad:
            dist['not_ascending_hits'] += ident == 'C06-sort-by-rounded-key'
            if ctx.violation('C06 fails on the implementation: ' + text, dict(problem=describe_clean(p)), identity=ident):
                nviol += 1
        for r in runs:
            ctx.evaluations += 1
            dist['runs'] += 1
            dist['sparse' if r['sparse'] else 'dense'] += 1
            dist['sort_on'] += r['sort']
            dist['reduced_on'] += r['reduced']
            dist['with_null'] += len(r['act']) < r['n']
            dist['panel_freq'] += r['tag'] == 'Panel.freq'
            if r['outcome'][0] == 'exc':
                k = type(r['outcome'][1]).__name__
                dist['exceptions'][k] = dist['exceptions'].get(k, 0) + 1
            outs = [c['out'] for c in r['calls'] if 'out' in c]
            res = outs[0] if outs else None
            arg, sq = sqrt_outputs(r['calls'], r['sparse'])
            if not finite_out(res) or (sq is not None and not (np.all(np.isfinite(sq)) and np.all(np.isfinite(arg)))):
                dist['nonfinite_skipped'] += 1
                continue
            if sq is not None:      # contract of numpy.sqrt: principal root
                if not (np.all(np.abs(sq * sq - arg) <= 1e-12 * np.abs(arg)) and np.all(sq.real >= 0)):
                    ctx.notes.append('numpy.sqrt contract not met on %r' % describe_clean(p))
            if (len(r['act']) < r['n'] and r['outcome'][0] == 'ok' and r['info']['pairs']) or r['outcome'][0] == 'exc':
                ctx.nontrivial.add((repr(describe_clean(p)), r['tag'], r['sparse'], r['sort'], r['reduced']))
            pending.append((p, r, model_line(r['n'], r['num'], r['sparse'], r['sort'], r['reduced'], r['K'], r['M'],
                                             res, sq)))
        if nviol >= 3:
            break
    ctx.log('implementation runs: %d, predicates evaluated; driving the Lean model on %d lines' % (dist['runs'], len(pending)))
    replies = driver([l for _, _, l in pending]) if pending else []
    if len(replies) != len(pending):
        raise RuntimeError('driver returned %d replies for %d lines' % (len(replies), len(pending)))
    ndis = 0
    for (p, r, line), rep in zip(pending, replies):
        d = compare_freq(rep, r['outcome'], r['calls'], r['K'], r['M'], r['n'])
        if d == 'discard':
            dist['discarded_small_margin'] += 1
            continue
        if len(ctx.samples) < 3 and r['outcome'][0] == 'ok' and len(r['act']) < r['n']:
            ctx.sample(dict(problem=describe_clean(p), path='sparse' if r['sparse'] else 'dense', sort=r['sort'],
                            tag=r['tag'], model_reply=rep[:240], eigvals=[complex(z) for z in r['outcome'][1][:4].tolist()]))
        if d:
            ndis += 1
            if [t for i, t in p.get('_bad', []) if i is None]:
                continue
            ctx.violation('model/implementation disagreement (%s) [%s, %s path, sort=%s, reduced_dof=%s]; the property '
                          'predicates hold on this case' % (d, r['tag'], 'sparse' if r['sparse'] else 'dense', r['sort'],
                                                            r['reduced']),
                          dict(problem=describe_clean(p), correspondence='Model/EigPost.lean freq vs analysis/freq.py'),
                          found_input=False)
            if ndis >= 3:
                break
    redefinition_stream(ctx, rng)
    massless_stream(ctx, rng)
    cov = {}
    for f in (Fq.freq, S.remove_null_cols):
        al = tracer.all_lines(f)
        miss = sorted(al - tracer.hit[f.__name__])
        cov[f.__name__] = dict(lines=len(al), executed=len(al) - len(miss), missed=miss)
        if miss:
            ctx.notes.append('modelled function %s: lines never executed by the corpus (for freq: the tail of the '
                             'dense reduced_dof branch, which always raises before reaching it): %s' % (f.__name__, miss))
    ctx.cov['line_coverage'] = cov
    ctx.cov['input_distribution'] = dist
    ctx.cov['model_runs_compared'] = len(pending) - dist['discarded_small_margin']
    ctx.cov['disagreements'] = ndis


def redefinition_one(p, edit, sparse, num):
    """(frequencies before the edit, after the edit on the same object, of a fresh panel with the edited data)"""
    def apply(obj):
        if edit == 'mu':
            obj.mu = obj.mu * 4.
        elif edit == 'plyt':
            obj.plyt = obj.plyt * 1.5
            obj.plyts = []
        elif edit == 'a':
            obj.a = obj.a * 1.3
        else:
            obj.stack = [0, 0, 90, 90]
            obj.plyts = []
            obj.laminaprops = []
    pn = make_panel(p)
    pn.num_eigvalues = num
    with np.errstate(all='ignore'):
        pn.freq(sparse_solver=sparse, silent=True)
        first = np.array(pn.eigvals, dtype=complex)
        apply(pn)
        pn.freq(sparse_solver=sparse, silent=True)
        again = np.array(pn.eigvals, dtype=complex)
        fresh = make_panel(p)
        fresh.num_eigvalues = num
        apply(fresh)
        fresh.freq(sparse_solver=sparse, silent=True)
        want = np.array(fresh.eigvals, dtype=complex)
    return first, again, want


def redefinition_bad(p, edit, sparse, num):
    try:
        first, again, want = redefinition_one(p, edit, sparse, num)
    except Exception:       # solver / glue exceptions are judged by the main stream
        return None
    k = min(len(again), len(want), num)
    if k and np.abs(again[:k] - want[:k]).max() > 1e-6 * np.abs(want[:k]).max():
        return ('Panel.freq after editing %r on an already analysed panel returns %r, a freshly defined panel with the same '
                'data gives %r (before the edit: %r)' % (edit, again[:k].real.tolist(), want[:k].real.tolist(),
                                                         first[:k].real.tolist()))
    return None


def redefinition_stream(ctx, rng):
    """a Panel whose definition is edited between two frequency analyses gives the frequencies of a freshly defined panel
    with the edited data (the mass and stiffness matrices used belong to the definition the panel has NOW)"""
    EDITS = ['mu', 'plyt', 'a', 'stack']
    for t_ in range(ctx.scale(4, 32)):
        p = gen_panel_params(rng)
        p['m'], p['nn'] = rng.randint(3, 4), rng.randint(3, 4)
        sparse = (t_ // len(EDITS)) % 2 == 0 if t_ < 2 * len(EDITS) else rng.random() < 0.5
        num = rng.choice([2, 3, 5])
        edit = EDITS[t_ % len(EDITS)]              # every kind of edit on every run
        bad = redefinition_bad(p, edit, sparse, num)
        ctx.evaluations += 1
        if bad and ctx.violation('C06 fails on the implementation: ' + bad,
                                 dict(problem=describe_clean(p), edit=edit, sparse=sparse, num=num, kind='redefinition')):
            return True
    return False


def massless_stream(ctx, rng):
    """(K, M) whose mass matrix has null rows / columns where the stiffness has none: in-plane inertia neglected on a panel whose in-plane and
    out-of-plane amplitudes are coupled (unsymmetric laminate, curvature).  True eigenpairs of the pencil: the massless amplitudes follow
    statically (condensation).  Sparse path: residual on the FULL matrices and lowest frequencies against the condensed reference.
    Dense path: removes the massless amplitudes as if they were clamped - recorded finding C06-dense-clamps-massless-amplitudes."""
    import importlib
    Fq = importlib.import_module('compmech.analysis.freq')
    for t_ in range(ctx.scale(3, 12)):
        p = gen_panel_params(rng)
        p['kind'] = 'panel'
        p['model'] = ['cpanel_clt_donnell_bardell', 'plate_clt_donnell_bardell'][t_ % 2]
        p['m'], p['nn'] = rng.randint(4, 5), rng.randint(4, 5)
        pn = make_panel(p)
        pn.stack = [0, 0, 90, 90] if t_ % 2 else [0, 90, -45, 45]          # unsymmetric: B != 0 couples u, v with w
        pn.r = 2.
        for f_ in 'uv':            # in-plane edges free except for the rigid-body restraints: the in-plane fields must not be switched off
            for e_ in ('1t', '1r', '2t', '2r'):
                for d_ in 'xy':
                    setattr(pn, f_ + e_ + d_, 1.)
        pn.u1tx = pn.v1tx = pn.v1ty = 0.
        K = np.asarray(pn.calc_k0(silent=True).toarray())
        M = np.asarray(pn.calc_kM(silent=True).toarray())
        inpl = np.array([i for i in range(K.shape[0]) if i % 3 != 2])
        M[inpl, :] = 0.
        M[:, inpl] = 0.
        act = np.array([i for i in range(K.shape[0]) if np.abs(K[i]).sum() != 0])
        mass = np.array([i for i in act if np.abs(M[i]).sum() != 0])
        less = np.array([i for i in act if np.abs(M[i]).sum() == 0])
        if len(less) == 0 or len(mass) < 4:
            continue
        Kc = K[np.ix_(mass, mass)] - K[np.ix_(mass, less)] @ np.linalg.solve(K[np.ix_(less, less)], K[np.ix_(less, mass)])
        wref = np.sqrt(np.abs(scipy.linalg.eigh(Kc, M[np.ix_(mass, mass)], eigvals_only=True)))
        desc = dict(kind='massless', model=p['model'], m=p['m'], n=p['nn'], a=p['a'], b=p['b'], stack=list(pn.stack), massless='u, v amplitudes')
        for sparse in (True, False):
            ctx.evaluations += 1
            try:
                with np.errstate(all='ignore'):
                    ev, evec = Fq.freq(csr_matrix(K), csr_matrix(M), sparse_solver=sparse, silent=True, num_eigvalues=4)
            except Exception as ex:                                        # noqa
                if 'Arpack' in type(ex).__name__:
                    continue
                bad = 'freq raised %s: %s' % (type(ex).__name__, str(ex)[:100])
                ev = None
            else:
                ev = np.real(np.asarray(ev))
                evec = np.asarray(evec)
                bad = None
                k_ = min(3, len(ev), evec.shape[1])
                for i in range(k_):
                    v = np.real(evec[:, i])
                    res = np.abs(K @ v - ev[i] ** 2 * (M @ v)).max() / max(np.abs(K @ v).max(), 1e-300)
                    if res > 1e-6:
                        bad = ('pair %d is not an eigenpair of the pencil: K v != w^2 M v on the full matrices (backward error %.2e, w = %.6g; '
                               'the condensed reference has %.6g)' % (i, res, ev[i], wref[i]))
                        break
                if bad is None and k_ and np.abs(ev[:k_] - wref[:k_]).max() > 1e-6 * wref[:k_].max():
                    bad = 'lowest frequencies %r differ from those of the statically condensed pencil %r' % (ev[:k_].tolist(), wref[:k_].tolist())
            if bad:
                ident = 'C06-dense-clamps-massless-amplitudes' if not sparse else None
                if ctx.violation('C06 fails on the implementation: [freq %s path, mass matrix with massless but stiff amplitudes] %s'
                                 % ('sparse' if sparse else 'dense', bad), dict(problem=desc, sparse=sparse), identity=ident):
                    return True
    return False


def search(ctx, reason):
    rng = ctx.rng
    probs = [dict(p) for p in CORPUS] + [gen_params(rng, ctx.thorough()) for _ in range(ctx.scale(60, 600))] + \
        [gen_panel_params(rng) for _ in range(ctx.scale(6, 40))]
    for p in probs:
        runs = runs_of(p)
        bad, _ = evaluate(p, runs)
        ctx.evaluations += len(runs)
        found = False
        for ident, text in bad:
            if ctx.violation('C06 fails on the implementation: ' + text + ' [after: %s]' % '; '.join(reason)[:300],
                             dict(problem=describe_clean(p)), identity=ident):
                found = True
        if found:
            return True
    return False


def replay(ctx, data):
    r = data['replay']
    if 'problem' not in r:
        print('replay names a broken obligation, no input:', data['what'])
        return 1
    p = r['problem']
    if r.get('kind') == 'redefinition':
        bad = redefinition_bad(p, r['edit'], r['sparse'], r['num'])
        print('redefinition:', bad)
        return 1 if bad else 0
    runs = runs_of(p)
    bad, stats = evaluate(p, runs)
    lines, keep = [], []
    for x in runs:
        outs = [c['out'] for c in x['calls'] if 'out' in c]
        res = outs[0] if outs else None
        arg, sq = sqrt_outputs(x['calls'], x['sparse'])
        if finite_out(res) and (sq is None or np.all(np.isfinite(sq))):
            lines.append(model_line(x['n'], x['num'], x['sparse'], x['sort'], x['reduced'], x['K'], x['M'], res, sq))
            keep.append(x)
    reps = driver(lines) if lines else []
    dis = []
    for x, rep in zip(keep, reps):
        d = compare_freq(rep, x['outcome'], x['calls'], x['K'], x['M'], x['n'])
        print('%-10s %-6s sort=%-5s reduced=%-5s -> %s | model: %s' % (
            x['tag'], 'sparse' if x['sparse'] else 'dense', x['sort'], x['reduced'],
            ('eigvals %s' % np.round(x['outcome'][1][:6].real, 4).tolist()) if x['outcome'][0] == 'ok'
            else repr(x['outcome'][1])[:110], rep.split('|')[1].strip()[:50]))
        if d and d != 'discard':
            dis.append(d)
    print('property predicates:', bad)
    print('model/implementation disagreements:', dis)
    known = set(f['id'] for f in load_findings('C06') if f.get('status', 'known') == 'known')
    unknown = [t for i, t in bad if i not in known]
    return 1 if (unknown or dis) else 0
