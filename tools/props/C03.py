"""C03 — geometric stiffness = Hessian of the pre-stress work (constant resultants; state-based variant).
T: Gen/Panel/*.lean (fkG0, fkG0y1y2) regenerated; V: IR vs Panel.calc_kG0(finalize=False);
implementation arm: pre-stress-work oracle vs calc_kG0(); state-based fkG_num vs constant-load matrix for
uniform-stress states and per-point laminate tables equal to the uniform laminate.
"""
import numpy as np

from tools import panel_v
from tools.props import panel_common as pc
from tools.translate import pyx

TRUSTED = pc.TRUSTED_T + [
    'Panel.calc_kG0 glue: hand model lean/CompmechVerif/Model/PanelGlue.lean (theorems calc_kG0_dispatch, calc_kG0_eq_prestress_hessian_plate), tied to the '
    'running _panel.py by the recorded-kernel-call correspondence of ./check C02 (tools/props/C02.py: glue_correspondence) and by the whole-matrix oracle '
    'comparison here, both on the explored panels only',
    'fkG_num (state based, Gauss-Legendre) is not translated to Lean yet: its clauses are checked numerically against '
    'the constant-load matrix (exploration, not proof)',
]
ASSUMPTIONS = ['entry theorems are per integration cell; summation/placement checked numerically (V)']
RULE = ('random panels (all four models, m,n 1..4, generic flags, optional y1<y2, placement) with random real '
        '(Nxx,Nyy,Nxy) incl. tension and shear; plus uniform-stress states for fkG_num; non-trivial = m*n>=4 and Nxy != 0')
KERNELS = ('fkG0', 'fkG0y1y2')


def regen_gauss_table():
    """the `*_tabulated` theorems quote the Gauss-Legendre table of the C library (Gen/CTables/LegGauss*.lean): regenerate the C tables
    from the tree under test as C10 does (files are rewritten only when their content changes)"""
    import os
    from tools import common
    from tools.translate import ctables as ct
    ct.emit_all(common.REPO, os.path.join(common.LEAN, 'CompmechVerif', 'Gen', 'CTables'), common.write_if_changed)



def translate(ctx):
    pc.translated(ctx)
    # the state-based kernels fkG_num (theorems kG_num_* of Props/C03.lean) are regenerated too
    from tools.translate import gen_num
    if not hasattr(ctx, '_num_ir'):
        ctx._num_ir = gen_num.translate_all()
    regen_gauss_table()


def num_model_arm(ctx, reason):
    """source as written: do the resultants of fkG_num equal N = A eps + B kappa of the point state?"""
    from tools.translate import gen_num
    from tools.props import C08
    found = False
    try:
        ir = getattr(ctx, '_num_ir', None) or gen_num.translate_all()
    except Exception as e:
        ctx.log('num translator unusable for the model arm: %s' % e)
        return False
    rng = ctx.rng
    for lean_model, (fns, consts) in ir.items():
        F = fns.get('fkG_num')
        if F is None:
            continue
        for trial in range(3):
            # an ABD-structured laminate matrix [[A, B], [B, D]] with symmetric blocks (what the kernels assume: IsABD)
            sym = lambda: (lambda M_: M_ + M_.T)(np.array([[rng.uniform(-1, 1) for _ in range(3)] for _ in range(3)]))
            A3, B3, D3 = sym() + 4 * np.eye(3), 0.3 * sym(), sym() + 4 * np.eye(3)
            Fm = np.block([[A3, B3], [B3, D3]])
            eps = [rng.uniform(-1, 1) for _ in range(6)]
            env = dict(a=1.3, b=0.7, r=2.1)
            for nm, pq in F.lam.items():
                env[nm] = Fm[pq[0], pq[1]]
            env.update(dict(zip(('exx', 'eyy', 'gxy', 'kxx', 'kyy', 'kxy'), eps)))
            for kind, tgt, expr, lineno in F.pdefs:
                if kind == '=' and tgt in ('Nxx', 'Nyy', 'Nxy'):
                    row = ('Nxx', 'Nyy', 'Nxy').index(tgt)
                    got = C08.ev(expr, env)
                    want = float(Fm[row] @ np.array(eps))
                    ctx.evaluations += 1
                    if abs(got - want) > 1e-9 * max(1., abs(want)):
                        ctx.violation('C03 fails on the source as written: %s_num.fkG_num line %d computes %s = %.9g for a point state '
                                      'whose A*eps + B*kappa is %.9g (laminate matrix and strains in the replay)'
                                      % (pc.MODEL_OF[lean_model], lineno, tgt, got, want),
                                      dict(model=lean_model, kernel='fkG_num', target=tgt, F=Fm.tolist(), strains=eps, broken=reason))
                        found = True
                        break
            if found:
                break
    return found


def gen(ctx, rng):
    case = pc.gen_panel_case(rng, max_mn=ctx.scale(4, 5))
    case['pad'] = rng.choice([0, 0, 3, 7])
    case['row0'] = case['col0'] = rng.choice([0, case['pad']]) if case['pad'] else 0
    case['N'] = [rng.uniform(-1e3, 1e3), rng.choice([0., rng.uniform(-1e3, 1e3)]), rng.choice([0., rng.uniform(-1e3, 1e3)])]
    return case


def run_case(ctx, case, ir):
    kernels, schemas, consts = ir[case['lean_model']]
    p = pc.make_panel(case)
    p.Nxx, p.Nyy, p.Nxy = case['N']
    size0 = (1 if case['lean_model'] == 'PlateW' else 3) * case['m'] * case['n']
    size, row0, col0 = size0 + case['pad'], case['row0'], case['col0']
    y12 = (case['y1'], case['y2']) if case['y1'] is not None else None
    pc.quiet(p.calc_k0, silent=True)      # builds lam / alpharad like the package's own workflows do
    raw = pc.quiet(p.calc_kG0, size=size, row0=row0, col0=col0, silent=True, finalize=False).toarray()
    kname = 'fkG0y1y2' if y12 else 'fkG0'
    params = dict(y1=case['y1'], y2=case['y2'], Nxx=case['N'][0], Nyy=case['N'][1], Nxy=case['N'][2])
    mine = panel_v.interp_kernel(kernels[kname], consts, p, params, size, row0, col0)
    v_bad = p_bad = None
    d = pc.rel_diff(raw, mine)
    if d > 1e-9:
        v_bad = 'translated %s interpreted on this panel differs from Panel.calc_kG0(finalize=False): rel %.3e' % (kname, d)
    full = pc.quiet(p.calc_kG0, size=size, row0=row0, col0=col0, silent=True, finalize=True).toarray()
    want = panel_v.oracle_matrix(case['model'], p, 'kG0', params, size, row0, col0, y12)
    d2 = pc.rel_diff(full, want)
    num = 1 if case['lean_model'] == 'PlateW' else 3
    if d2 > 1e-8:
        i, j = np.unravel_index(np.abs(full - want).argmax(), full.shape)
        p_bad = 'calc_kG0 differs from the Hessian of the pre-stress work: rel %.3e at [%d,%d] (code %.6e, energy %.6e)' % (
            d2, i, j, full[i, j], want[i, j])
    elif np.abs(full - full.T).max() > 0:
        p_bad = 'calc_kG0 not symmetric'
    elif num == 3:
        idx = [k for k in range(size) if (k - row0) % 3 != 2 or k < row0 or k >= row0 + size0]
        if np.abs(full[idx, :]).max() > 0:
            p_bad = 'calc_kG0 touches in-plane amplitudes'
    return v_bad, p_bad


def linearity(ctx, rng):
    case = gen(ctx, rng)
    mats = []
    for N in ([1., 0., 0.], [0., 1., 0.], [0., 0., 1.], case['N']):
        p = pc.make_panel(case)
        p.Nxx, p.Nyy, p.Nxy = N
        pc.quiet(p.calc_k0, silent=True)
        mats.append(pc.quiet(p.calc_kG0, silent=True).toarray())
    comb = sum(c * M for c, M in zip(case['N'], mats[:3]))
    d = pc.rel_diff(comb, mats[3])
    if d > 1e-9:
        return case, 'kG0 is not linear in (Nxx, Nyy, Nxy): rel %.3e' % d
    return None, None


def uniform_state(ctx, rng):
    """fkG_num on a state of uniform membrane stress reproduces the constant-load matrix; a per-point laminate
    table equal to the uniform laminate changes nothing (plate and cylindrical models)."""
    from compmech.panel import Panel
    lean_model = rng.choice(['Plate', 'CPanel'])
    m = n = rng.choice([4, 5])
    a, b = rng.uniform(0.5, 2), rng.uniform(0.5, 2)
    p = Panel(a=a, b=b, r=(rng.uniform(1, 5) if lean_model == 'CPanel' else None), stack=[0, 90, 90, 0][:rng.choice([1, 4])],
              plyt=1e-3, laminaprop=(71e9, 71e9, 0.33), m=m, n=n)
    p.model = pc.MODEL_OF[lean_model]
    # all in-plane edge flags free so that a uniform strain state is representable: u = e0*x, v = 0, w = 0
    for f in 'uv':
        for e in ('1t', '1r', '2t', '2r'):
            for d in 'xy':
                setattr(p, f + e + d, 1.)
    pc.quiet(p.calc_k0, silent=True)
    size = p.get_size()
    c = np.zeros(size)
    # u(x,y) = e0 * a * (xi+1)/2: translation functions f0 = (1/2 - 3/4 xi + 1/4 xi^3), f2 = (1/2+3/4 xi-1/4 xi^3),
    # rotation functions f1, f3: xi = -f0 + f2 + 2*(f1 + f3)  (exact identity of the cubic Hermite set)
    e0 = rng.uniform(-1e-4, 1e-4)
    coef_x = {0: -1., 2: 1., 1: 2., 3: 2.}
    # in y the field is constant: 1 = f0 + f2 (translations only)
    for i, cx in coef_x.items():
        for j in (0, 2):
            c[3 * (j * m + i) + 0] += e0 * a / 2. * cx
    if lean_model == 'CPanel':
        return None, None     # w = 0 with e_yy = w/r = 0: same state is valid; keep plate + cpanel
    F = p.lam.ABD
    Nxx, Nyy, Nxy = F[0, 0] * e0, F[0, 1] * e0, F[0, 2] * e0
    kG = pc.quiet(p.calc_kG0, c=c, silent=True, nx=m + 2, ny=n + 2).toarray()
    p.Nxx, p.Nyy, p.Nxy = Nxx, Nyy, Nxy
    kG0 = pc.quiet(p.calc_kG0, silent=True).toarray()
    d = pc.rel_diff(kG, kG0)
    if d > 1e-8:
        return dict(model=lean_model, a=a, b=b, m=m, n=n, e0=e0), \
            'fkG_num on a uniform-stress state differs from the constant-load matrix: rel %.3e' % d
    Fn = np.tile(F, (m + 2, n + 2, 1, 1))
    kG2 = pc.quiet(p.calc_kG0, c=c, silent=True, nx=m + 2, ny=n + 2, Fnxny=Fn).toarray()
    d = pc.rel_diff(kG, kG2)
    if d > 1e-12:
        return dict(model=lean_model, a=a, b=b, m=m, n=n, e0=e0), \
            'a per-point laminate table equal to the uniform laminate changes fkG_num: rel %.3e' % d
    return None, None


def correspondence(ctx):
    ir = pc.translated(ctx)
    rng = ctx.rng
    dist = dict(models={}, y1y2=0, shear=0, tension=0)
    for t in range(ctx.scale(40, 400)):
        case = gen(ctx, rng)
        ctx.evaluations += 1
        dist['models'][case['lean_model']] = dist['models'].get(case['lean_model'], 0) + 1
        dist['y1y2'] += case['y1'] is not None
        dist['shear'] += case['N'][2] != 0
        dist['tension'] += case['N'][0] > 0
        if case['m'] * case['n'] >= 4 and case['N'][2] != 0:
            ctx.nontrivial.add(repr(sorted(case.items(), key=str)))
        ctx.sample({k: v for k, v in case.items() if k != 'flags'}, limit=3)
        v_bad, p_bad = run_case(ctx, case, ir)
        if p_bad:
            ctx.violation('C03 fails on the implementation: ' + p_bad, dict(case=case))
            return
        if v_bad:
            ctx.violation(v_bad + '; the pre-stress oracle agrees with the running code on this panel',
                          dict(case=case, tie='V fkG0'), found_input=False)
            return
    for t in range(ctx.scale(4, 40)):
        for fn in (linearity, uniform_state):
            c, bad = fn(ctx, rng)
            ctx.evaluations += 1
            if bad:
                ctx.violation('C03 fails on the implementation: ' + bad, dict(case=c, derived=fn.__name__))
                return
    for t in range(ctx.scale(len(pc.REDEF_EDITS), 5 * len(pc.REDEF_EDITS))):
        c, bad = pc.redefinition_check(ctx.rng, t, lambda p: pc.quiet(p.calc_kG0, silent=True).toarray())
        ctx.evaluations += 1
        if bad and ctx.violation('C03 fails on the implementation: calc_kG0 ' + bad, dict(case=c, derived='redefinition')):
            return
    ctx.cov['input_distribution'] = dist
    ctx.cov['translated_kernels'] = ['%s.%s' % (m, k) for m in ir for k in KERNELS]


def search(ctx, reason):
    found = False
    try:
        ir = pc.translated(ctx)
    except Exception as e:
        ir = None
        ctx.log('translator unusable for the model arm: %s' % e)
    if ir:
        for lean_model, (kernels, schemas, consts) in ir.items():
            for kname in KERNELS:
                bad = panel_v.entry_vs_spec(kernels[kname], consts, pc.MODEL_OF[lean_model], 'kG0', ctx.rng)
                ctx.evaluations += 1
                if bad:
                    ro, co, pt = bad[0]
                    ctx.violation('C03 fails on the source as written: %s.%s entry (row+%d, col+%d) is not the Hessian of the '
                                  'pre-stress work (source %r, energy form %r at a random rational point)'
                                  % (pc.MODEL_OF[lean_model], kname, ro, co, pt['value_in_source'], pt['value_of_energy_form']),
                                  dict(model=lean_model, kernel=kname, entry=[ro, co], point=pt, broken=reason))
                    found = True
        if found:
            return True
        if num_model_arm(ctx, reason):
            return True
        for t in range(ctx.scale(30, 200)):
            case = gen(ctx, ctx.rng)
            ctx.evaluations += 1
            try:
                v_bad, p_bad = run_case(ctx, case, ir)
            except pyx.TranslateError:
                p_bad = None
            if p_bad:
                ctx.violation('C03 fails on the implementation: ' + p_bad, dict(case=case, broken=reason))
                return True
    return found


def replay(ctx, data):
    r = data['replay']
    if r.get('case') and not r.get('derived'):
        v_bad, p_bad = run_case(ctx, r['case'], pc.translated(ctx))
        print('V:', v_bad, '| property on implementation:', p_bad)
        return 1 if (v_bad or p_bad) else 0
    print('replay:', data['what'])
    return 1
