"""C19 — recorded-call correspondence of Model/BayAero.lean (hand model of `StiffPanelBay.calc_kA` and of the aerodynamic part of
`tstiff2d_1stiff_flutter`) with the running Python, through Drv/C19.lean (ops `bay`, `flutter`).

The compiled `fkAx / fkAy` of the panel model modules are replaced by recorders (as `glue_correspondence` of C02.py does) that delegate
to the compiled kernel or hand back a random integer COO matrix.  Compared exactly with the model: kernel names, every argument (floats
as exact rationals; the Mach-route coefficients to 1e-12), `panel.r` at the moment of the call, the exception class and its origin
(bay / skin panel / panel `_rebuild` / stiffener `_rebuild`), the attributes the bay writes on `panels[0]` IN ORDER, the attributes left
behind on the bay (`model`, `Mach`, `size`, `kA`) and on every panel, and the returned matrix (the model's combination evaluated at Q on
the recorded kernel results).  Line coverage of `StiffPanelBay.calc_kA / _rebuild / get_size` is gated.
"""
import copy
import random as _random
import sys
import traceback
from fractions import Fraction

import numpy as np

from tools.common import q, unq, driver, close
from tools.props import panel_common as pc
from tools.props.C02 import GLUE_TAG, GLUE_DOFS, GLUE_ERRORS, _GlueRec, _fake_out, _qs, _same_q

LP = (142.5e9, 8.7e9, 0.28, 5.1e9, 5.1e9, 5.1e9)
MODELS = dict(plate='plate_clt_donnell_bardell', platew='plate_clt_donnell_bardell_w', cpanel='cpanel_clt_donnell_bardell',
              kpanel='kpanel_clt_donnell_bardell')
AERO10 = ('flow', 'beta', 'gamma', 'aeromu', 'Mach', 'rho_air', 'speed_sound', 'size', 'V', 'r')
MISSING = object()


# ----------------------------------------------------------------------------- cases
def gen_bay_case(rng, t):
    g = dict(seed=rng.randrange(10 ** 9), real=rng.random() < 0.4)
    g['a'], g['b'] = rng.uniform(0.5, 2.), rng.uniform(0.5, 2.)
    g['geom'] = rng.choice(['flat', 'flat', 'cyl', 'cyl', 'cyl', 'r0', 'cone'])
    g['r'] = {'flat': None, 'cyl': rng.uniform(1., 5.), 'r0': 0., 'cone': rng.uniform(2., 5.)}[g['geom']]
    g['alphadeg'] = rng.uniform(5., 20.) if g['geom'] == 'cone' else None
    g['m'], g['n'] = rng.choice([2, 3]), rng.choice([2, 3])
    g['bay_model'] = rng.choice(['unset', 'unset', 'own', 'own', 'own', 'other', 'invalid'])
    if g['geom'] == 'r0':
        g['bay_model'] = 'own'                         # r = 0.0 with no model selects the cylindrical model: keep that case too
        if rng.random() < 0.5:
            g['bay_model'] = 'unset'
    g['stiff'] = rng.choice(['none', 'none', 'blade2d', 't2d', 'blade1d', 'blade2d+t2d'])
    g['npanels'] = 1 if g['stiff'] == 'none' else 2
    if g['stiff'] == 'none' and rng.random() < 0.08:
        g['npanels'] = 0
    g['stiff_mismatch'] = g['stiff'] != 'none' and rng.random() < 0.1       # panel1.m != panel2.m: the stiffener's _rebuild asserts
    g['skin_m'] = rng.choice([None, None, None, 'smaller', 'larger'])      # the skin's own series order differs from the bay's
    g['skin_flags'] = rng.random() < 0.3                                    # the skin's own w flags differ from the bay's
    g['bad_panel'] = rng.choice([None] * 9 + ['stack', 'plyt'])             # a panel whose _rebuild raises
    g['bad_panel_idx'] = rng.randrange(2)
    g['flow'] = rng.choice(['x', 'x', 'X', 'y', 'Y', 'z'])
    if rng.random() < 0.5:
        g['aero'] = dict(beta=rng.uniform(0.5, 50.), gamma=rng.choice([None, 0., rng.uniform(0.1, 5.)]),
                         aeromu=rng.choice([None, rng.uniform(0.1, 2.)]), Mach=rng.choice([None, 2., 0.5]), rho_air=rng.choice([None, 0.7]),
                         V=rng.choice([None, 500.]), speed_sound=rng.choice([None, 320.]))
    else:
        g['aero'] = dict(beta=None, gamma=rng.choice([None, 3.]), aeromu=None, Mach=rng.choice([None, 0.5, 1, 1., 1.5, 2., 3.]),
                         rho_air=rng.uniform(0.2, 1.3), V=rng.uniform(300., 900.), speed_sound=rng.uniform(290., 340.))
        miss = rng.random()
        if miss < 0.06:
            g['aero'][rng.choice(['rho_air', 'V', 'speed_sound'])] = None
        elif miss < 0.1:
            g['aero']['speed_sound'] = 0.
    g['size_attr'] = rng.choice(['fresh', 'get_size', 'get_size', 'get_size', 'stale'])
    g['missing'] = rng.choice([None] * 14 + ['a', 'b'])
    g['prior'] = rng.random() < 0.25
    if g['real']:
        # the compiled kernels need entries inside the matrix; series beyond the four edge functions, so that the default edge flags of a bay
        # (w restrained, rotations free) leave several functions alive in each direction and the flow term does not vanish identically
        if g['skin_m'] == 'larger':
            g['skin_m'] = None
        g['m'], g['n'] = rng.choice([5, 6]), rng.choice([5, 6])
    return g


def directed_bay_cases():
    """every branch of the modelled functions and the shapes of the seeded regressions, on every run"""
    base = dict(real=False, a=1.3, b=0.9, geom='flat', r=None, alphadeg=None, m=3, n=2, bay_model='unset', stiff='none', npanels=1,
                stiff_mismatch=False, skin_m=None, skin_flags=False, bad_panel=None, bad_panel_idx=0, flow='x',
                aero=dict(beta=7.5, gamma=None, aeromu=None, Mach=None, rho_air=None, V=None, speed_sound=None), size_attr='get_size',
                missing=None, prior=False)
    mach = dict(beta=None, gamma=None, aeromu=None, Mach=2., rho_air=0.4, V=600., speed_sound=300.)
    cyl = dict(geom='cyl', r=2.5)
    out = []

    def add(**kw):
        g = copy.deepcopy(base)
        g.update(copy.deepcopy(kw))
        if g['real']:
            g['m'], g['n'] = 5, 5
        g['seed'] = 1000 + len(out)
        out.append(g)
    for real in (False, True):
        for geo in (dict(), cyl):
            for stiff in (('none', 'blade2d', 't2d') if not real else ('none', 't2d')):
                for aero in ((base['aero'], dict(base['aero'], gamma=0.8), mach) if not real else (dict(base['aero'], gamma=0.8), mach)):
                    for flow in ('x', 'y'):
                        add(real=real, stiff=stiff, npanels=1 if stiff == 'none' else 2, aero=aero, flow=flow, **geo)
    add(aero=dict(mach, Mach=1.), **cyl)                                  # Mach == 1 patched on the BAY, copied as 1.0001
    add(aero=dict(mach, Mach=1), real=True, **cyl)
    add(aero=dict(mach, Mach=0.5))                                        # the bay's own ValueError
    add(aero=dict(mach, Mach=None))                                       # TypeError of `None < 1` (not the panel's ValueError)
    add(aero=dict(mach, rho_air=None))
    add(aero=dict(mach, V=None), **cyl)
    add(aero=dict(mach, speed_sound=None))
    add(aero=dict(mach, speed_sound=0.))
    add(aero=dict(mach, Mach=1., speed_sound=0.))                         # Mach patched, then ZeroDivisionError
    add(aero=dict(mach, Mach=1., V=None))
    add(size_attr='fresh')                                                # AttributeError after seven attributes were copied
    add(size_attr='fresh', aero=mach, **cyl)
    add(size_attr='stale', stiff='blade2d', npanels=2)
    add(missing='a')
    add(missing='b')
    add(npanels=0)
    add(npanels=0, aero=dict(mach, Mach=0.5))
    add(npanels=0, bay_model='own')
    add(bay_model='other')                                                # AssertionError of the bay
    add(bay_model='invalid')
    add(bay_model='own', stiff='t2d', npanels=2)
    add(bad_panel='stack', bad_panel_idx=0, stiff='blade2d', npanels=2)
    add(bad_panel='plyt', bad_panel_idx=1, stiff='blade2d', npanels=2)
    add(stiff='blade2d', npanels=2, stiff_mismatch=True)                  # AssertionError of the stiffener
    add(stiff='blade1d', npanels=2)
    add(stiff='blade1d', npanels=2, aero=mach, real=True, **cyl)
    add(stiff='blade2d+t2d', npanels=2, aero=mach, **cyl)
    add(geom='cone', r=3., alphadeg=10.)                                  # NotImplementedError of the skin panel, after the copies
    add(geom='r0', r=0., bay_model='own', aero=mach)
    add(geom='r0', r=0., bay_model='unset', aero=dict(base['aero'], gamma=0.4))
    add(flow='z')
    add(flow='Y', aero=mach, **cyl)
    add(skin_m='smaller', stiff='t2d', npanels=2, aero=mach, **cyl)       # the kernels read the skin's OWN m, n
    add(skin_m='smaller', real=True, stiff='blade2d', npanels=2)
    add(skin_m='larger')
    add(skin_flags=True, real=True, aero=mach, **cyl)
    add(prior=True, aero=mach, **cyl)
    add(prior=True, stiff='blade2d', npanels=2)
    add(aero=dict(base['aero'], gamma=0.8, aeromu=0.3, Mach=0.5), **cyl)  # beta route: Mach is not looked at
    return out


# ----------------------------------------------------------------------------- building the objects
def model_tag(model):
    return 'unset' if model is None else GLUE_TAG.get(model, 'invalid')


def skin_model(g):
    return {'flat': 'plate', 'cyl': 'cpanel', 'r0': 'cpanel', 'cone': 'kpanel'}[g['geom']]


def build_bay(g):
    from compmech.stiffpanelbay import StiffPanelBay
    bay = StiffPanelBay()
    bay.a, bay.b, bay.r, bay.alphadeg = g['a'], g['b'], g['r'], g['alphadeg']
    bay.m, bay.n = g['m'], g['n']
    bay.stack, bay.plyt, bay.laminaprop, bay.mu = [0, 90, 0], 1e-3, LP, 1500.
    own = MODELS[skin_model(g)]
    bay.model = {'unset': None, 'own': own, 'other': MODELS['platew' if skin_model(g) != 'platew' else 'plate'], 'invalid': 'no_such_model'}[g['bay_model']]
    pmodel = own if g['bay_model'] in ('other', 'invalid') else None        # add_panel hands the bay's model to the panel
    ys = 0.45 * g['b']
    bounds = [(0., g['b'])] if g['npanels'] == 1 else [(0., ys), (ys, g['b'])]
    for i in range(g['npanels']):
        kw = {}
        if pmodel is not None:
            kw['model'] = pmodel
        p = bay.add_panel(y1=bounds[i][0], y2=bounds[i][1], plyt=bay.plyt, **kw)
        p.plyts = [bay.plyt] * 3               # the 2-D stiffeners sum panel.plyts when they are added
    sk = dict(ys=ys, bf=0.08 * g['b'], fstack=[0, 90], fplyt=1e-3, flaminaprop=LP)
    if g['npanels'] == 2:
        if 'blade2d' in g['stiff']:
            pc.quiet(bay.add_bladestiff2d, mf=2, nf=2, **sk)
        if 't2d' in g['stiff']:
            pc.quiet(bay.add_tstiff2d, bb=0.15 * g['b'], bstack=[0, 90], bplyt=1e-3, blaminaprop=LP, mb=2, nb=3, mf=3, nf=2, **sk)
        if g['stiff'] == 'blade1d':
            pc.quiet(bay.add_bladestiff1d, **sk)
    for p in bay.panels:
        p.plyts = []
    if g['npanels'] and g['skin_m'] is not None:
        bay.panels[0].m = g['m'] - 1 if g['skin_m'] == 'smaller' else g['m'] + 1
        if g['stiff_mismatch'] is False and g['npanels'] == 2:
            bay.panels[1].m = bay.panels[0].m                              # keep the stiffeners' assertions satisfied
    if g['npanels'] == 2 and g['stiff_mismatch']:
        bay.panels[1].m = bay.panels[0].m + 1
    if g['npanels'] and g['skin_flags']:
        p = bay.panels[0]
        p.w1tx, p.w2tx, p.w1rx, p.w1ty, p.w2ry = 1., 1., 0., 1., 0.
    if g['bad_panel'] and g['npanels']:
        p = bay.panels[min(g['bad_panel_idx'], g['npanels'] - 1)]
        if g['bad_panel'] == 'stack':
            p.stack = []
        else:
            p.plyt, p.plyts = None, []
    return bay


def set_flow_state(bay, g, alt=False):
    bay.flow = g['flow'] if not alt else ('y' if g['flow'].lower() == 'x' else 'x')
    for k, v in g['aero'].items():
        setattr(bay, k, v)
    if alt:
        if bay.beta is not None:
            bay.beta, bay.gamma = 2. * bay.beta, 0.25
        else:
            bay.Mach, bay.rho_air, bay.V, bay.speed_sound = 2.5, 0.9, 700., 310.


def alfrom_of(p):
    if 'alpharad' not in p.__dict__:
        return '-'
    for cand in (p.alphadeg if p.alphadeg is not None else 0., 0.):
        if float(np.deg2rad(cand)) == float(p.alpharad):
            return _qs(cand)
    return 'unknown'


def panel_line(p, qv):
    """the state of a Panel object in the vocabulary of the C02 glue driver"""
    st = p.__dict__
    fl = p.flow.lower() if isinstance(p.flow, str) and p.flow.lower() in ('x', 'y') else 'other'
    return ('model=%s a=%s b=%s r=%s alphadeg=%s alfrom=%s y1=%s y2=%s offset=%s mu=%s Nxx=%s Nyy=%s Nxy=%s NxxCte=%s NyyCte=%s NxyCte=%s flow=%s '
            'beta=%s gamma=%s aeromu=%s mach=%s rho=%s V=%s ainf=%s q=%s m=%d n=%d nx=%d ny=%d size=%s ortho=%d stack=%d lps=%d lp=%d plyts=%d plyt=%d lam=%d'
            % (model_tag(p.model), _qs(p.a), _qs(p.b), _qs(p.r), _qs(p.alphadeg), alfrom_of(p), _qs(p.y1), _qs(p.y2), _qs(p.offset), _qs(p.mu),
               _qs(p.Nxx), _qs(p.Nyy), _qs(p.Nxy), _qs(p.Nxx_cte), _qs(p.Nyy_cte), _qs(p.Nxy_cte), fl, _qs(p.beta), _qs(p.gamma), _qs(p.aeromu),
               _qs(p.Mach), _qs(p.rho_air or 0.), _qs(p.V or 0.), _qs(p.speed_sound or 0.), _qs(qv), p.m, p.n, p.nx, p.ny,
               '-' if 'size' not in st else str(st['size']), bool(getattr(p, 'force_orthotropic_laminate', False)), len(p.stack or []),
               bool(p.laminaprops), bool(p.laminaprop), bool(p.plyts), p.plyt is not None, p.lam is not None))


def panel_post(p):
    st = p.__dict__
    fl = p.flow.lower() if isinstance(p.flow, str) and p.flow.lower() in ('x', 'y') else 'other'
    return dict(model=model_tag(p.model), r=st.get('r'), al=alfrom_of(p), size=st.get('size'), mach=p.Mach, lam=p.lam is not None,
                lps=bool(p.laminaprops), plyts=bool(p.plyts), flow=fl, beta=p.beta, gamma=p.gamma, aeromu=p.aeromu)


def q_of(mach):
    qv = 1.
    if mach is not None and mach >= 1:
        me = 1.0001 if mach == 1 else mach
        qv = (me ** 2 - 1) ** 0.5
    return qv


def stiffener_parameters(bay):
    """the two parameters of the model that describe the stiffeners: what their `_rebuild` raises once the panels are rebuilt, and the sizes
    `get_size()` adds — measured on a deep copy, in the order the bay visits them"""
    b2 = copy.deepcopy(bay)
    for p in b2.panels:
        try:
            p._rebuild()
        except Exception:                                   # noqa
            return '-', []
    exc = '-'
    for s in list(b2.bladestiff1ds) + list(b2.bladestiff2ds) + list(b2.tstiff2ds):
        try:
            pc.quiet(s._rebuild)
        except AssertionError:
            exc = 'assertion'
            break
        except RuntimeError:
            exc = 'runtime'
            break
    parts = []
    try:
        for s in b2.bladestiff2ds:
            if s.flange is not None:
                parts.append(s.flange.get_size())
        for s in b2.tstiff2ds:
            parts += [s.base.get_size(), s.flange.get_size()]
    except Exception:                                       # noqa
        pass
    return exc, parts


class _Patches(object):
    """recorders in place of the kernel modules of every model; optional wrapper around Panel._rebuild"""
    def __init__(self, log, render, real, frng, only=None):
        from compmech.panel import modelDB
        self.db, self.saved = modelDB.db, {}
        self.args = (log, render, real, frng)
        self.only = only

    def __enter__(self):
        log, render, real, frng = self.args
        for mname, ent in self.db.items():
            self.saved[mname] = ent['matrices']
            ent['matrices'] = _AeroRec(ent['matrices'], 'mat', log, render, real, frng, self.only)
        return self

    def __exit__(self, *a):
        for mname, v in self.saved.items():
            self.db[mname]['matrices'] = v


class _AeroRec(_GlueRec):
    """records the aerodynamic kernels only (`only`), passes every other kernel through"""
    def __init__(self, mod, tag, log, render, real, frng, only):
        _GlueRec.__init__(self, mod, tag, log, render, real, frng)
        self.__dict__['_only'] = only

    def __getattr__(self, nm):
        if self._only is not None and nm not in self._only:
            return getattr(self._mod, nm)
        return _GlueRec.__getattr__(self, nm)


def make_render(is_panel):
    def render(mtag, nm, a, k):
        e = dict(mod=mtag, name=nm, size=1, strs=[], r=MISSING, panel=None)
        for i_, x in enumerate(a):
            if is_panel(x):
                e['strs'].append('P')
                e['panel'] = x
                e['r'] = x.__dict__.get('r', MISSING)
                if i_ + 1 < len(a) and isinstance(a[i_ + 1], (int, np.integer)):
                    e['size'] = int(a[i_ + 1])
            elif isinstance(x, (bool, np.bool_)):
                e['strs'].append('bool?')
            elif isinstance(x, (int, np.integer)):
                e['strs'].append(str(int(x)))
            elif isinstance(x, (float, np.floating)):
                e['strs'].append(_qs(x))
            else:
                e['strs'].append('obj?%s' % type(x).__name__)
        for k_, v_ in sorted(k.items()):
            e['strs'].append('%s=%r' % (k_, v_))
        return e
    return render


def results_and_probes(log, real, seed, limit=240):
    res, support = [], set()
    for e in log:
        o = e['out'].tocoo() if not real else e['out'].tocsr().tocoo()
        res.append(' '.join('%d %d %s' % (r_, c_, q(v_)) for r_, c_, v_ in zip(o.row, o.col, o.data)))
        for r_, c_ in zip(o.row, o.col):
            support.add((int(r_), int(c_)))
            support.add((int(c_), int(r_)))
    probes = sorted(support)
    if len(probes) > limit:
        probes = sorted(_random.Random(seed).sample(probes, limit))
    return res, support, probes


def origin_of(exc):
    """(file, function) of the innermost frame inside compmech"""
    fr = [f for f in traceback.extract_tb(exc.__traceback__) if 'compmech' in f.filename]
    if not fr:
        return ('?', '?')
    return (fr[-1].filename.replace('\\', '/').split('/')[-1], fr[-1].name)


def bay_run(g, tracer=None):
    import contextlib
    from compmech.panel import _panel
    Panel = _panel.Panel
    bay = build_bay(g)
    frng = _random.Random(g['seed'])

    class PanelRec(Panel):
        def __setattr__(self, k, v):
            wl = self.__dict__.get('_wlog')
            if wl is not None:
                wl.append((k, v))
            object.__setattr__(self, k, v)

    if g['size_attr'] != 'fresh' or g['prior']:
        # a bay that has been used before: `get_size()` needs the model, which `_rebuild` settles
        try:
            pc.quiet(bay._rebuild)
            pc.quiet(bay.get_size)
        except Exception:                                   # noqa
            pass
    if g['prior']:
        set_flow_state(bay, g, alt=True)
        with _Patches([], make_render(lambda x: isinstance(x, Panel)), False, frng, only=('fkAx', 'fkAy')):
            try:
                pc.quiet(bay.calc_kA, silent=True)
            except Exception:                               # noqa
                pass
    if g['size_attr'] == 'fresh' and not g['prior']:
        bay.__dict__.pop('size', None)
    elif g['size_attr'] == 'stale':
        bay.size = bay.__dict__.get('size', 10) + 5
    set_flow_state(bay, g)
    if g['missing']:
        setattr(bay, g['missing'], None)
    stiff_exc, parts = stiffener_parameters(bay)
    qv = q_of(bay.Mach)
    kA_before = bay.kA
    # ---- the line for the model: the state right before the call
    fl = bay.flow.lower() if bay.flow.lower() in ('x', 'y') else 'other'
    bline = ('a=%s b=%s r=%s m=%d n=%d model=%s flow=%s beta=%s gamma=%s aeromu=%s mach=%s rho=%s V=%s ainf=%s size=%s stiff=%s parts=%s q=%s'
             % (_qs(bay.a), _qs(bay.b), _qs(bay.r), bay.m, bay.n, model_tag(bay.model), fl, _qs(bay.beta), _qs(bay.gamma), _qs(bay.aeromu),
                _qs(bay.Mach), _qs(bay.rho_air), _qs(bay.V), _qs(bay.speed_sound), '-' if 'size' not in bay.__dict__ else str(bay.size), stiff_exc,
                ','.join(map(str, parts)) if parts else '-', _qs(qv)))
    plines = [panel_line(p, qv) for p in bay.panels]
    wlog = []
    if bay.panels:
        bay.panels[0].__class__ = PanelRec
        bay.panels[0].__dict__['_wlog'] = wlog
    log, rebuilt = [], []
    orig_rebuild = Panel._rebuild

    def rec_rebuild(self):
        rebuilt.append(self)
        return orig_rebuild(self)
    Panel._rebuild = rec_rebuild
    try:
        with _Patches(log, make_render(lambda x: isinstance(x, Panel)), g['real'], frng, only=('fkAx', 'fkAy')):
            try:
                with (tracer if tracer is not None else contextlib.nullcontext()):
                    ret = pc.quiet(bay.calc_kA, silent=True)
                outcome = ('ok', ret)
            except Exception as e:                           # noqa
                outcome = ('err', type(e).__name__, str(e), origin_of(e))
    finally:
        Panel._rebuild = orig_rebuild
        if bay.panels:
            bay.panels[0].__dict__.pop('_wlog', None)
    n_rebuilt = len([x for x in rebuilt if any(x is p for p in bay.panels)])
    return dict(bay=bay, bline=bline, plines=plines, log=log, wlog=wlog, outcome=outcome, n_rebuilt=n_rebuilt, kA_before=kA_before, qv=qv)


def bay_line(g, run):
    res, support, probes = results_and_probes(run['log'], g['real'], g['seed'])
    run['support'], run['probes'] = support, probes
    return 'C19 bay | %s | %s | %s | %s' % (run['bline'], ' ; '.join(run['plines']), ' ; '.join(res), ' '.join('%d %d' % pq for pq in probes))


BAY_ERRORS = [('ValueError', 'length a must', 'aMissing'), ('ValueError', 'width b must', 'bMissing'),
              ('TypeError', "'<' not supported", 'machNoneCompare'), ('TypeError', 'unsupported operand', 'noneArith'),
              ('ZeroDivisionError', '', 'zeroDivision'), ('IndexError', '', 'noPanels'), ('AttributeError', "'size'", 'bayNoSizeAttr'),
              ('ValueError', 'must be >= 1', 'bayMachBelowOne'), ('KeyError', '', 'bayNoModel')]


def classify(outcome, n_rebuilt):
    """the tag of the model's vocabulary for an exception of the running code, from its class, message and ORIGIN"""
    _, ty, msg, (fname, func) = outcome
    if fname == '_panel.py':
        tag = 'unmapped'
        for t_, frag, tg in GLUE_ERRORS:
            if ty == t_ and frag in msg:
                tag = tg
                break
        if func == '_rebuild':
            return 'panelRebuild:%d:%s' % (n_rebuilt - 1, tag)
        return 'skin:' + tag
    if fname == 'stiffpanelbay.py':
        if ty == 'AssertionError':
            return 'modelMismatch:%d' % (n_rebuilt - 1)
        for t_, frag, tg in BAY_ERRORS:
            if ty == t_ and frag in msg:
                return tg
        return 'unmapped'
    if fname in ('bladestiff1d.py', 'bladestiff2d.py', 'tstiff2d.py'):
        return 'stiffRebuild:' + {'AssertionError': 'assertion', 'RuntimeError': 'runtime'}.get(ty, 'unmapped')
    return 'unmapped:%s:%s' % (fname, func)


def _post_panel_bad(i, s, po, exact):
    kv = dict(w.split('=') for w in s.split())
    for k_, shown in (('model', po['model']), ('r', _qs(po['r'])), ('al', po['al']), ('size', '-' if po['size'] is None else str(po['size'])),
                      ('lam', str(int(po['lam']))), ('lps', str(int(po['lps']))), ('plyts', str(int(po['plyts']))), ('flow', po['flow']),
                      ('beta', _qs(po['beta'])), ('gamma', _qs(po['gamma'])), ('aeromu', _qs(po['aeromu']))):
        if kv[k_] != shown:
            return 'panels[%d].%s afterwards: model %s, implementation %s' % (i, k_, kv[k_], shown)
    if not _same_q(kv['mach'], _qs(po['mach']), False):
        return 'panels[%d].Mach afterwards: model %s, implementation %r' % (i, kv['mach'], po['mach'])
    return None


def _writes_bad(model_writes, wlog):
    """the bay's attribute writes on panels[0], in order"""
    mine = [w.split('=') for w in model_writes.split()]
    seen = [(k, v) for k, v in wlog if k in AERO10 or k == 'kA']
    head = seen[:len(mine)]
    if [k for k, _ in head] != [k for k, _ in mine]:
        return 'attributes written on panels[0], in order: model %s; implementation %s' % ([k for k, _ in mine], [k for k, _ in seen])
    for (k, v), (_, mv) in zip(head, mine):
        if k == 'flow':
            shown = v.lower() if isinstance(v, str) and v.lower() in ('x', 'y') else 'other'
        elif k == 'size':
            shown = str(v)
        else:
            shown = _qs(v)
        if not _same_q(mv, shown, k != 'Mach'):
            return 'panels[0].%s written by the bay: model %s, implementation %r' % (k, mv, v)
    for k, _ in seen[len(mine):]:
        if k not in ('r', 'Mach', 'kA') or len(mine) < 10:
            return 'attributes written on panels[0]: the model has the bay write %s and then Panel.calc_kA; the implementation also writes %s' % (
                [k_ for k_, _ in mine], k)
    return None


def bay_compare(g, run, rep):
    """None or a text describing the first difference between the model reply and what the running code did"""
    parts = [x.strip() for x in rep.split('|')]
    bay = run['bay']
    exact = g['aero']['beta'] is not None

    def tail_bad(bpost, writes, pposts):
        kv = dict(w.split('=') for w in bpost.split())
        if kv['model'] != model_tag(bay.model):
            return 'bay.model afterwards: model %s, implementation %r' % (kv['model'], bay.model)
        if not _same_q(kv['mach'], _qs(bay.Mach), False):
            return 'bay.Mach afterwards: model %s, implementation %r' % (kv['mach'], bay.Mach)
        isz = bay.__dict__.get('size')
        if kv['size'] != ('-' if isz is None else str(isz)):
            return 'bay.size afterwards: model %s, implementation %r' % (kv['size'], isz)
        bad = _writes_bad(writes, run['wlog'])
        if bad:
            return bad
        pp = [x.strip() for x in pposts.split(';')] if pposts.strip() else []
        if len(pp) != len(bay.panels):
            return 'number of panels: model %d, implementation %d' % (len(pp), len(bay.panels))
        for i, (s, p) in enumerate(zip(pp, bay.panels)):
            bad = _post_panel_bad(i, s, panel_post(p), exact)
            if bad:
                return bad
        return None

    if parts[0].startswith('err '):
        _, etype, etag = parts[0].split()
        if run['outcome'][0] != 'err':
            return 'model: raises %s (%s); implementation: returns (kernel calls %s)' % (etype, etag, [e['name'] for e in run['log']])
        itag = classify(run['outcome'], run['n_rebuilt'])
        if run['outcome'][1] != etype or itag != etag:
            return 'model: raises %s (%s); implementation: raises %s (%s, from %s:%s): %s' % (
                etype, etag, run['outcome'][1], itag, run['outcome'][3][0], run['outcome'][3][1], run['outcome'][2][:120])
        if bay.kA is not run['kA_before']:
            return 'bay.kA was replaced although the call raised'
        return tail_bad(parts[1], parts[2], parts[3] if len(parts) > 3 else '')
    if parts[0] != 'ok':
        return 'driver: ' + rep[:200]
    if run['outcome'][0] != 'ok':
        return 'model: kernel calls %s; implementation: raises %s (%s): %s' % (parts[1], run['outcome'][1], classify(run['outcome'], run['n_rebuilt']),
                                                                               run['outcome'][2][:160])
    mcalls = [c for c in parts[1].split(' & ') if c]
    shown = ['%s.%s(%s)' % (e['mod'], e['name'], ','.join(e['strs'])) for e in run['log']]
    if len(mcalls) != len(run['log']):
        return 'kernel calls: model %s; implementation %s' % (mcalls, shown)
    for k_, (mc, e) in enumerate(zip(mcalls, run['log'])):
        head, tail = mc.split('@')
        name, margs = head[:-1].split('(')
        margs = margs.split(',') if margs else []
        if name != '%s.%s' % (e['mod'], e['name']) or len(margs) != len(e['strs']) or not all(_same_q(x, y, exact) for x, y in zip(e['strs'], margs)):
            return 'kernel call %d: model %s; implementation %s' % (k_, head, shown[k_])
        if e['panel'] is not bay.panels[0]:
            return 'kernel call %d: the panel object handed to the kernel is not panels[0]' % k_
        mr = tail.split(';')[0].split('=')[1]
        ir_ = e['r']
        if (mr == '-') != (ir_ is MISSING or ir_ is None) or (mr != '-' and mr != _qs(ir_)):
            return 'kernel call %d (%s): panel.r seen by the kernel: model %s, implementation %r' % (k_, name, mr, None if ir_ is MISSING else ir_)
    comb = parts[2].split('=', 1)[1]
    ret = run['outcome'][1]
    if ret is None or bay.kA is not ret or bay.panels[0].kA is not ret:
        return 'the matrix is not the one object stored in panels[0].kA, in bay.kA and returned'
    bad = tail_bad(parts[3], parts[4], parts[5])
    if bad:
        return bad
    dense = ret.toarray()
    if np.iscomplexobj(dense):
        return 'model: real matrix; implementation complex'
    size = bay.__dict__.get('size')
    if dense.shape != (size, size):
        return 'shape of the returned matrix %r, bay size %r' % (dense.shape, size)
    vals = parts[6].split() if len(parts) > 6 else []
    scale = max(float(np.abs(dense).max()), 1e-300)
    for (r_, c_), v in zip(run['probes'], vals):
        same = (Fraction(*float(dense[r_, c_]).as_integer_ratio()) == unq(v)) if not g['real'] else close(float(dense[r_, c_]), unq(v), scale)
        if not same:
            return 'combination %s of the kernel results: entry [%d,%d] model %.12g, implementation %.12g' % (comb, r_, c_, float(unq(v)), dense[r_, c_])
    for r_, c_ in zip(*np.nonzero(dense)):
        if (int(r_), int(c_)) not in run['support']:
            return 'combination %s: implementation has an entry at [%d,%d] outside the kernel results and their mirror images' % (comb, r_, c_)
    return None


def bay_property_bad(g):
    """the property-level predicate on a bay case: `StiffPanelBay.calc_kA()` is the aerodynamic matrix of the stand-alone skin panel with THE BAY'S
    data (geometry, series, flags, flow state), embedded in the bay's amplitude space (zero on every stiffener amplitude) — single panels are tied
    to the piston-theory forms by `run_case`.  None when the case is not an admissible input of the property (errors, a skin with its own series)"""
    from compmech.panel import Panel
    if g['npanels'] == 0 or g['skin_m'] is not None or g['skin_flags'] or g['geom'] == 'cone' or g['flow'].lower() not in ('x', 'y'):
        return None
    if g['bad_panel'] or g['stiff_mismatch'] or g['missing'] or g['bay_model'] in ('other', 'invalid'):
        return None
    g = dict(g, m=max(g['m'], 5), n=max(g['n'], 6))            # series beyond the edge functions: the flow term must not vanish identically
    bay = build_bay(g)
    set_flow_state(bay, g)
    try:
        pc.quiet(bay._rebuild)
        size = pc.quiet(bay.get_size)
        ref = Panel(a=bay.a, b=bay.b, r=bay.r, m=bay.m, n=bay.n, stack=list(bay.stack), plyt=bay.plyt, laminaprop=LP, mu=bay.mu)
        ref.model = bay.model
        for fl in [f + e + d for f in 'uvw' for e in ('1t', '1r', '2t', '2r') for d in 'xy']:
            setattr(ref, fl, getattr(bay, fl))
        for k in ('beta', 'gamma', 'aeromu', 'Mach', 'rho_air', 'speed_sound', 'V', 'flow'):
            setattr(ref, k, getattr(bay, k))
        want = pc.quiet(ref.calc_kA, size=size, row0=0, col0=0, silent=True).toarray()
    except Exception:                                       # noqa
        return None
    try:
        got = pc.quiet(bay.calc_kA, silent=True).toarray()
    except Exception as e:                                  # noqa
        return 'StiffPanelBay.calc_kA raised %s: %s on a bay whose skin panel alone has an aerodynamic matrix' % (type(e).__name__, str(e)[:120])
    if got.shape != (size, size):
        return 'StiffPanelBay.calc_kA returned shape %r for a bay of %d amplitudes (stiffener: %s)' % (got.shape, size, g['stiff'])
    d = pc.rel_diff(got, want)
    if d > 1e-12:
        sym = np.abs(got + got.T).max() / max(np.abs(got).max(), 1e-300)
        return ('StiffPanelBay.calc_kA (flow=%r) differs from the aerodynamic matrix of its skin panel taken alone (same data, bay size): rel %.3e; symmetric '
                'part of the bay matrix %.3e of its scale, of the panel matrix %.3e'
                % (g['flow'], d, sym, np.abs(want + want.T).max() / max(np.abs(want).max(), 1e-300)))
    return None


def bay_glue_correspondence(ctx, rng, cases=None):
    """H: `StiffPanelBay.calc_kA` against Model/BayAero.lean; returns True when a disagreement was reported"""
    from compmech.stiffpanelbay import StiffPanelBay
    from tools.props.C05 import LineTracer
    full_run = cases is None
    if cases is None:
        cases = directed_bay_cases() + [gen_bay_case(rng, t) for t in range(ctx.scale(40, 1500))]
    modelled = [StiffPanelBay.calc_kA, StiffPanelBay._rebuild, StiffPanelBay.get_size]
    tracer = LineTracer(modelled)
    runs, lines = [], []
    for g in cases:
        run = bay_run(g, tracer=tracer)
        runs.append(run)
        lines.append(bay_line(g, run))
    replies = driver(lines, pid='C19')
    if len(replies) != len(lines):
        raise RuntimeError('C19 driver returned %d replies for %d lines' % (len(replies), len(lines)))
    dist = dict(cases=len(cases), mode=dict(real=0, fake=0), geometry={}, stiffener={}, route=dict(beta=0, mach=0), flow={}, outcomes={}, kernel_calls={},
                n_calls={}, size_attr={}, skin_own_m=0, prior_call=0)
    inc = lambda d, k: d.__setitem__(str(k), d.get(str(k), 0) + 1)
    nbad = with_input = 0
    kinds = set()
    for g, run, rep in zip(cases, runs, replies):
        ctx.evaluations += 1
        dist['mode']['real' if g['real'] else 'fake'] += 1
        inc(dist['geometry'], g['geom'])
        inc(dist['stiffener'], g['stiff'])
        dist['route']['beta' if g['aero']['beta'] is not None else 'mach'] += 1
        inc(dist['flow'], g['flow'])
        inc(dist['size_attr'], g['size_attr'])
        dist['skin_own_m'] += g['skin_m'] is not None
        dist['prior_call'] += bool(g['prior'])
        inc(dist['outcomes'], 'ok' if rep.startswith('ok') else ' '.join(rep.split('|')[0].split()[1:3]))
        inc(dist['n_calls'], len(run['log']))
        for e in run['log']:
            inc(dist['kernel_calls'], e['name'])
        if rep.startswith('ok') and g['stiff'] != 'none':
            ctx.nontrivial.add(('bay glue', g['seed'], g['stiff'], g['geom']))
        if len(ctx.samples) < 4 and rep.startswith('ok') and len(run['log']) == 2:
            ctx.sample(dict(bay_glue=dict(geom=g['geom'], stiffener=g['stiff'], aero=g['aero'], flow=g['flow']), model_reply=rep.split('| model=')[0][:300]))
        bad = bay_compare(g, run, rep)
        if bad:
            # one report per kind of disagreement, and the first one that is a failure of C19 itself on its input (the bay's matrix against the
            # stand-alone skin panel with the bay's data)
            kind = bad.split(':')[0][:60]
            if kind in kinds and with_input:
                continue
            p_bad = bay_property_bad(g)
            if kind in kinds and not p_bad:
                continue
            kinds.add(kind)
            nbad += 1
            if p_bad:
                with_input += 1
                ctx.violation('C19 fails on the implementation: %s  [found through the bay glue correspondence: %s]' % (p_bad, bad),
                              dict(bay_glue=g, derived='bay glue'))
            else:
                ctx.violation('model Model/BayAero.lean and StiffPanelBay.calc_kA disagree: %s' % bad, dict(bay_glue=g, tie='H bay aerodynamic glue'),
                              found_input=False)
            if nbad >= 5:
                break
    cov = {}
    for f in modelled:
        al = tracer.all_lines(f)
        miss = sorted(al - tracer.hit[f.__name__])
        cov[f.__qualname__] = dict(lines=len(al), executed=len(al) - len(miss), missed=miss)
        if miss and full_run and not nbad:
            ctx.violation('bay glue correspondence: lines %s of %s in compmech/stiffpanelbay/stiffpanelbay.py are never executed by the corpus, so the '
                          'hand model Model/BayAero.lean is not compared with them' % (miss, f.__qualname__),
                          dict(tie='H bay glue coverage', function=f.__qualname__, lines=miss), found_input=False)
            nbad += 1
    dist['line_coverage_of_modelled_functions'] = cov
    ctx.cov['bay_glue_correspondence'] = dist
    return nbad > 0


# ----------------------------------------------------------------------------- the flutter helper
def flutter_run(rng, flow, r, mach=None):
    """runs `tstiff2d_1stiff_flutter` with the aerodynamic kernels recorded, the state of every skin panel captured when its `calc_kA` is
    entered, and input / output of the final `make_skew_symmetric` captured"""
    from compmech.panel import _panel
    from compmech.panel.assembly import tstiff2d_1stiff_flutter
    Panel = _panel.Panel
    mod = sys.modules['compmech.panel.assembly.tstiff2d_1stiff_flutter']
    mach = mach if mach is not None else rng.choice([1.5, 2., 3.])
    kw = dict(a=rng.uniform(1.5, 3.), b=1., ys=rng.uniform(0.4, 0.6), bb=0.2, bf=0.1, defect_a=rng.choice([0.1, 0.25]), mu=1.3e3, plyt=0.125e-3,
              laminaprop=LP, stack_skin=[0, 45, -45, 90, -45, 45, 0], stack_base=[0, 90, 0] * 2, stack_flange=[0, 90, 0] * 3, m=3, n=3, mb=2, nb=3,
              mf=3, nf=2, air_speed=rng.uniform(500., 900.), rho_air=rng.uniform(0.3, 1.3), Mach=mach, speed_sound=343., flow=flow,
              run_static_case=False, r=r)
    qv = q_of(mach)
    log, entered, skew = [], [], []
    orig_calc, orig_skew = Panel.calc_kA, mod.make_skew_symmetric

    def rec_calc(self, *a, **k):
        entered.append(dict(panel=self, line=panel_line(self, qv), rs=self.row_start, cs=self.col_start, args=(a, dict(k))))
        return orig_calc(self, *a, **k)

    def rec_skew(m):
        out = orig_skew(m)
        skew.append((m.copy(), out.copy()))
        return out
    Panel.calc_kA = rec_calc
    mod.make_skew_symmetric = rec_skew
    try:
        with _Patches(log, make_render(lambda x: isinstance(x, Panel)), True, _random.Random(0), only=('fkAx', 'fkAy')):
            try:
                out = pc.quiet(tstiff2d_1stiff_flutter, **kw)
                outcome = ('ok', out)
            except Exception as e:                           # noqa
                outcome = ('err', type(e).__name__, str(e))
    finally:
        Panel.calc_kA = orig_calc
        mod.make_skew_symmetric = orig_skew
    return dict(kw=kw, qv=qv, log=log, entered=entered, skew=skew, outcome=outcome)


def flutter_compare(run, rep):
    parts = [x.strip() for x in rep.split('|')]
    if run['outcome'][0] != 'ok':
        return 'tstiff2d_1stiff_flutter raised %s: %s' % (run['outcome'][1], run['outcome'][2][:160])
    if parts[0] != 'ok':
        return 'model: %s; implementation returned' % parts[0]
    exact = False
    mcalls = [c for c in parts[1].split(' & ') if c]
    shown = ['%s.%s(%s)' % (e['mod'], e['name'], ','.join(e['strs'])) for e in run['log']]
    if len(mcalls) != len(run['log']):
        return 'kernel calls: model %s; implementation %s' % (mcalls, shown)
    for k_, (mc, e) in enumerate(zip(mcalls, run['log'])):
        head, tail = mc.split('@')
        name, margs = head[:-1].split('(')
        margs = margs.split(',') if margs else []
        if name != '%s.%s' % (e['mod'], e['name']) or len(margs) != len(e['strs']) or not all(_same_q(x, y, exact) for x, y in zip(e['strs'], margs)):
            return 'kernel call %d: model %s; implementation %s' % (k_, head, shown[k_])
        if e['panel'] is not run['entered'][k_]['panel']:
            return 'kernel call %d is not made on skin panel %d' % (k_, k_ + 1)
    if len(run['skew']) != 1:
        return 'make_skew_symmetric was called %d times by the helper' % len(run['skew'])
    dense = run['skew'][0][1].toarray()
    comb = parts[2].split('=', 1)[1]
    if not comb.startswith('skew('):
        return 'model combination %s' % comb
    vals = parts[4].split() if len(parts) > 4 else []
    scale = max(float(np.abs(dense).max()), 1e-300)
    for (r_, c_), v in zip(run['probes'], vals):
        if not close(float(dense[r_, c_]), unq(v), scale):
            return 'combination %s of the kernel results: entry [%d,%d] model %.12g, implementation %.12g' % (comb[:40], r_, c_, float(unq(v)), dense[r_, c_])
    for r_, c_ in zip(*np.nonzero(dense)):
        if (int(r_), int(c_)) not in run['support']:
            return 'the helper matrix has an entry at [%d,%d] outside the kernel results and their mirror images' % (r_, c_)
    pp = [x.strip() for x in parts[3].split(';')]
    for i, (s, ent) in enumerate(zip(pp, run['entered'])):
        bad = _post_panel_bad(i, s, panel_post(ent['panel']), exact)
        if bad:
            return 'skin ' + bad
    return None


def flutter_glue_correspondence(ctx, rng):
    """H: the aerodynamic part of `tstiff2d_1stiff_flutter` against `flutterKA` of Model/BayAero.lean; also re-establishes, as an OBSERVATION
    (the helper returns eigenvalues only), that for `r != None` the symmetric curvature term is made skew by the final completion"""
    todo = [('x', None), ('x', 2.5), ('y', 2.5)] if ctx.tier == 'quick' else [('x', None), ('y', None), ('x', 2.5), ('y', 2.5), ('x', 4.), ('x', None)]
    runs, lines = [], []
    for k, (flow, r) in enumerate(todo):
        run = flutter_run(rng, flow, r, mach=1. if (k == len(todo) - 1 and ctx.tier != 'quick') else None)
        if run['outcome'][0] != 'ok' or len(run['entered']) != 9:
            ctx.violation('flutter glue correspondence: tstiff2d_1stiff_flutter(flow=%r, r=%r) %s' % (
                flow, r, 'raised %s: %s' % run['outcome'][1:3] if run['outcome'][0] != 'ok' else 'entered Panel.calc_kA %d times' % len(run['entered'])),
                dict(flutter_glue=run['kw'], tie='H flutter aerodynamic glue'), found_input=False)
            return True
        size = run['outcome'][1][0].get_size()
        res, support, probes = results_and_probes(run['log'], True, k, limit=200)
        run['support'], run['probes'] = support, probes
        lines.append('C19 flutter | size=%d q=%s | %s | %s | %s' % (
            size, _qs(run['qv']), ' ; '.join('%s rs=%d cs=%d' % (e['line'], e['rs'], e['cs']) for e in run['entered']), ' ; '.join(res),
            ' '.join('%d %d' % pq for pq in probes)))
        for e in run['entered']:
            a, kk = e['args']
            if a or kk != dict(size=size, row0=e['rs'], col0=e['cs'], silent=True, finalize=False):
                ctx.violation('flutter glue correspondence: the helper calls Panel.calc_kA%r %r; the model has (size=%d, row0=row_start, col0=col_start, '
                              'silent=True, finalize=False)' % (a, kk, size), dict(flutter_glue=run['kw'], tie='H flutter aerodynamic glue'), found_input=False)
                return True
        runs.append(run)
    replies = driver(lines, pid='C19')
    obs = []
    for (flow, r), run, rep in zip(todo, runs, replies):
        ctx.evaluations += 1
        bad = flutter_compare(run, rep)
        if bad:
            ctx.violation('model Model/BayAero.lean (flutterKA) and tstiff2d_1stiff_flutter(flow=%r, r=%r) disagree: %s' % (flow, r, bad),
                          dict(flutter_glue=run['kw'], tie='H flutter aerodynamic glue'), found_input=False)
            return True
        ctx.nontrivial.add(('flutter glue', flow, r))
        if r is not None and flow == 'x':
            # observation: the curvature part of the helper's (unobservable) matrix is skew
            summed, done = run['skew'][0]
            gam = [float(unq(e['strs'][1])) for e in run['log']]
            beta = [float(unq(e['strs'][0])) for e in run['log']]
            from compmech.panel import modelDB
            sym_err = 0.
            tot = None
            for e, ent in zip(run['log'], run['entered']):
                p = ent['panel']
                kern = modelDB.db[p.model]['matrices'].fkAx
                cpart = kern(0., float(unq(e['strs'][1])), p, summed.shape[0], ent['rs'], ent['cs'])
                tot = cpart if tot is None else tot + cpart
            from compmech.sparse import finalize_symmetric_matrix, make_skew_symmetric
            want_sym = finalize_symmetric_matrix(tot.tocoo()).toarray()          # what a symmetric completion of the curvature part gives
            got_part = make_skew_symmetric(tot.tocoo()).toarray()                # what the helper's completion does to it
            lower = np.tril(np.ones_like(want_sym), -1) > 0
            sc = max(np.abs(want_sym).max(), 1e-300)
            obs.append(dict(flow=flow, r=r, gamma_min=min(gam), curvature_lower_equals_minus_symmetric_rel_dev=float(np.abs((got_part + want_sym)[lower]).max() / sc),
                            curvature_part_scale_rel_to_matrix=float(sc / max(np.abs(done.toarray()).max(), 1e-300))))
    ctx.cov['flutter_glue_correspondence'] = dict(runs=[dict(flow=f, r=r) for f, r in todo], kernel_calls_per_run=9,
                                                  observation_curvature_term_made_skew=obs)
    return False
