"""C10 — Bardell functions, integral tables, quadrature tables.

T  : tools/translate/ctables.py parses compmech/lib/src/*.c (of tools.common.REPO) on every run and
     regenerates lean/CompmechVerif/Gen/CTables/*.lean; the kernel re-checks (`decide +kernel`) every
     table whose text changed against the exact Bardell data of Bardell/Basis.lean.
V  : the C files are compiled with gcc into .scratch and called through ctypes; the results are compared
     (a) with an independent exact oracle (closed formula of theory/func/bardell/bardell.py, Fractions),
     (b) with the emitted Lean data evaluated exactly by the Lean driver (Drv/C10.lean) and with the exact
         value of the parsed expression,
     so a translator bug or a divergence between source text and executing code is seen.
     `leggauss_quad` is compared for every n with exact moments and with the binary64 rounding done in Lean;
     the in-tree compiled compmech.integrate trapz/simps point sets are checked against the property itself.
"""
import ctypes
import os
import re
import shutil
import subprocess
import time
from concurrent.futures import ThreadPoolExecutor
from fractions import Fraction as F
from functools import lru_cache
from math import comb, factorial

from tools import common
from tools.common import q, unq, driver
from tools.translate import ctables as ct

TRUSTED = [
    'tools/cyexec.py (Cython-subset source executor, validated by its --selftest and by bit-identical agreement with the binaries on the unchanged tree): the source reading of the hand-written .pyx/.pxi files',
    'Lean 4.33 kernel; axioms of every theorem within {propext, Classical.choice, Quot.sound} (audited each run)',
    'Mathlib v4.33 (ordered fields, finite sums) for the lifting lemmas only; the table checks use no Mathlib',
    'tools/translate/ctables.py (C subset parser + Lean emitter): validated on every run by V - compiled C vs '
    'exact value of the parsed expression vs Lean evaluation of the emitted data - but not proved',
    'gcc -O0 and ctypes as the way the C sources are executed (the in-tree Cython extensions cannot be rebuilt)',
    'IEEE rounding is not modelled: decimal literals are read as exact rationals (Gauss table: additionally '
    'rounded to binary64 inside Lean); floating-point evaluation error of the monomial-basis polynomials is '
    'outside every theorem and absorbed by the comparison tolerance 1e-11 * sum |coef| |monomial|',
    'hand-written Lean model of integrate.pyx (trapz_quad / trapz2d_points / simps2d_points) tied to the '
    'compiled extension only by this check',
]
ASSUMPTIONS = [
    'indices 0 <= i, j < 30 (the `default:` branches return 0 and are outside the property)',
    'Bardell functions are those of the closed formula in theory/func/bardell/bardell.py',
    'mapped-argument tables: the *second* function (index j) takes the argument c0 + c1*xi (settled by the '
    'check itself: the other reading fails for 78+ of 82 sampled entries)',
]
RULE = ('Lean: complete (all 30 indices / 900 pairs of every family, all monomials, Gauss orders 2..64). '
        'V: random (i, j, flags, xi1<=xi2 in [-1,1], c0, c1) with dyadic coordinates k/64 from one PRNG (VERIF_SEED), '
        'quick 2000 calls per family, thorough all 900 pairs x 4 points; non-trivial = call whose exact value is '
        'non-zero with at least one flag different from 0 and 1; distinct by (family, i, j, point)')

GEN = os.path.join(common.LEAN, 'CompmechVerif', 'Gen', 'CTables')
FULLF = ct.FULL
SUBF = ct.FULL
MAPF = ['ff', 'ffxi', 'fxif', 'fxifxi', 'fxixifxixi']
FUNCS = [('calc_f', 0), ('calc_fxi', 1), ('calc_fxixi', 2)]
VTOL = F(1, 10 ** 11)


# ============================================================================= translator (T)
_TABLES = {}


def translate(ctx):
    t0 = time.time()
    T, mods = ct.emit_all(common.REPO, GEN, common.write_if_changed)
    _TABLES['T'] = T
    # modules that no longer belong to the generated set must not linger
    keep = set(m + '.lean' for m in mods)
    for fn in os.listdir(GEN):
        if fn.endswith('.lean') and fn not in keep:
            os.remove(os.path.join(GEN, fn))
    ctx.log('translated %d C tables into %d Lean modules (%.1f s)' % (17 + 6 + 1, len(mods), time.time() - t0))
    ctx.cov['generated_modules'] = len(mods)


def tables():
    if 'T' not in _TABLES:
        _TABLES['T'] = ct.read_tables(common.REPO)
    return _TABLES['T']


# ============================================================================= exact oracle (independent of the tables)
def _oddfact2(n):
    r = 1
    while n > 1:
        r *= n
        n -= 2
    return r


@lru_cache(None)
def basis(i):
    """ascending Fraction coefficients of the i-th Bardell function (unit flag)"""
    if i == 0:
        return (F(1, 2), F(-3, 4), F(0), F(1, 4))
    if i == 1:
        return (F(1, 8), F(-1, 8), F(-1, 8), F(1, 8))
    if i == 2:
        return (F(1, 2), F(3, 4), F(0), F(-1, 4))
    if i == 3:
        return (F(-1, 8), F(-1, 8), F(1, 8), F(1, 8))
    r = i + 1
    c = [F(0)] * r
    for n in range(0, r // 2 + 1):
        e = r - 2 * n - 1
        if e < 0:
            continue
        c[e] += F((-1) ** n * _oddfact2(2 * r - 2 * n - 7), 2 ** n * factorial(n) * factorial(e))
    return tuple(c)


@lru_cache(None)
def dbasis(i, d):
    p = list(basis(i))
    for _ in range(d):
        p = [k * c for k, c in enumerate(p)][1:]
    return tuple(p)


@lru_cache(None)
def dbasis_int(i, d):
    """(integer numerators, common denominator)"""
    p = dbasis(i, d)
    den = 1
    for c in p:
        den = den * c.denominator // _gcd(den, c.denominator)
    return tuple(int(c * den) for c in p), den


def _gcd(a, b):
    while b:
        a, b = b, a % b
    return a


@lru_cache(None)
def prod_poly(d1, d2, i, j):
    """(numerators of D^d1 u_i * D^d2 u_j, denominator)"""
    (p, dp), (r, dr) = dbasis_int(i, d1), dbasis_int(j, d2)
    out = [0] * (len(p) + len(r) - 1) if p and r else []
    for a, x in enumerate(p):
        if x:
            for b, y in enumerate(r):
                out[a + b] += x * y
    return out, dp * dr


def ev(p, x):
    r = F(0)
    for c in reversed(p):
        r = r * x + c
    return r


def absev(p, x):
    r = F(0)
    ax = abs(x)
    for c in reversed(p):
        r = r * ax + abs(c)
    return r


@lru_cache(None)
def anti(d1, d2, i, j):
    """Fraction coefficients of the antiderivative (A(0) = 0) of D^d1 u_i * D^d2 u_j"""
    num, den = prod_poly(d1, d2, i, j)
    return [F(0)] + [F(c, den * (k + 1)) for k, c in enumerate(num)]


def flag_of(i, fl4):
    return fl4[i] if i < 4 else F(1)


def exact_func(d, i, xi, fl4):
    """(value, abs-scale) of flag_i * D^d u_i(xi)"""
    p = dbasis(i, d)
    f = flag_of(i, fl4)
    return f * ev(p, xi), abs(f) * absev(p, xi)


def exact_full(d1, d2, i, j, fl8):
    A = anti(d1, d2, i, j)
    f = flag_of(i, fl8[:4]) * flag_of(j, fl8[4:])
    v = f * (ev(A, F(1)) - ev(A, F(-1)))
    # the table entry is a literal times flags (no polynomial evaluation in C): the scale is the value itself,
    # and an exact zero must be returned as exactly 0
    return v, abs(v)


def exact_sub(d1, d2, i, j, x1, x2, fl8):
    A = anti(d1, d2, i, j)
    f = flag_of(i, fl8[:4]) * flag_of(j, fl8[4:])
    return f * (ev(A, x2) - ev(A, x1)), abs(f) * (absev(A, x1) + absev(A, x2))


@lru_cache(None)
def map_coefs(d1, d2, i, j):
    """{(a, t): coefficient of c0^a c1^t} of int_{-1}^{1} D^d1 u_i(xi) * D^d2 u_j(c0 + c1 xi) dxi"""
    P, Q = dbasis(i, d1), dbasis(j, d2)
    mu = {}
    res = {}
    for m, qm in enumerate(Q):
        if not qm:
            continue
        for t in range(m + 1):
            if t not in mu:
                mu[t] = sum((pa * F(2, a + t + 1) for a, pa in enumerate(P) if (a + t) % 2 == 0), F(0))
            v = qm * comb(m, t) * mu[t]
            if v:
                res[(m - t, t)] = res.get((m - t, t), 0) + v
    return {k: v for k, v in res.items() if v}


def exact_map(d1, d2, i, j, c0, c1, fl8):
    co = map_coefs(d1, d2, i, j)
    f = flag_of(i, fl8[:4]) * flag_of(j, fl8[4:])
    v = sum((c * c0 ** a * c1 ** t for (a, t), c in co.items()), F(0))
    s = sum((abs(c) * abs(c0) ** a * abs(c1) ** t for (a, t), c in co.items()), F(0))
    return f * v, abs(f) * s


# ============================================================================= the executing code: gcc + ctypes
class CLib(object):
    def __init__(self, ctx):
        src = ct.lib(common.REPO)
        self.dir = os.path.join(common.SCRATCH, 'c10_build_%d' % os.getpid())
        shutil.rmtree(self.dir, ignore_errors=True)
        os.makedirs(self.dir)
        files = sorted(f for f in os.listdir(src) if f.endswith('.c'))
        t0 = time.time()

        def cc(f):
            o = os.path.join(self.dir, f[:-2] + '.o')
            p = subprocess.run(['gcc', '-O0', '-fPIC', '-c', os.path.join(src, f), '-o', o],
                               stdout=subprocess.PIPE, stderr=subprocess.STDOUT, text=True)
            if p.returncode != 0:
                raise RuntimeError('gcc failed on %s: %s' % (f, p.stdout[-1500:]))
            return o
        with ThreadPoolExecutor(8) as ex:
            objs = list(ex.map(cc, files))
        so = os.path.join(self.dir, 'libbardell.so')
        p = subprocess.run(['gcc', '-shared', '-o', so] + objs + ['-lm'], stdout=subprocess.PIPE,
                           stderr=subprocess.STDOUT, text=True)
        if p.returncode != 0:
            raise RuntimeError('gcc link failed: ' + p.stdout[-1500:])
        self.lib = ctypes.CDLL(so)
        D, I = ctypes.c_double, ctypes.c_int
        for name, _ in FUNCS:
            fn = getattr(self.lib, name)
            fn.restype = D
            fn.argtypes = [I, D, D, D, D, D]
            fv = getattr(self.lib, 'calc_vec_' + name[5:])
            fv.restype = None
            fv.argtypes = [ctypes.POINTER(D), D, D, D, D, D]
        for fam in FULLF:
            fn = getattr(self.lib, 'integral_' + fam)
            fn.restype = D
            fn.argtypes = [I, I] + [D] * 8
        for fam in SUBF:
            fn = getattr(self.lib, 'integral_%s_12' % fam)
            fn.restype = D
            fn.argtypes = [D, D, I, I] + [D] * 8
        for fam in MAPF:
            fn = getattr(self.lib, 'integral_%s_c0c1' % fam)
            fn.restype = D
            fn.argtypes = [D, D, I, I] + [D] * 8
        self.lib.leggauss_quad.restype = None
        self.lib.leggauss_quad.argtypes = [I, ctypes.POINTER(D), ctypes.POINTER(D)]
        ctx.log('compiled %d C files with gcc -O0 (%.1f s)' % (len(files), time.time() - t0))

    def close(self):
        shutil.rmtree(self.dir, ignore_errors=True)

    # a "call" is a JSON-able dict; `run` executes it
    def run(self, call):
        k = call['kind']
        fl = [float(F(x)) for x in call['flags']]
        if k == 'func':
            return getattr(self.lib, call['fn'])(call['i'], float(F(call['xi'])), *fl)
        if k == 'vec':
            buf = (ctypes.c_double * 30)()
            getattr(self.lib, call['fn'])(buf, float(F(call['xi'])), *fl)
            return buf[call['i']]
        if k == 'full':
            return getattr(self.lib, 'integral_' + call['fam'])(call['i'], call['j'], *fl)
        if k == 'sub':
            return getattr(self.lib, 'integral_%s_12' % call['fam'])(float(F(call['xi1'])), float(F(call['xi2'])),
                                                                      call['i'], call['j'], *fl)
        if k == 'map':
            return getattr(self.lib, 'integral_%s_c0c1' % call['fam'])(float(F(call['c0'])), float(F(call['c1'])),
                                                                        call['i'], call['j'], *fl)
        raise ValueError(k)

    def gauss(self, n):
        p = (ctypes.c_double * n)()
        w = (ctypes.c_double * n)()
        self.lib.leggauss_quad(n, p, w)
        return list(p), list(w)


def c_text(call):
    """the call as C source text (for the replay / report)"""
    fl = ', '.join(repr(float(F(x))) for x in call['flags'])
    k = call['kind']
    if k == 'func':
        return '%s(%d, %r, %s)' % (call['fn'], call['i'], float(F(call['xi'])), fl)
    if k == 'vec':
        return '%s(f, %r, %s); f[%d]' % (call['fn'], float(F(call['xi'])), fl, call['i'])
    if k == 'full':
        return 'integral_%s(%d, %d, %s)' % (call['fam'], call['i'], call['j'], fl)
    if k == 'sub':
        return 'integral_%s_12(%r, %r, %d, %d, %s)' % (call['fam'], float(F(call['xi1'])), float(F(call['xi2'])),
                                                       call['i'], call['j'], fl)
    return 'integral_%s_c0c1(%r, %r, %d, %d, %s)' % (call['fam'], float(F(call['c0'])), float(F(call['c1'])),
                                                     call['i'], call['j'], fl)


def exact_of(call):
    """(exact value, abs-scale) of the property's right-hand side for a call"""
    k = call['kind']
    fl = [F(x) for x in call['flags']]
    if k in ('func', 'vec'):
        d = {'f': 0, 'fxi': 1, 'fxixi': 2}[call['fn'].replace('calc_vec_', '').replace('calc_', '')]
        return exact_func(d, call['i'], F(call['xi']), fl)
    d1, d2 = ct.DERIV[call['fam']]
    if k == 'full':
        return exact_full(d1, d2, call['i'], call['j'], fl)
    if k == 'sub':
        return exact_sub(d1, d2, call['i'], call['j'], F(call['xi1']), F(call['xi2']), fl)
    return exact_map(d1, d2, call['i'], call['j'], F(call['c0']), F(call['c1']), fl)


def ast_of(call):
    """(parsed expression of the current source, variable environment) for a call"""
    T = tables()
    k = call['kind']
    fl = [F(x) for x in call['flags']]
    if k in ('func', 'vec'):
        e = T['func'][call['fn']][call['i']]
        env = dict(zip(ct.FFLAGS, fl), xi=F(call['xi']))
        return e, env
    env = dict(zip(ct.XFLAGS + ct.YFLAGS, fl))
    if k == 'full':
        return T['full'][call['fam']][(call['i'], call['j'])], env
    if k == 'sub':
        env.update(xi1=F(call['xi1']), xi2=F(call['xi2']))
        return T['sub'][call['fam'] + '_12'][(call['i'], call['j'])], env
    env.update(c0=F(call['c0']), c1=F(call['c1']))
    return T['map'][call['fam'] + '_c0c1'][(call['i'], call['j'])], env


def driver_line(call):
    k = call['kind']
    fl = ' '.join(q(F(x)) for x in call['flags'])
    if k in ('func', 'vec'):
        return 'C10 func %s %d %s %s' % (call['fn'], call['i'], q(F(call['xi'])), fl)
    if k == 'full':
        return 'C10 full %s %d %d %s' % (call['fam'], call['i'], call['j'], fl)
    if k == 'sub':
        return 'C10 sub %s %d %d %s %s %s' % (call['fam'], call['i'], call['j'], q(F(call['xi1'])), q(F(call['xi2'])), fl)
    return 'C10 map %s %d %d %s %s %s' % (call['fam'], call['i'], call['j'], q(F(call['c0'])), q(F(call['c1'])), fl)


# ============================================================================= case generation
def dy(rng, lo=-64, hi=64, den=64):
    return F(rng.randint(lo, hi), den)


def gen_flags(rng, n):
    mode = rng.random()
    if mode < 0.25:
        return [F(1)] * n
    if mode < 0.5:
        return [F(rng.choice([0, 1])) for _ in range(n)]
    return [rng.choice([F(1), F(0), dy(rng, -128, 128, 32), dy(rng, 1, 64, 16)]) for _ in range(n)]


def fs(x):
    return '%d/%d' % (x.numerator, x.denominator)


def gen_call(rng, kind, name, i=None, j=None):
    i = rng.randrange(30) if i is None else i
    j = rng.randrange(30) if j is None else j
    if kind in ('func', 'vec'):
        return dict(kind=kind, fn=name, i=i, xi=fs(rng.choice([F(1), F(-1), dy(rng), dy(rng)])),
                    flags=[fs(x) for x in gen_flags(rng, 4)])
    fl = [fs(x) for x in gen_flags(rng, 8)]
    if kind == 'full':
        return dict(kind=kind, fam=name, i=i, j=j, flags=fl)
    if kind == 'sub':
        a, b = sorted([rng.choice([F(-1), dy(rng)]), rng.choice([F(1), dy(rng)])])
        return dict(kind=kind, fam=name, i=i, j=j, xi1=fs(a), xi2=fs(b), flags=fl)
    # mapped argument c0 + c1*xi: typically stays inside [-1, 1] but the identity is polynomial in (c0, c1)
    c1 = rng.choice([dy(rng, 1, 64), dy(rng, -64, 64), F(1)])
    c0 = rng.choice([dy(rng, -32, 32), F(0), dy(rng, -64, 64)])
    return dict(kind=kind, fam=name, i=i, j=j, c0=fs(c0), c1=fs(c1), flags=fl)


def families():
    out = []
    for name, _ in FUNCS:
        out.append(('func', name))
        out.append(('vec', 'calc_vec_' + name[5:]))
    out += [('full', f) for f in FULLF] + [('sub', f) for f in SUBF] + [('map', f) for f in MAPF]
    return out


def is_nontrivial(call, exact):
    return exact != 0 and any(F(x) not in (0, 1) for x in call['flags'])


def check_call(clib, call, lean_value=None):
    """returns (status, detail): status in 'ok' | 'violation' | 'tie'"""
    got = clib.run(call)
    exact, scale = exact_of(call)
    tol = VTOL * scale + F(1, 10 ** 300)
    diff = abs(F(got) - exact)
    e, env = ast_of(call)
    astv = ct.evaluate(e, env)
    if diff > tol:
        return 'violation', dict(call=call, c_call=c_text(call), c_result=got, exact=float(exact),
                                 exact_rational=fs(exact), abs_scale=float(scale),
                                 rel_to_scale=float(diff / scale) if scale else None,
                                 source_expression_value=float(astv))
    if abs(F(got) - astv) > tol:
        return 'tie', dict(call=call, c_call=c_text(call), c_result=got, parsed_expression_value=float(astv),
                           why='compiled C and the parsed source expression differ')
    if lean_value is not None and lean_value != astv:
        return 'tie', dict(call=call, c_call=c_text(call), lean_value=float(lean_value),
                           parsed_expression_value=float(astv),
                           why='emitted Lean data and parsed source expression differ')
    return 'ok', exact


# ============================================================================= validation V
def correspondence(ctx):
    clib = CLib(ctx)
    try:
        _correspondence(ctx, clib)
    finally:
        clib.close()


def report(ctx, status, detail, where):
    if status == 'violation':
        ctx.violation('C10 fails on the implementation: %s returns %r, the exact value is %r (|diff| = %.3e of the '
                      'coefficient scale %.3e) [%s]' % (detail['c_call'], detail['c_result'], detail['exact'],
                                                      detail['rel_to_scale'] or 0, detail['abs_scale'], where),
                      detail, identity='%s:%s:%d:%s' % (detail['call']['kind'],
                                                       detail['call'].get('fam', detail['call'].get('fn')),
                                                       detail['call']['i'], detail['call'].get('j', '-')))
    else:
        ctx.violation('translator tie broken (%s): %s [%s]' % (detail['why'], detail['c_call'], where), detail,
                      found_input=False)


def _correspondence(ctx, clib):
    rng = ctx.rng
    fams = families()
    dist = {}
    n_lean = 0
    bad = 0
    for kind, name in fams:
        calls = []
        if ctx.thorough():
            pairs = [(i, j) for i in range(30) for j in (range(30) if kind not in ('func', 'vec') else [None])]
            reps = 4 if kind not in ('func', 'vec') else 40
            for (i, j) in pairs:
                for _ in range(reps):
                    calls.append(gen_call(rng, kind, name, i, j))
        else:
            calls = [gen_call(rng, kind, name) for _ in range(2000)]
        # every call: C vs exact oracle and vs parsed expression; a sample goes through the Lean driver
        n_drv = len(calls) if ctx.thorough() and kind in ('func', 'vec', 'full') else min(len(calls), ctx.scale(150, 900))
        idx = sorted(rng.sample(range(len(calls)), n_drv))
        replies = driver([driver_line(calls[k]) for k in idx], pid='C10')
        if len(replies) != len(idx):
            raise RuntimeError('Lean driver returned %d replies for %d lines' % (len(replies), len(idx)))
        lean = {}
        for k, rep in zip(idx, replies):
            if not rep.startswith('ok '):
                ctx.violation('Lean driver cannot evaluate the emitted table: %s -> %s' % (driver_line(calls[k]), rep),
                              dict(call=calls[k], reply=rep), found_input=False)
                return
            lean[k] = unq(rep.split()[1])
        n_lean += len(idx)
        nz = 0
        for k, call in enumerate(calls):
            ctx.evaluations += 1
            status, detail = check_call(clib, call, lean.get(k))
            if status != 'ok':
                report(ctx, status, detail, 'validation V, %s %s' % (kind, name))
                bad += 1
                if bad >= 3:
                    return
                continue
            if detail != 0:
                nz += 1
            if is_nontrivial(call, detail):
                ctx.nontrivial.add((kind, name, call['i'], call.get('j'), call.get('xi', call.get('xi1', call.get('c0'))),
                                    call.get('xi2', call.get('c1'))))
            if k < 1:
                ctx.sample(dict(c_call=c_text(call), c_result=clib.run(call), exact=float(detail)), limit=23)
        dist['%s:%s' % (kind, name)] = dict(calls=len(calls), exact_nonzero=nz, through_lean_driver=len(idx))
    ctx.cov['input_distribution'] = dist
    ctx.cov['lean_driver_evaluations'] = n_lean
    if bad:
        return
    # ---- the Lean basis is the closed formula (driver prints it, the oracle recomputes it)
    lines = ['C10 basis %d %d' % (d, i) for d in range(3) for i in range(30)]
    reps = driver(lines, pid='C10')
    for line, rep in zip(lines, reps):
        _, _, d, i = line.split()
        want = [c for c in dbasis(int(i), int(d))]
        got = [unq(x) for x in rep.split()[1:]]
        while got and got[-1] == 0:
            got.pop()
        while want and want[-1] == 0:
            want.pop()
        ctx.evaluations += 1
        if got != list(want):
            ctx.violation('Bardell/Basis.lean differs from the closed formula for derivative %s of function %s' % (d, i),
                          dict(line=line, lean=rep[:300]), found_input=False)
            return
    # ---- the wanted term lists of the Lean checkers are the oracle's exact coefficients
    if not want_check(ctx):
        return
    # ---- Gauss-Legendre: compiled table vs exact moments, and vs the binary64 rounding done in Lean
    gl = driver(['C10 gauss %d' % n for n in range(2, 65)], pid='C10')
    worst = F(0)
    for n, rep in zip(range(2, 65), gl):
        pts, wts = clib.gauss(n)
        ctx.evaluations += 1
        X = [F(x) for x in pts]
        W = [F(w) for w in wts]
        lean_vals = [unq(x) for x in rep.split()[1:]]
        if lean_vals != X + W:
            k = [a == b for a, b in zip(lean_vals, X + W)].index(False) if len(lean_vals) == 2 * n else -1
            ctx.violation('leggauss_quad(%d): compiled values differ from the binary64 rounding of the source literals '
                          'computed in Lean (position %d)' % (n, k),
                          dict(n=n, c_points=pts, c_weights=wts), found_input=False)
            return
        t = list(W)
        for k in range(2 * n):
            s = sum(t)
            ex = F(2, k + 1) if k % 2 == 0 else F(0)
            err = abs(s - ex)
            worst = max(worst, err)
            if err > F(2, 10 ** 15):
                ctx.violation('leggauss_quad(%d) does not integrate xi^%d exactly: sum w x^k = %r, exact %r'
                              % (n, k, float(s), float(ex)),
                              dict(c_call='leggauss_quad(%d, points, weights)' % n, monomial_degree=k,
                                   quadrature=float(s), exact=float(ex), points=pts, weights=wts),
                              identity='gauss:%d' % n)
                return
            t = [a * x for a, x in zip(t, X)]
        if not (all(w > 0 for w in W) and all(-1 < x < 1 for x in X) and X == sorted(X)):
            ctx.violation('leggauss_quad(%d): weights not positive or nodes not increasing inside (-1,1)' % n,
                          dict(c_call='leggauss_quad(%d, points, weights)' % n, points=pts, weights=wts),
                          identity='gauss:%d' % n)
            return
        ctx.nontrivial.add(('gauss', n))
    ctx.cov['gauss_worst_moment_error'] = float(worst)
    # ---- trapezoid / Simpson point sets of the in-tree compiled extension
    integrate_check(ctx)


def oracle_terms(kind, d1, d2, i, j):
    """{(e0, e1, f2..f9): Fraction} the exact polynomial the Lean checker must want (keys as in Core/CExpr.lean)"""
    fm = [0] * 8
    if kind == 'func':
        if i < 4:
            fm[i] = 1
        return {(k, 0) + tuple(fm): c for k, c in enumerate(dbasis(i, d1)) if c}
    if i < 4:
        fm[i] += 1
    if j < 4:
        fm[4 + j] += 1
    fm = tuple(fm)
    if kind == 'full':
        v = exact_full(d1, d2, i, j, [F(1)] * 8)[0]
        return {(0, 0) + fm: v} if v else {}
    if kind == 'sub':
        out = {}
        for k, c in enumerate(anti(d1, d2, i, j)):
            if c and k:
                out[(k, 0) + fm] = c          # variable 0 = xi2
                out[(0, k) + fm] = -c         # variable 1 = xi1
        return out
    return {(t, a) + fm: c for (a, t), c in map_coefs(d1, d2, i, j).items()}      # variable 1 = c0, 0 = c1


def want_check(ctx):
    """Lean exact side (Bardell/Basis + Exact + Check wanted lists) == independent Python oracle, coefficient-wise"""
    rng = ctx.rng
    jobs = []
    for d in range(3):
        for i in range(30):
            jobs.append(('func', d, 0, i, 0))
    for kind, fams in (('full', FULLF), ('sub', SUBF), ('map', MAPF)):
        for fam in fams:
            d1, d2 = ct.DERIV[fam]
            pairs = [(i, j) for i in range(30) for j in range(30)]
            if not ctx.thorough():
                pairs = rng.sample(pairs, 40)
            jobs += [(kind, d1, d2, i, j) for (i, j) in pairs]
    reps = driver(['C10 want %s %d %d %d %d' % job for job in jobs], pid='C10')
    for job, rep in zip(jobs, reps):
        ctx.evaluations += 1
        tok = rep.split()
        if tok[0] != 'ok':
            ctx.violation('Lean driver cannot print the wanted terms of %r: %s' % (job, rep), dict(job=list(job)), found_input=False)
            return False
        den = int(tok[1])
        got = {}
        for item in tok[2:]:
            key, c = item.split(':')
            key = int(key)
            ex = []
            for _ in range(10):
                ex.append(key % 128)
                key //= 128
            got[tuple(ex)] = F(int(c), den)
        want = oracle_terms(*job)
        if got != want:
            ctx.violation('exact side of the Lean checker differs from the independent oracle for %r' % (job,),
                          dict(job=list(job), lean_terms=len(got), oracle_terms=len(want)), found_input=False)
            return False
    ctx.cov['lean_exact_side_entries_compared_with_oracle'] = len(jobs)
    return True


def integrate_source():
    """The point-set routines of compmech/integrate/integrate.pyx AS WRITTEN IN THE SOURCE, made executable: the small Cython subset
    they use is rewritten to Python (declarations dropped, C integer division kept, pointers -> arrays).  The in-tree binary cannot be
    rebuilt here, so an edit of the .pyx is visible only through this reading.  Raises on anything outside the recognised subset."""
    import re
    import numpy as np
    src = open(os.path.join(common.REPO, 'compmech', 'integrate', 'integrate.pyx')).read()
    if 'cdivision=True' not in src:
        raise RuntimeError('integrate.pyx: the cdivision directive changed')
    out, ints, keep = [], set(), False
    for line in src.split('\n'):
        st = line.strip()
        m = re.match(r'^(cdef\s+void|def)\s+(\w+)\((.*)$', line)
        if m:
            keep = m.group(2) in ('trapz_quad', 'trapz2d_points', 'simps2d_points', 'python_trapz_quad')
            ints = set()
        if not line.startswith((' ', '\t')) and st and not m:
            keep = False
        if not keep:
            continue
        if re.match(r'^\s+cdef\s+int\s', line):
            ints |= set(x.strip() for x in st.split('int', 1)[1].split(','))
            continue
        if re.match(r'^\s+cdef\s+double\s', line):
            continue
        for nm in re.findall(r'\bint\s+(\w+)', line):
            ints.add(nm)
        line = re.sub(r'^cdef\s+void\s+', 'def ', line)
        line = re.sub(r'\)\s*nogil\s*:', '):', line)
        line = re.sub(r'\bdouble\s*\[:\]\s*', '', line)
        line = re.sub(r'\bdouble\s*\*\s*', '', line)
        line = re.sub(r'\b(double|int)\s+(?=\w)', '', line)
        line = re.sub(r'&(\w+)\[0\]', r'\1', line)
        line = re.sub(r'with\s+nogil\s*:', 'if True:', line)
        m2 = re.match(r'^(\s*)(\w+)\s*/=\s*(.+)$', line)
        if m2 and m2.group(2) in ints:
            line = '%s%s //= %s' % m2.groups()
        if re.search(r'\bcdef\b|<\w+\s*\*?>', line):
            raise RuntimeError('integrate.pyx: statement outside the recognised subset: ' + st)
        out.append(line)
    ns = dict(np=np, DOUBLE=np.float64)
    exec(compile('\n'.join(out), 'integrate.pyx(source)', 'exec'), ns)
    for k in ('trapz2d_points', 'simps2d_points', 'python_trapz_quad'):
        if k not in ns:
            raise RuntimeError('integrate.pyx: function %s not found' % k)
    return ns['trapz2d_points'], ns['simps2d_points'], ns['python_trapz_quad']


def integrate_check(ctx):
    import numpy as np
    try:
        from compmech.integrate.integrate import trapz2d_points, simps2d_points, python_trapz_quad
    except Exception as e:                                              # pragma: no cover
        ctx.notes.append('compmech.integrate not importable: %r' % (e,))
        return
    rng = ctx.rng
    # ---- T (source reading): the routines as written in integrate.pyx, executed, must agree with the compiled extension on every
    #      case below; where they do not, the property is judged on the source reading (the binary is stale w.r.t. an edited source)
    try:
        src_fns = integrate_source()
    except Exception as e:
        ctx.violation('integrate.pyx can no longer be read by the source-level tie (%s)' % e, dict(tie='integrate.pyx source reading'),
                      found_input=False)
        return
    for (nx, ny) in [(2, 2), (3, 5), (4, 10), (20, 6), (5, 12), (2, 9), (7, 8), (1, 1), (1, 6), (13, 4)] + \
            [(rng.randint(1, 16), rng.randint(1, 16)) for _ in range(ctx.scale(10, 80))]:
        b = [rng.uniform(-3, 0), rng.uniform(0.1, 3), rng.uniform(-3, 0), rng.uniform(0.1, 3)]
        for name, fs, fc in (('trapz2d_points', src_fns[0], trapz2d_points), ('simps2d_points', src_fns[1], simps2d_points)):
            if name == 'trapz2d_points' and (nx < 2 or ny < 2):
                continue
            ctx.evaluations += 1
            a_ = [np.asarray(v) for v in fs(b[0], b[1], nx, b[2], b[3], ny)]
            c_ = [np.asarray(v) for v in fc(b[0], b[1], nx, b[2], b[3], ny)]
            if any(x.shape != y.shape for x, y in zip(a_, c_)) or any(np.abs(x - y).max() > 1e-13 * max(np.abs(y).max(), 1e-300) for x, y in zip(a_, c_)):
                xs, ys, al, be = a_
                area = (b[1] - b[0]) * (b[3] - b[2])
                call = 'integrate.pyx (source) %s(%r, %r, %d, %r, %r, %d)' % (name, b[0], b[1], nx, b[2], b[3], ny)
                if abs(float((al * be).sum()) - area) > 1e-10 * area:
                    ctx.violation('C10 fails on the source as written: %s - the weights sum to %r, the domain area is %r (the running '
                                  'binary is stale w.r.t. this source)' % (call, float((al * be).sum()), area), dict(source_call=call))
                else:
                    ctx.violation('the source of %s and the compiled extension give different point sets (%s); the hand model is tied to '
                                  'the binary only' % (name, call), dict(source_call=call), found_input=False)
                return
    for k in (2, 3, 5, 9):
        xa, wa, xb, wb = np.zeros(k), np.zeros(k), np.zeros(k), np.zeros(k)
        src_fns[2](k, xa, wa)
        python_trapz_quad(k, xb, wb)
        if np.abs(xa - xb).max() > 1e-15 or np.abs(wa - wb).max() > 1e-15:
            bad = abs(wa.sum() - 2) > 1e-12
            ctx.violation(('C10 fails on the source as written: trapz_quad(%d) weights sum to %r' % (k, float(wa.sum()))) if bad else
                          'the source of trapz_quad and the compiled extension differ for n = %d' % k,
                          dict(source_call='trapz_quad(%d)' % k), found_input=bad)
            return
    ctx.cov['integrate_source_reading'] = 'trapz_quad, trapz2d_points, simps2d_points executed from integrate.pyx and compared with the binary'
    # ---- H: hand model Model/Integrate.lean (through the driver) vs the compiled extension, point by point, in order
    cases = [(2, 2), (2, 3), (3, 2), (1, 1), (1, 4), (4, 1), (5, 7), (8, 6)] + \
            [(rng.randint(1, 14), rng.randint(1, 14)) for _ in range(ctx.scale(8, 60))]
    lines, meta = [], []
    for (nx, ny) in cases:
        b = sorted([F(rng.randint(-24, 24), 8), F(rng.randint(-24, 24), 8)]) + sorted([F(rng.randint(-24, 24), 8), F(rng.randint(-24, 24), 8)])
        if b[0] == b[1] or b[2] == b[3]:
            continue
        for name in ('trapz2d', 'simps2d'):
            if name == 'trapz2d' and (nx < 2 or ny < 2):
                continue
            lines.append('C10 %s %s %s %d %s %s %d' % (name, q(b[0]), q(b[1]), nx, q(b[2]), q(b[3]), ny))
            meta.append((name, b, nx, ny))
    for k in (2, 3, 4, 9, 16):
        lines.append('C10 trapzquad %d' % k)
        meta.append(('trapzquad', None, k, None))
    reps = driver(lines, pid='C10')
    for (name, b, nx, ny), rep in zip(meta, reps):
        ctx.evaluations += 1
        vals = [unq(x) for x in rep.split()[1:]]
        if name == 'trapzquad':
            xis = np.zeros(nx)
            ws = np.zeros(nx)
            python_trapz_quad(nx, xis, ws)
            impl = [v for pair in zip(xis, ws) for v in pair]
            call = 'python_trapz_quad(%d, xis, weights)' % nx
        else:
            fn = trapz2d_points if name == 'trapz2d' else simps2d_points
            out = [np.asarray(v) for v in fn(float(b[0]), float(b[1]), nx, float(b[2]), float(b[3]), ny)]
            impl = [v for quad_ in zip(*out) for v in quad_]
            call = 'compmech.integrate.integrate.%s_points(%r, %r, %d, %r, %r, %d)' % (name, float(b[0]), float(b[1]), nx, float(b[2]), float(b[3]), ny)
        scale = max([abs(float(v)) for v in vals] + [1e-300])
        if len(impl) != len(vals) or any(abs(float(m) - g) > 1e-12 * scale for m, g in zip(vals, impl)):
            ctx.violation('model Model/Integrate.lean and the compiled %s disagree (number, order, coordinates or weights of the points)' % call,
                          dict(c_call=call, model_points=len(vals), impl_points=len(impl)), found_input=False)
            return
        ctx.nontrivial.add(('H', name, nx, ny))
    ctx.cov['integrate_model_vs_extension_cases'] = len(meta)
    grids = [(2, 2), (2, 3), (3, 2), (3, 3), (4, 5), (5, 4), (7, 9), (10, 6), (21, 33)]
    grids += [(rng.randint(2, 40), rng.randint(2, 40)) for _ in range(ctx.scale(20, 200))]
    n = 0
    for (nx, ny) in grids:
        xmin, xmax = sorted([rng.uniform(-3, 3), rng.uniform(-3, 3)])
        ymin, ymax = sorted([rng.uniform(-3, 3), rng.uniform(-3, 3)])
        area = (xmax - xmin) * (ymax - ymin)
        lin = [rng.uniform(-2, 2) for _ in range(4)]
        cub = [[rng.uniform(-1, 1) for _ in range(4)] for _ in range(4)]

        def mono_int(a, lo, hi):
            return (hi ** (a + 1) - lo ** (a + 1)) / (a + 1)
        for name, fn, deg in (('trapz2d_points', trapz2d_points, 1), ('simps2d_points', simps2d_points, 3)):
            xs, ys, al, be = (np.asarray(v) for v in fn(xmin, xmax, nx, ymin, ymax, ny))
            ctx.evaluations += 1
            n += 1
            w = al * be
            replay = dict(c_call='compmech.integrate.integrate.%s(%r, %r, %d, %r, %r, %d)' % (name, xmin, xmax, nx, ymin, ymax, ny))
            if abs(w.sum() - area) > 1e-10 * max(area, 1e-300):
                ctx.violation('%s: weights sum to %r, the domain area is %r' % (name, float(w.sum()), area), replay,
                              identity='integrate:%s:area' % name)
                return
            if deg == 1:
                f = lin[0] + lin[1] * xs + lin[2] * ys + lin[3] * xs * ys
                ex = (lin[0] * area + lin[1] * mono_int(1, xmin, xmax) * (ymax - ymin) + lin[2] * (xmax - xmin) * mono_int(1, ymin, ymax)
                      + lin[3] * mono_int(1, xmin, xmax) * mono_int(1, ymin, ymax))
                sc = sum(abs(c) for c in lin) * 9 * max(area, 1e-300)
            else:
                f = sum(cub[a][b] * xs ** a * ys ** b for a in range(4) for b in range(4))
                ex = sum(cub[a][b] * mono_int(a, xmin, xmax) * mono_int(b, ymin, ymax) for a in range(4) for b in range(4))
                sc = sum(abs(cub[a][b]) for a in range(4) for b in range(4)) * 3 ** 6 * max(area, 1e-300)
            got = float((w * f).sum())
            if abs(got - ex) > 1e-10 * sc:
                ctx.violation('%s does not integrate a %s integrand exactly: %r vs %r' %
                              (name, 'bilinear' if deg == 1 else 'bicubic', got, ex), replay,
                              identity='integrate:%s:exact' % name)
                return
            ctx.nontrivial.add((name, nx, ny))
        # trapz_quad on the reference interval
        xis = np.zeros(nx)
        ws = np.zeros(nx)
        python_trapz_quad(nx, xis, ws)
        if abs(ws.sum() - 2) > 1e-12 or abs((ws * xis).sum()) > 1e-12 or xis[0] != -1 or abs(xis[-1] - 1) > 1e-15:
            ctx.violation('trapz_quad(%d): weights do not sum to 2 / are not exact for linear integrands' % nx,
                          dict(c_call='python_trapz_quad(%d, xis, weights)' % nx), identity='integrate:trapz_quad')
            return
    ctx.cov['integrate_grids'] = n


# ============================================================================= failing-input search
SEARCH_POINTS = [(F(-1), F(1)), (F(-45, 64), F(61, 64)), (F(-1), F(-19, 64)), (F(23, 64), F(1)), (F(-63, 64), F(63, 64))]


def coefficient_scan(ctx, limit=5):
    """model arm: the source *as written* against the exact polynomials, coefficient by coefficient
    (what the Lean checkers decide).  Returns a list of (kind, fam, i, j, monomial, got, want)."""
    T = tables()
    out = []

    def flagmono(i, j):
        m = [0] * 8
        if i < 4:
            m[i] += 1
        if j is not None and j < 4:
            m[4 + j] += 1
        return tuple(m)

    def cmp(kind, fam, i, j, got, want, tol):
        for m in sorted(set(got) | set(want)):
            g, w = got.get(m, F(0)), want.get(m, F(0))
            if abs(g - w) > tol * abs(w):
                out.append((kind, fam, i, j, m, g, w))
                return
    for name in T['func']:
        d = {'f': 0, 'fxi': 1, 'fxixi': 2}[name.replace('calc_vec_', '').replace('calc_', '')]
        for i, e in enumerate(T['func'][name]):
            got = ct.expand(e, ['xi'] + ct.FFLAGS)
            fm = flagmono(i, None)[:4]
            want = {(k,) + fm: c for k, c in enumerate(dbasis(i, d)) if c}
            cmp('vec' if 'vec' in name else 'func', name, i, None, got, want, F(5, 10 ** 15))
    for fam in FULLF:
        d1, d2 = ct.DERIV[fam]
        for (i, j), e in T['full'][fam].items():
            got = ct.expand(e, ct.XFLAGS + ct.YFLAGS)
            v = exact_full(d1, d2, i, j, [F(1)] * 8)[0]
            cmp('full', fam, i, j, got, {flagmono(i, j): v} if v else {}, F(5, 10 ** 15))
    for fam in SUBF:
        d1, d2 = ct.DERIV[fam]
        for (i, j), e in T['sub'][fam + '_12'].items():
            if len(out) >= limit:
                return out
            got = ct.expand(e, ['xi1', 'xi2'] + ct.XFLAGS + ct.YFLAGS)
            A = anti(d1, d2, i, j)
            fm = flagmono(i, j)
            want = {}
            for k, c in enumerate(A):
                if c and k:
                    want[(k, 0) + fm] = -c
                    want[(0, k) + fm] = c
            cmp('sub', fam, i, j, got, want, F(1, 10 ** 13))
    for fam in MAPF:
        d1, d2 = ct.DERIV[fam]
        for (i, j), e in T['map'][fam + '_c0c1'].items():
            if len(out) >= limit:
                return out
            got = ct.expand(e, ['c0', 'c1'] + ct.XFLAGS + ct.YFLAGS)
            fm = flagmono(i, j)
            want = {k + fm: v for k, v in map_coefs(d1, d2, i, j).items()}
            cmp('map', fam, i, j, got, want, F(1, 10 ** 13))
    return out


def _search_families(ctx, clib, fams, why):
    rng = ctx.rng
    for kind, name in fams:
        for i in range(30):
            for j in (range(30) if kind not in ('func', 'vec') else [None]):
                for (a, b) in SEARCH_POINTS[:ctx.scale(3, 5)]:
                    fl = [fs(F(rng.randint(3, 9), 4)) for _ in range(8 if kind not in ('func', 'vec') else 4)]
                    if kind in ('func', 'vec'):
                        call = dict(kind=kind, fn=name, i=i, xi=fs(b), flags=fl)
                    elif kind == 'full':
                        call = dict(kind=kind, fam=name, i=i, j=j, flags=fl)
                    elif kind == 'sub':
                        call = dict(kind=kind, fam=name, i=i, j=j, xi1=fs(a), xi2=fs(b), flags=fl)
                    else:
                        call = dict(kind=kind, fam=name, i=i, j=j, c0=fs(a / 2), c1=fs(b), flags=fl)
                    ctx.evaluations += 1
                    got = clib.run(call)
                    exact, scale = exact_of(call)
                    diff = abs(F(got) - exact)
                    if diff > VTOL * scale + F(1, 10 ** 300):
                        det = dict(call=call, c_call=c_text(call), c_result=got, exact=float(exact),
                                   exact_rational=fs(exact), abs_scale=float(scale),
                                   rel_to_scale=float(diff / scale) if scale else None, after=why)
                        report(ctx, 'violation', det, 'failing-input search after: ' + why)
                        return True
                    if kind == 'full':
                        break
    return False


def _search_gauss(ctx, clib, why):
    for n in range(2, 65):
        pts, wts = clib.gauss(n)
        X, W = [F(x) for x in pts], [F(w) for w in wts]
        t = list(W)
        for k in range(2 * n):
            s = sum(t)
            ex = F(2, k + 1) if k % 2 == 0 else F(0)
            if abs(s - ex) > F(2, 10 ** 15):
                ctx.violation('leggauss_quad(%d) does not integrate xi^%d exactly: sum w x^k = %r, exact %r [after: %s]'
                              % (n, k, float(s), float(ex), why),
                              dict(c_call='leggauss_quad(%d, points, weights)' % n, monomial_degree=k,
                                   quadrature=float(s), exact=float(ex), points=pts, weights=wts),
                              identity='gauss:%d' % n)
                return True
            t = [a * x for a, x in zip(t, X)]
    return False


def search(ctx, reason):
    """a proof obligation or the translator broke: find a concrete C call on which the property fails"""
    why = ' | '.join(reason)[:400]
    text = ' '.join(reason)
    clib = CLib(ctx)
    found = False
    try:
        # implementation arm: compiled C vs exact, every (family, i, j) at several points with generic flags;
        # families whose generated module is named in the build error go first
        fams = families()
        hit = set()
        for m in re.finditer(r'Gen/CTables/(Full|Sub|Map)([A-Za-z]+?)(?:B\d+)?(?:Check|All)\.lean', text):
            hit.add(({'Full': 'full', 'Sub': 'sub', 'Map': 'map'}[m.group(1)], m.group(2).lower()))
        if 'FuncCheck' in text:
            hit |= set(f for f in fams if f[0] in ('func', 'vec'))
        fams = [f for f in fams if f in hit] + [f for f in fams if f not in hit]
        if 'LegGauss' in text:
            found = _search_gauss(ctx, clib, why) or _search_families(ctx, clib, fams, why)
        else:
            found = _search_families(ctx, clib, fams, why) or _search_gauss(ctx, clib, why)
        if not found:
            # model arm: the source text itself, coefficient by coefficient (below float resolution of a C call)
            try:
                scan = coefficient_scan(ctx)
            except Exception as e:
                scan = []
                ctx.notes.append('coefficient scan impossible: %r' % (e,))
            for (kind, fam, i, j, m, g, w) in scan[:3]:
                ctx.violation('source table entry out of tolerance but below the floating-point resolution of a call: '
                              '%s %s (i=%s, j=%s) monomial exponents %s: coefficient %r, exact %r [after: %s]'
                              % (kind, fam, i, j, list(m), float(g), float(w), why),
                              dict(kind=kind, family=fam, i=i, j=j, monomial=list(m), coefficient=fs(F(g)), exact=fs(F(w)),
                                   broken=reason), found_input=False)
                found = True
    finally:
        clib.close()
    return found


# ============================================================================= replay
def replay(ctx, data):
    rp = data['replay']
    call = rp.get('call')
    clib = CLib(ctx)
    try:
        if call:
            got = clib.run(call)
            exact, scale = exact_of(call)
            diff = abs(F(got) - exact)
            bad = diff > VTOL * scale + F(1, 10 ** 300)
            print('%s = %r ; exact %r ; |diff|/scale = %.3e -> %s' % (c_text(call), got, float(exact),
                                                                      float(diff / scale) if scale else 0.0,
                                                                      'FAILS' if bad else 'holds'))
            return 1 if bad else 0
        if 'monomial_degree' in rp and 'c_call' in rp and rp['c_call'].startswith('leggauss_quad('):
            n = int(rp['c_call'].split('(')[1].split(',')[0])
            pts, wts = clib.gauss(n)
            k = rp['monomial_degree']
            s = sum(F(w) * F(x) ** k for x, w in zip(pts, wts))
            ex = F(2, k + 1) if k % 2 == 0 else F(0)
            bad = abs(s - ex) > F(2, 10 ** 15)
            print('leggauss_quad(%d): moment %d = %r, exact %r -> %s' % (n, k, float(s), float(ex), 'FAILS' if bad else 'holds'))
            return 1 if bad else 0
    finally:
        clib.close()
    print('replay names a broken obligation, no C call:', data['what'])
    return 1
