"""C11 — recovered displacement / strain / stress fields match the Ritz series and the Donnell kinematics.
T: Gen/Field/*.lean regenerated from clt_bardell_field*.pyx (per point, per dof increments); Props/C11.lean re-checked.
V: the translated increments summed over the degrees of freedom vs the running fuvw / fstrain.
H: Model/Chunking.lean (pad / reshape / map / ravel / trim) vs the running wrappers for 1..16 cores (driver).
Implementation arm: exact series / Donnell oracle vs Panel.uvw, Panel.strain, Panel.stress, PanelAssembly slices.
"""
import os

import numpy as np

from tools import bardell, panel_v
from tools.common import driver
from tools.props import panel_common as pc
from tools.translate import gen_field, pyx

TRUSTED = pc.TRUSTED_T + [
    'tools/cyexec.py (Cython-subset source executor, validated by its --selftest and by bit-identical agreement with the binaries on the unchanged tree): the source reading of the hand-written .pyx/.pxi files',
    'hand model lean/CompmechVerif/Model/Chunking.lean of the pad/reshape/prange/ravel/trim logic of fuvw/fstrain '
    '(tied by the driver correspondence for core counts 1..16)',
    'OpenMP scheduling / data races cannot be exhibited by the model: identical outputs across core counts are required '
    'by the harness as supporting evidence only',
]
ASSUMPTIONS = ['conical panels are rejected by fstrain (NotImplementedError): outside C11',
               'stress = F * strain: Panel.stress is plain Python; Props/C11 stress_eq_F_strain / stress_nlterms_forwarded / '
               'stress_linear_eq_F_donnell are theorems about the hand model panelStress of Model/Chunking.lean, which has no driver: its tie '
               'to the running code is the numerical clause below (stress resultants vs F times the strains of the same NLterms option)']
RULE = ('random flat / cylindrical panels (m,n 1..4, generic flags), random amplitude vectors, scattered / gridded / edge '
        'point sets whose size is not a multiple of the core count, 1..16 cores, linear and non-linear strain options, '
        'panels inside assemblies; non-trivial = m*n >= 4 and >= 5 points and cores > 1; distinct by case parameters')


def translate(ctx):
    if not hasattr(ctx, '_field_ir'):
        ctx._field_ir = gen_field.translate_all()
    return ctx._field_ir


def gen(ctx, rng):
    case = pc.gen_panel_case(rng, models=('Plate', 'CPanel', 'PlateW'), max_mn=4, y12=False)
    npts = rng.choice([1, 2, 3, 5, 7, 11, 16, 17, 33])
    kind = rng.choice(['scattered', 'edges', 'grid'])
    if kind == 'grid':
        k = rng.choice([2, 3, 4])
        xs = np.repeat(np.linspace(0, case['a'], k), k)
        ys = np.tile(np.linspace(0, case['b'], k), k)
    else:
        xs = np.array([rng.choice([0., case['a']]) if kind == 'edges' and rng.random() < 0.5 else rng.uniform(0, case['a'])
                       for _ in range(npts)])
        ys = np.array([rng.choice([0., case['b']]) if kind == 'edges' and rng.random() < 0.5 else rng.uniform(0, case['b'])
                       for _ in range(npts)])
    num = 1 if case['lean_model'] == 'PlateW' else 3
    c = np.array([rng.uniform(-1, 1) * 1e-3 for _ in range(num * case['m'] * case['n'])])
    case.update(xs=xs.tolist(), ys=ys.tolist(), c=c.tolist(), cores=rng.randint(1, 16), NL=rng.random() < 0.5)
    return case


def series(p, case, c, xs, ys):
    """exact series / Donnell strains (with the TRUE quadratic terms when NL)"""
    num = 1 if case['lean_model'] == 'PlateW' else 3
    m, n = p.m, p.n
    fl = {f: (panel_v.panel_flags(p, f, 'x'), panel_v.panel_flags(p, f, 'y')) for f in 'uvw'}
    out = {k: np.zeros(len(xs)) for k in ('u', 'v', 'w', 'wx', 'wy', 'ux', 'uy', 'vx', 'vy', 'wxx', 'wyy', 'wxy')}
    xi = 2 * np.asarray(xs) / p.a - 1
    eta = 2 * np.asarray(ys) / p.b - 1
    for j in range(n):
        for i in range(m):
            col = num * (j * m + i)
            amp = {'w': c[col + num - 1]}
            if num == 3:
                amp['u'], amp['v'] = c[col], c[col + 1]
            for f, cf in amp.items():
                f0 = bardell.phi(0, i, fl[f][0], xi); f1 = bardell.phi(1, i, fl[f][0], xi); f2 = bardell.phi(2, i, fl[f][0], xi)
                g0 = bardell.phi(0, j, fl[f][1], eta); g1 = bardell.phi(1, j, fl[f][1], eta); g2 = bardell.phi(2, j, fl[f][1], eta)
                out[f] += cf * f0 * g0
                out[f + 'x'] += cf * f1 * g0 * 2 / p.a
                out[f + 'y'] += cf * f0 * g1 * 2 / p.b
                if f == 'w':
                    out['wxx'] += cf * f2 * g0 * 4 / p.a ** 2
                    out['wyy'] += cf * f0 * g2 * 4 / p.b ** 2
                    out['wxy'] += cf * f1 * g1 * 4 / (p.a * p.b)
    return out


def run_case(ctx, case, ir):
    p = pc.make_panel(case)
    pc.quiet(p.calc_k0, silent=True)
    c = np.array(case['c'])
    xs, ys = np.array(case['xs']), np.array(case['ys'])
    p.out_num_cores = case['cores']
    u, v, w, phix, phiy = p.uvw(c, xs=xs, ys=ys)
    s = series(p, case, c, xs, ys)
    scale = max(np.abs(c).max(), 1e-300)
    bad = []
    ident = None

    def cmp(name, got, want, sc):
        if np.abs(np.ravel(got) - want).max() > 1e-9 * sc:
            bad.append('%s differs from the series/kinematics: max abs diff %.3e (scale %.3e)' % (
                name, np.abs(np.ravel(got) - want).max(), sc))
    if case['lean_model'] != 'PlateW':
        cmp('u', u, s['u'], scale); cmp('v', v, s['v'], scale)
    cmp('w', w, s['w'], scale)
    cmp('phix', phix, -s['wx'], scale / p.a * 10); cmp('phiy', phiy, -s['wy'], scale / p.b * 10)
    # thread independence: every core count gives the array of 1 core
    p.out_num_cores = 1
    ref = p.uvw(c, xs=xs, ys=ys)
    p.out_num_cores = case['cores']
    again = p.uvw(c, xs=xs, ys=ys)
    for k, (a1, a2) in enumerate(zip(ref, again)):
        if not np.array_equal(np.ravel(a1), np.ravel(a2)):
            bad.append('uvw component %d differs between 1 and %d worker threads' % (k, case['cores']))
    if bad or case['lean_model'] == 'PlateW':
        return bad, ident
    # strains (flat and cylindrical three-field models)
    for NL in (False, True):
        res = p.strain(c, xs=xs, ys=ys, NLterms=NL)
        rinv = 1. / p.r if p.r else 0.
        want = dict(exx=s['ux'], eyy=s['vy'] + rinv * s['w'], gxy=s['uy'] + s['vx'], kxx=-s['wxx'], kyy=-s['wyy'], kxy=-2 * s['wxy'])
        if NL:
            want['exx'] = want['exx'] + 0.5 * s['wx'] ** 2
            want['eyy'] = want['eyy'] + 0.5 * s['wy'] ** 2
            want['gxy'] = want['gxy'] + s['wx'] * s['wy']
        sc = {'exx': scale / p.a, 'eyy': scale / p.b + scale * abs(rinv), 'gxy': scale / min(p.a, p.b),
              'kxx': scale / p.a ** 2, 'kyy': scale / p.b ** 2, 'kxy': scale / (p.a * p.b)}
        for k in want:
            if np.abs(np.ravel(res[k]) - want[k]).max() > 1e-8 * 10 * sc[k]:
                if NL and k in ('exx', 'eyy', 'gxy'):
                    ident = 'C11-nl-terms-sum-of-squares'
                    bad.append('strain %s with the quadratic slope terms differs from the Donnell relation of the whole series '
                               '(max abs diff %.3e; the kernel adds the square of each term instead of the square of the sum)'
                               % (k, np.abs(np.ravel(res[k]) - want[k]).max()))
                    break
                bad.append('strain %s (NLterms=%s) differs from the Donnell relations: max abs diff %.3e'
                           % (k, NL, np.abs(np.ravel(res[k]) - want[k]).max()))
        if bad:
            return bad, ident
        # stress = F * strain of the same option
        st = p.stress(c, xs=xs, ys=ys, NLterms=NL)
        F = p.F
        E = np.vstack([np.ravel(res[k]) for k in ('exx', 'eyy', 'gxy', 'kxx', 'kyy', 'kxy')])
        for row, k in enumerate(('Nxx', 'Nyy', 'Nxy', 'Mxx', 'Myy', 'Mxy')):
            wantN = F[row] @ E
            if np.abs(np.ravel(st[k]) - wantN).max() > 1e-9 * max(np.abs(wantN).max(), 1e-300):
                return ['stress resultant %s with NLterms=%s is not the laminate matrix times the strains of the same option '
                        '(max rel diff %.3e)' % (k, NL, np.abs(np.ravel(st[k]) - wantN).max() / max(np.abs(wantN).max(), 1e-300))], \
                    ('C11-stress-ignores-NLterms' if not NL else None)
    return bad, ident


def chunk_lines(ctx, rng, n):
    """H: the chunking model on index lists; values are looked up from a single-core run of the real code"""
    cases = []
    for _ in range(n):
        case = gen(ctx, rng)
        if case['lean_model'] == 'PlateW':
            continue
        cases.append(case)
    lines = ['C11 chunk %d %d' % (c['cores'], len(c['xs'])) for c in cases]
    return cases, lines


def v_check(ctx, case, ir):
    """V: translated per-dof increments summed over the dofs vs the running kernels (single core)"""
    fns, consts = ir['CltW' if case['lean_model'] == 'PlateW' else 'Clt']
    p = pc.make_panel(case)
    pc.quiet(p.calc_k0, silent=True)
    num = consts.get('num', 3)
    c = np.array(case['c'])
    xs, ys = np.array(case['xs']), np.array(case['ys'])
    p.out_num_cores = 1
    got = p.uvw(c, xs=xs, ys=ys)
    m, n = p.m, p.n
    names = {'Clt': [('cfuvw', ['u', 'v', 'w']), ('cfwx', ['wx']), ('cfwy', ['wy'])],
             'CltW': [('cfw', ['w']), ('cfwx', ['wx']), ('cfwy', ['wy'])]}['CltW' if num == 1 else 'Clt']
    vals = {}
    for fname, _ in names:
        F = fns[fname]
        for (tgt, expr, cond, lineno) in F.accs:
            tot = np.zeros(len(xs))
            for k in range(len(xs)):
                xi, eta = 2 * xs[k] / p.a - 1, 2 * ys[k] / p.b - 1
                acc = 0.
                for j in range(n):
                    for i in range(m):
                        env = dict(a=p.a, b=p.b, r=p.r, NLterms=0, col=num * (j * m + i), i=i, j=j)
                        env['c'] = c
                        for vn, (d, pt, flags) in F.vecs.items():
                            fl = tuple(float(getattr(p, f)) for f in flags)
                            env[vn] = [bardell.phi(d, q_, fl, xi if pt == 'xi' else eta) for q_ in range(max(m, n))]
                        acc += eval_sub(expr, env)
                tot[k] = acc
            vals[tgt] = tot
    if num == 3:
        pairs = [('u', got[0]), ('v', got[1]), ('w', got[2]), ('wx', -got[3]), ('wy', -got[4])]
    else:
        pairs = [('w', got[2]), ('wx', -got[3]), ('wy', -got[4])]
    sc = max(np.abs(c).max(), 1e-300) * 10 / min(p.a, p.b, 1.)
    for k, g in pairs:
        if np.abs(np.ravel(g) - vals[k]).max() > 1e-9 * sc:
            return 'translated %s increments summed over the dofs differ from the running fuvw: max abs %.3e' % (
                k, np.abs(np.ravel(g) - vals[k]).max())
    return None


def eval_sub(e, env):
    import ast
    if isinstance(e, ast.Subscript):
        arr = env[e.value.id]
        idx = int(pyx.evaluate(e.slice, env))
        return arr[idx]
    if isinstance(e, ast.BinOp):
        a, b = eval_sub(e.left, env), eval_sub(e.right, env)
        return {ast.Add: lambda: a + b, ast.Sub: lambda: a - b, ast.Mult: lambda: a * b, ast.Div: lambda: a / b,
                ast.Pow: lambda: a ** b}[type(e.op)]()
    if isinstance(e, ast.UnaryOp):
        return -eval_sub(e.operand, env)
    return pyx.evaluate(e, env)


def assembly_slices(ctx, rng, t=None):
    """each group of an assembly is evaluated with that panel's own slice of the amplitude vector"""
    from compmech.panel.assembly import PanelAssembly
    cs = [pc.gen_panel_case(rng, models=('Plate',), max_mn=3, y12=False) for _ in range(rng.randint(2, 4))]
    ps = [pc.make_panel(c) for c in cs]
    for k, p in enumerate(ps):
        p.group = 'g%d' % k
        pc.quiet(p.calc_k0, silent=True)
    asm = PanelAssembly(ps)
    size = asm.get_size()
    c = np.array([rng.uniform(-1, 1) for _ in range(size)])
    strided = (rng.random() < 0.6) if t is None else (t % 2 == 0)
    if strided:
        # the caller's vector is a strided VIEW (a column of a C-ordered mode matrix, c[::2], ...): same numbers
        big = np.array([rng.uniform(-7, 7) for _ in range(2 * size)])
        big[::2] = c
        c = big[::2]
    k = rng.randrange(len(ps))
    res = asm.uvw(c, 'g%d' % k, gridx=3, gridy=3)
    p = ps[k]
    ref = pc.make_panel(cs[k])
    pc.quiet(ref.calc_k0, silent=True)
    xs, ys = np.meshgrid(np.linspace(0, p.a, 3), np.linspace(0, p.b, 3), copy=False)
    want = ref.uvw(c[p.col_start:p.col_end], xs=xs, ys=ys)
    got_w = res['w'][0] if isinstance(res, dict) else res[2][0]
    if np.abs(np.ravel(got_w) - np.ravel(want[2])).max() > 1e-12 * max(np.abs(want[2]).max(), 1e-300):
        return dict(panels=[(c_['m'], c_['n']) for c_ in cs], group=k, strided=strided), \
            'assembly.uvw for group %d does not use that panel\'s own slice of the amplitude vector' % k
    own = np.ascontiguousarray(np.array(c)[p.col_start:p.col_end])
    for what in ('strain', 'stress'):
        got = getattr(asm, what)(c, 'g%d' % k, gridx=3, gridy=3, NLterms=False)
        ref_ = getattr(ref, what)(own, xs=xs, ys=ys, NLterms=False)
        keys = ('exx', 'eyy', 'gxy', 'kxx', 'kyy', 'kxy') if what == 'strain' else ('Nxx', 'Nyy', 'Nxy', 'Mxx', 'Myy', 'Mxy')
        for key in keys:
            a1, a2 = np.ravel(got[key][0]), np.ravel(ref_[key])
            if a1.shape != a2.shape or np.abs(a1 - a2).max() > 1e-11 * max(np.abs(a2).max(), 1e-300):
                return dict(panels=[(c_['m'], c_['n']) for c_ in cs], group=k, strided=strided), \
                    ('assembly.%s for group %d (%s amplitude vector): %s differs from the panel\'s own evaluation with its own slice '
                     '(max abs diff %.3e of %.3e)' % (what, k, 'strided view of the' if strided else 'contiguous', key,
                                                      np.abs(a1 - a2).max() if a1.shape == a2.shape else float('nan'),
                                                      np.abs(a2).max()))
    return None, None


def correspondence(ctx):
    ir = translate(ctx)
    rng = ctx.rng
    # source reading of the def-level wrappers (fuvw / fg / fstrain incl. the pad / reshape / prange / ravel / trim logic) of the field modules:
    # the translator above covers the C-level cf* bodies, this covers the rest of the two files as written
    from tools import source_tie
    if source_tie.check(ctx, 'C11', ('panel_field',), predicate=source_field_predicate):
        return
    dist = dict(models={}, cores={}, npts={}, NL=0)
    for t in range(ctx.scale(40, 400)):
        case = gen(ctx, rng)
        ctx.evaluations += 1
        dist['models'][case['lean_model']] = dist['models'].get(case['lean_model'], 0) + 1
        dist['cores'][case['cores']] = dist['cores'].get(case['cores'], 0) + 1
        dist['npts'][len(case['xs'])] = dist['npts'].get(len(case['xs']), 0) + 1
        if case['m'] * case['n'] >= 4 and len(case['xs']) >= 5 and case['cores'] > 1:
            ctx.nontrivial.add((case['lean_model'], case['m'], case['n'], len(case['xs']), case['cores'], case['a']))
        ctx.sample(dict(model=case['lean_model'], m=case['m'], n=case['n'], npts=len(case['xs']), cores=case['cores']), limit=4)
        bad, ident = run_case(ctx, case, ir)
        if bad:
            if ctx.violation('C11 fails on the implementation: ' + bad[0], dict(case=case), identity=ident):
                return
        if t % 4 == 0:
            vb = v_check(ctx, case, ir)
            if vb:
                ctx.violation(vb, dict(case=case, tie='V field'), found_input=False)
                return
    # H: chunking model through the driver
    lines = []
    specs = []
    for _ in range(ctx.scale(40, 300)):
        cores, npts = rng.randint(1, 16), rng.choice([0, 1, 2, 3, 5, 7, 16, 17, 31, 33])
        lines.append('C11 chunk %d %d' % (cores, npts))
        specs.append((cores, npts))
    for (cores, npts), rep in zip(specs, driver(lines)):
        ctx.evaluations += 1
        want = ' '.join(str(k) for k in range(npts))
        if rep.strip() != ('ok ' + want).strip():
            ctx.violation('chunking model returned %r for %d points on %d cores' % (rep[:80], npts, cores),
                          dict(cores=cores, npts=npts), found_input=False)
            return
    for t in range(ctx.scale(4, 20)):
        c, bad = assembly_slices(ctx, rng, t)
        ctx.evaluations += 1
        if bad:
            ctx.violation('C11 fails on the implementation: ' + bad, dict(case=c, derived='assembly'))
            return
    ctx.cov['input_distribution'] = dist


def source_field_predicate(seed=11, n=10):
    """C11 ON THE SOURCE READING of the two field modules (tools/cyexec.py executes clt_bardell_field*.pyx as written): displacements and rotations
    against the Ritz series, linear strains against the Donnell relations, for point counts that are not multiples of the core count, m != n and
    edge flags that differ between the fields.  returns None or (text, replay dict)"""
    from tools import cyexec, cyexec_check as cc
    ext, how, so = cc.bardell_externs()
    try:
        for rel, ndof, lean_model in (('panel/models/clt_bardell_field.pyx', 3, 'Plate'), ('panel/models/clt_bardell_field_w.pyx', 1, 'PlateW')):
            try:
                ns = cyexec.load(cc.source(rel), repo=cc.REPO, externs=ext)
            except Exception as e:                          # noqa (unreadable source: reported by the comparison with the binary)
                continue
            r = np.random.RandomState(seed)
            for k in range(n):
                P = cc.Panel()
                P.a, P.b = float(r.uniform(.5, 3.)), float(r.uniform(.5, 3.))
                P.r = float(r.choice([0., r.uniform(1., 10.)])) if ndof == 3 else 0.
                P.alpharad = 0.
                P.m, P.n = [(4, 6), (7, 4), (5, 5), (3, 8), (6, 5)][k % 5]
                for w_ in 'uvw':
                    for e_ in ('1tx', '1rx', '2tx', '2rx', '1ty', '1ry', '2ty', '2ry'):
                        setattr(P, w_ + e_, float(r.randint(0, 2)))
                c = r.uniform(-1, 1, ndof * P.m * P.n)
                npts, ncores = [(13, 4), (7, 2), (3, 4), (10, 3), (11, 2), (8, 4)][k % 6]
                xs, ys = r.uniform(0, P.a, npts), r.uniform(0, P.b, npts)
                desc = dict(source=rel, a=P.a, b=P.b, r=P.r, m=P.m, n=P.n, points=npts, cores=ncores, seed=seed, case=k)
                want = series(P, dict(lean_model=lean_model), c, xs, ys)
                try:
                    out = [np.asarray(v) for v in ns['fuvw'](c, P, xs, ys, ncores)]
                except Exception as e:                      # noqa
                    return ('%s (source as written): fuvw raises %s: %s for m, n = %d, %d and %d points on %d cores'
                            % (rel, type(e).__name__, str(e)[:80], P.m, P.n, npts, ncores), desc)
                names = ['u', 'v', 'w', 'phix', 'phiy'] if len(out) == 5 else ['w', 'phix', 'phiy']
                refs = dict(u=want['u'], v=want['v'], w=want['w'], phix=-want['wx'], phiy=-want['wy'])
                for nm, got in zip(names, out):
                    sc = max(np.abs(refs[nm]).max(), 1e-300)
                    if got.shape != refs[nm].shape or np.abs(got - refs[nm]).max() > 1e-9 * sc:
                        kk = int(np.abs(got - refs[nm]).argmax()) if got.shape == refs[nm].shape else 0
                        return ('%s (source as written): %s at (x=%.6g, y=%.6g) is %.9e, the Ritz series gives %.9e (m, n = %d, %d; %d points on %d cores)'
                                % (rel, nm, xs[kk], ys[kk], got[kk] if got.shape == refs[nm].shape else float('nan'), refs[nm][kk], P.m, P.n, npts, ncores), desc)
                if 'fstrain' in ns and ndof == 3:
                    es = np.stack([np.asarray(v_) for v_ in ns['fstrain'](c, P, xs, ys, ncores, 0)], axis=1)      # (exx, eyy, gxy, kxx, kyy, kxy) arrays
                    ir_ = 1. / P.r if P.r else 0.
                    ref = np.stack([want['ux'], want['vy'] + ir_ * want['w'], want['uy'] + want['vx'], -want['wxx'], -want['wyy'], -2 * want['wxy']], axis=1)
                    sc = max(np.abs(ref).max(), 1e-300)
                    if es.shape != ref.shape or np.abs(es - ref).max() > 1e-9 * sc:
                        kk, q_ = np.unravel_index(np.abs(es - ref).argmax(), ref.shape) if es.shape == ref.shape else (0, 0)
                        return ('%s (source as written): linear strain component %s at (x=%.6g, y=%.6g) is %.9e, the Donnell relation applied to the series gives '
                                '%.9e' % (rel, ['exx', 'eyy', 'gxy', 'kxx', 'kyy', 'kxy'][q_], xs[kk], ys[kk], es[kk, q_], ref[kk, q_]), desc)
    finally:
        if so:
            try:
                os.remove(so)
            except OSError:
                pass
    return None


def search(ctx, reason):
    found = None
    try:
        found = source_field_predicate()
    except Exception as e:                                  # noqa
        ctx.log('source-level predicate unusable: %r' % (e,))
    if found:
        ctx.violation('C11 fails on the source as written: ' + found[0] + ' (the running binary is stale w.r.t. this source if the implementation '
                      'arm stays quiet)', dict(kind='source reading', broken=reason, **found[1]))
        return True
    try:
        ir = translate(ctx)
    except Exception as e:
        ctx.log('translator unusable: %s' % e)
        ir = None
    for t in range(ctx.scale(40, 200)):
        case = gen(ctx, ctx.rng)
        ctx.evaluations += 1
        bad, ident = run_case(ctx, case, ir)
        if bad and ctx.violation('C11 fails on the implementation: ' + bad[0], dict(case=case, broken=reason), identity=ident):
            return True
    return False


def replay(ctx, data):
    r = data['replay']
    if r.get('case') and not r.get('derived'):
        bad, ident = run_case(ctx, r['case'], translate(ctx))
        print('property on implementation:', bad, ident)
        return 1 if bad else 0
    print('replay:', data['what'])
    return 1
