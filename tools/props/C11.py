"""C11 — recovered displacement / strain / stress fields match the Ritz series and the Donnell kinematics.
T: Gen/Field/*.lean regenerated from clt_bardell_field*.pyx (per point, per dof increments); Props/C11.lean re-checked.
V: the translated increments summed over the degrees of freedom vs the running fuvw / fstrain.
H: Model/Chunking.lean (pad / reshape / map / ravel / trim) vs the running wrappers for 1..16 cores (driver);
   Model/FieldGlue.lean (Python glue of Panel.uvw / strain / stress and PanelAssembly.uvw / strain / stress) vs the running glue:
   recorded calls of the compiled fuvw / fstrain, result shapes / arrangement, stored attributes, exceptions (field_glue_correspondence).
Implementation arm: exact series / Donnell oracle vs Panel.uvw, Panel.strain, Panel.stress, PanelAssembly slices.
"""
import os

import numpy as np

from tools import bardell, panel_v
from tools.common import driver
from tools.props import panel_common as pc
from tools.translate import gen_field, pyx

TRUSTED = pc.TRUSTED_T + [
    'tools/cyexec.py (Cython-subset source executor, validated by its --selftest and by bit-identical agreement with the binaries on the unchanged tree): the source reading of the hand-written .pyx/.pxi files',
    'hand model lean/CompmechVerif/Model/Chunking.lean of the pad/reshape/prange/ravel/trim logic of fuvw/fstrain '
    '(tied by the driver correspondence for core counts 1..16)',
    'hand model lean/CompmechVerif/Model/FieldGlue.lean of the Python glue of the field queries (points from xs, ys / gridx, gridy; slices, group '
    'filter and col_start / col_end of an assembly; reshape, stored attributes, exceptions), tied by the recorded-call correspondence '
    'field_glue_correspondence (every executable line of the modelled functions must be reached by its corpus)',
    'OpenMP scheduling / data races cannot be exhibited by the model: identical outputs across core counts are required '
    'by the harness as supporting evidence only',
]
ASSUMPTIONS = ['conical panels are rejected by fstrain (NotImplementedError): outside C11',
               'the length of c is checked by none of Panel.uvw / strain / stress, PanelAssembly.uvw / strain / stress (no check_c; the compiled '
               'wrappers are built with boundscheck=False): a vector that is too short is read out of bounds; the glue model hands c over as it '
               'is and the correspondence never lets the compiled code run on such a vector',
               'stress = F * strain: Panel.stress is plain Python; Props/C11 stress_eq_F_strain / stress_nlterms_forwarded / '
               'stress_linear_eq_F_donnell are theorems about the hand model panelStress of Model/Chunking.lean, which has no driver: its tie '
               'to the running code is the numerical clause below (stress resultants vs F times the strains of the same NLterms option)']
RULE = ('random flat / cylindrical panels (m,n 1..4, generic flags), random amplitude vectors, scattered / gridded / edge '
        'point sets whose size is not a multiple of the core count, 1..16 cores, linear and non-linear strain options, '
        'panels inside assemblies; non-trivial = m*n >= 4 and >= 5 points and cores > 1; distinct by case parameters.  Glue corpus: panel '
        'queries (uvw / strain / stress) with scalars, lists, 1-d / 2-d / Fortran-ordered arrays, permuted and duplicated points, empty arrays, grids '
        '(incl. counts 0 and negative), one of xs / ys missing, mismatching shapes; c as array, list, strided view, 0-d, 2-d, short, long; models incl. '
        'the one-field one, None and unknown; assemblies of 2-4 panels in 1-3 groups with different m, n, missing F, absent group, overwritten '
        'col_start / col_end; compiled or fake kernels; non-trivial = >= 4 points resp. >= 2 panels in the queried group')


def translate(ctx):
    if not hasattr(ctx, '_field_ir'):
        ctx._field_ir = gen_field.translate_all()
    return ctx._field_ir


def gen(ctx, rng):
    case = pc.gen_panel_case(rng, models=('Plate', 'CPanel', 'PlateW'), max_mn=4, y12=False)
    npts = rng.choice([1, 2, 3, 5, 7, 11, 16, 17, 33])
    kind = rng.choice(['scattered', 'edges', 'grid'])
    if kind == 'grid':
        k = rng.choice([2, 3, 4])
        xs = np.repeat(np.linspace(0, case['a'], k), k)
        ys = np.tile(np.linspace(0, case['b'], k), k)
    else:
        xs = np.array([rng.choice([0., case['a']]) if kind == 'edges' and rng.random() < 0.5 else rng.uniform(0, case['a'])
                       for _ in range(npts)])
        ys = np.array([rng.choice([0., case['b']]) if kind == 'edges' and rng.random() < 0.5 else rng.uniform(0, case['b'])
                       for _ in range(npts)])
    num = 1 if case['lean_model'] == 'PlateW' else 3
    c = np.array([rng.uniform(-1, 1) * 1e-3 for _ in range(num * case['m'] * case['n'])])
    case.update(xs=xs.tolist(), ys=ys.tolist(), c=c.tolist(), cores=rng.randint(1, 16), NL=rng.random() < 0.5)
    return case


def series(p, case, c, xs, ys):
    """exact series / Donnell strains (with the TRUE quadratic terms when NL)"""
    num = 1 if case['lean_model'] == 'PlateW' else 3
    m, n = p.m, p.n
    fl = {f: (panel_v.panel_flags(p, f, 'x'), panel_v.panel_flags(p, f, 'y')) for f in 'uvw'}
    out = {k: np.zeros(len(xs)) for k in ('u', 'v', 'w', 'wx', 'wy', 'ux', 'uy', 'vx', 'vy', 'wxx', 'wyy', 'wxy')}
    xi = 2 * np.asarray(xs) / p.a - 1
    eta = 2 * np.asarray(ys) / p.b - 1
    for j in range(n):
        for i in range(m):
            col = num * (j * m + i)
            amp = {'w': c[col + num - 1]}
            if num == 3:
                amp['u'], amp['v'] = c[col], c[col + 1]
            for f, cf in amp.items():
                f0 = bardell.phi(0, i, fl[f][0], xi); f1 = bardell.phi(1, i, fl[f][0], xi); f2 = bardell.phi(2, i, fl[f][0], xi)
                g0 = bardell.phi(0, j, fl[f][1], eta); g1 = bardell.phi(1, j, fl[f][1], eta); g2 = bardell.phi(2, j, fl[f][1], eta)
                out[f] += cf * f0 * g0
                out[f + 'x'] += cf * f1 * g0 * 2 / p.a
                out[f + 'y'] += cf * f0 * g1 * 2 / p.b
                if f == 'w':
                    out['wxx'] += cf * f2 * g0 * 4 / p.a ** 2
                    out['wyy'] += cf * f0 * g2 * 4 / p.b ** 2
                    out['wxy'] += cf * f1 * g1 * 4 / (p.a * p.b)
    return out


def run_case(ctx, case, ir):
    p = pc.make_panel(case)
    pc.quiet(p.calc_k0, silent=True)
    c = np.array(case['c'])
    xs, ys = np.array(case['xs']), np.array(case['ys'])
    p.out_num_cores = case['cores']
    u, v, w, phix, phiy = p.uvw(c, xs=xs, ys=ys)
    s = series(p, case, c, xs, ys)
    scale = max(np.abs(c).max(), 1e-300)
    bad = []
    ident = None

    def cmp(name, got, want, sc):
        if np.abs(np.ravel(got) - want).max() > 1e-9 * sc:
            bad.append('%s differs from the series/kinematics: max abs diff %.3e (scale %.3e)' % (
                name, np.abs(np.ravel(got) - want).max(), sc))
    if case['lean_model'] != 'PlateW':
        cmp('u', u, s['u'], scale); cmp('v', v, s['v'], scale)
    cmp('w', w, s['w'], scale)
    cmp('phix', phix, -s['wx'], scale / p.a * 10); cmp('phiy', phiy, -s['wy'], scale / p.b * 10)
    # thread independence: every core count gives the array of 1 core
    p.out_num_cores = 1
    ref = p.uvw(c, xs=xs, ys=ys)
    p.out_num_cores = case['cores']
    again = p.uvw(c, xs=xs, ys=ys)
    for k, (a1, a2) in enumerate(zip(ref, again)):
        if not np.array_equal(np.ravel(a1), np.ravel(a2)):
            bad.append('uvw component %d differs between 1 and %d worker threads' % (k, case['cores']))
    if bad or case['lean_model'] == 'PlateW':
        return bad, ident
    # strains (flat and cylindrical three-field models)
    for NL in (False, True):
        res = p.strain(c, xs=xs, ys=ys, NLterms=NL)
        rinv = 1. / p.r if p.r else 0.
        want = dict(exx=s['ux'], eyy=s['vy'] + rinv * s['w'], gxy=s['uy'] + s['vx'], kxx=-s['wxx'], kyy=-s['wyy'], kxy=-2 * s['wxy'])
        if NL:
            want['exx'] = want['exx'] + 0.5 * s['wx'] ** 2
            want['eyy'] = want['eyy'] + 0.5 * s['wy'] ** 2
            want['gxy'] = want['gxy'] + s['wx'] * s['wy']
        sc = {'exx': scale / p.a, 'eyy': scale / p.b + scale * abs(rinv), 'gxy': scale / min(p.a, p.b),
              'kxx': scale / p.a ** 2, 'kyy': scale / p.b ** 2, 'kxy': scale / (p.a * p.b)}
        for k in want:
            if np.abs(np.ravel(res[k]) - want[k]).max() > 1e-8 * 10 * sc[k]:
                if NL and k in ('exx', 'eyy', 'gxy'):
                    ident = 'C11-nl-terms-sum-of-squares'
                    bad.append('strain %s with the quadratic slope terms differs from the Donnell relation of the whole series '
                               '(max abs diff %.3e; the kernel adds the square of each term instead of the square of the sum)'
                               % (k, np.abs(np.ravel(res[k]) - want[k]).max()))
                    break
                bad.append('strain %s (NLterms=%s) differs from the Donnell relations: max abs diff %.3e'
                           % (k, NL, np.abs(np.ravel(res[k]) - want[k]).max()))
        if bad:
            return bad, ident
        # stress = F * strain of the same option
        st = p.stress(c, xs=xs, ys=ys, NLterms=NL)
        F = p.F
        E = np.vstack([np.ravel(res[k]) for k in ('exx', 'eyy', 'gxy', 'kxx', 'kyy', 'kxy')])
        for row, k in enumerate(('Nxx', 'Nyy', 'Nxy', 'Mxx', 'Myy', 'Mxy')):
            wantN = F[row] @ E
            if np.abs(np.ravel(st[k]) - wantN).max() > 1e-9 * max(np.abs(wantN).max(), 1e-300):
                return ['stress resultant %s with NLterms=%s is not the laminate matrix times the strains of the same option '
                        '(max rel diff %.3e)' % (k, NL, np.abs(np.ravel(st[k]) - wantN).max() / max(np.abs(wantN).max(), 1e-300))], \
                    ('C11-stress-ignores-NLterms' if not NL else None)
    return bad, ident


def chunk_lines(ctx, rng, n):
    """H: the chunking model on index lists; values are looked up from a single-core run of the real code"""
    cases = []
    for _ in range(n):
        case = gen(ctx, rng)
        if case['lean_model'] == 'PlateW':
            continue
        cases.append(case)
    lines = ['C11 chunk %d %d' % (c['cores'], len(c['xs'])) for c in cases]
    return cases, lines


def v_check(ctx, case, ir):
    """V: translated per-dof increments summed over the dofs vs the running kernels (single core)"""
    fns, consts = ir['CltW' if case['lean_model'] == 'PlateW' else 'Clt']
    p = pc.make_panel(case)
    pc.quiet(p.calc_k0, silent=True)
    num = consts.get('num', 3)
    c = np.array(case['c'])
    xs, ys = np.array(case['xs']), np.array(case['ys'])
    p.out_num_cores = 1
    got = p.uvw(c, xs=xs, ys=ys)
    m, n = p.m, p.n
    names = {'Clt': [('cfuvw', ['u', 'v', 'w']), ('cfwx', ['wx']), ('cfwy', ['wy'])],
             'CltW': [('cfw', ['w']), ('cfwx', ['wx']), ('cfwy', ['wy'])]}['CltW' if num == 1 else 'Clt']
    vals = {}
    for fname, _ in names:
        F = fns[fname]
        for (tgt, expr, cond, lineno) in F.accs:
            tot = np.zeros(len(xs))
            for k in range(len(xs)):
                xi, eta = 2 * xs[k] / p.a - 1, 2 * ys[k] / p.b - 1
                acc = 0.
                for j in range(n):
                    for i in range(m):
                        env = dict(a=p.a, b=p.b, r=p.r, NLterms=0, col=num * (j * m + i), i=i, j=j)
                        env['c'] = c
                        for vn, (d, pt, flags) in F.vecs.items():
                            fl = tuple(float(getattr(p, f)) for f in flags)
                            env[vn] = [bardell.phi(d, q_, fl, xi if pt == 'xi' else eta) for q_ in range(max(m, n))]
                        acc += eval_sub(expr, env)
                tot[k] = acc
            vals[tgt] = tot
    if num == 3:
        pairs = [('u', got[0]), ('v', got[1]), ('w', got[2]), ('wx', -got[3]), ('wy', -got[4])]
    else:
        pairs = [('w', got[2]), ('wx', -got[3]), ('wy', -got[4])]
    sc = max(np.abs(c).max(), 1e-300) * 10 / min(p.a, p.b, 1.)
    for k, g in pairs:
        if np.abs(np.ravel(g) - vals[k]).max() > 1e-9 * sc:
            return 'translated %s increments summed over the dofs differ from the running fuvw: max abs %.3e' % (
                k, np.abs(np.ravel(g) - vals[k]).max())
    return None


def eval_sub(e, env):
    import ast
    if isinstance(e, ast.Subscript):
        arr = env[e.value.id]
        idx = int(pyx.evaluate(e.slice, env))
        return arr[idx]
    if isinstance(e, ast.BinOp):
        a, b = eval_sub(e.left, env), eval_sub(e.right, env)
        return {ast.Add: lambda: a + b, ast.Sub: lambda: a - b, ast.Mult: lambda: a * b, ast.Div: lambda: a / b,
                ast.Pow: lambda: a ** b}[type(e.op)]()
    if isinstance(e, ast.UnaryOp):
        return -eval_sub(e.operand, env)
    return pyx.evaluate(e, env)


def assembly_slices(ctx, rng, t=None):
    """each group of an assembly is evaluated with that panel's own slice of the amplitude vector"""
    from compmech.panel.assembly import PanelAssembly
    cs = [pc.gen_panel_case(rng, models=('Plate',), max_mn=3, y12=False) for _ in range(rng.randint(2, 4))]
    ps = [pc.make_panel(c) for c in cs]
    for k, p in enumerate(ps):
        p.group = 'g%d' % k
        pc.quiet(p.calc_k0, silent=True)
    asm = PanelAssembly(ps)
    size = asm.get_size()
    c = np.array([rng.uniform(-1, 1) for _ in range(size)])
    strided = (rng.random() < 0.6) if t is None else (t % 2 == 0)
    if strided:
        # the caller's vector is a strided VIEW (a column of a C-ordered mode matrix, c[::2], ...): same numbers
        big = np.array([rng.uniform(-7, 7) for _ in range(2 * size)])
        big[::2] = c
        c = big[::2]
    k = rng.randrange(len(ps))
    res = asm.uvw(c, 'g%d' % k, gridx=3, gridy=3)
    p = ps[k]
    ref = pc.make_panel(cs[k])
    pc.quiet(ref.calc_k0, silent=True)
    xs, ys = np.meshgrid(np.linspace(0, p.a, 3), np.linspace(0, p.b, 3), copy=False)
    want = ref.uvw(c[p.col_start:p.col_end], xs=xs, ys=ys)
    got_w = res['w'][0] if isinstance(res, dict) else res[2][0]
    if np.abs(np.ravel(got_w) - np.ravel(want[2])).max() > 1e-12 * max(np.abs(want[2]).max(), 1e-300):
        return dict(panels=[(c_['m'], c_['n']) for c_ in cs], group=k, strided=strided), \
            'assembly.uvw for group %d does not use that panel\'s own slice of the amplitude vector' % k
    own = np.ascontiguousarray(np.array(c)[p.col_start:p.col_end])
    for what in ('strain', 'stress'):
        got = getattr(asm, what)(c, 'g%d' % k, gridx=3, gridy=3, NLterms=False)
        ref_ = getattr(ref, what)(own, xs=xs, ys=ys, NLterms=False)
        keys = ('exx', 'eyy', 'gxy', 'kxx', 'kyy', 'kxy') if what == 'strain' else ('Nxx', 'Nyy', 'Nxy', 'Mxx', 'Myy', 'Mxy')
        for key in keys:
            a1, a2 = np.ravel(got[key][0]), np.ravel(ref_[key])
            if a1.shape != a2.shape or np.abs(a1 - a2).max() > 1e-11 * max(np.abs(a2).max(), 1e-300):
                return dict(panels=[(c_['m'], c_['n']) for c_ in cs], group=k, strided=strided), \
                    ('assembly.%s for group %d (%s amplitude vector): %s differs from the panel\'s own evaluation with its own slice '
                     '(max abs diff %.3e of %.3e)' % (what, k, 'strided view of the' if strided else 'contiguous', key,
                                                      np.abs(a1 - a2).max() if a1.shape == a2.shape else float('nan'),
                                                      np.abs(a2).max()))
    return None, None


# ----------------------------------------------------------------------------- H: glue of the field queries (Model/FieldGlue.lean)
FG_TAG = {'plate_clt_donnell_bardell': 'plate', 'plate_clt_donnell_bardell_w': 'platew', 'cpanel_clt_donnell_bardell': 'cpanel',
          'kpanel_clt_donnell_bardell': 'kpanel'}
FG_NUM = {'plate': 3, 'platew': 1, 'cpanel': 3, 'kpanel': 3}
FG_UVW = ('u', 'v', 'w', 'phix', 'phiy')
FG_E = ('exx', 'eyy', 'gxy', 'kxx', 'kyy', 'kxy')
FG_N = ('Nxx', 'Nyy', 'Nxy', 'Mxx', 'Myy', 'Mxy')


def fake_F(pid):
    """`fakeF` of Drv/C11.lean"""
    return np.array([[(pid + 1) + 2. * r + q_ / 4. for q_ in range(6)] for r in range(6)])


def _hsum(c):
    return float(sum((i + 1) * float(x) for i, x in enumerate(c)))


def fake_uvw(fm, pid, c, xs, ys):
    """`fake.uvw` of Drv/C11.lean on whole arrays (exact in floating point for the dyadic inputs of the corpus)"""
    one = np.ones(len(xs))
    return (xs + pid, 2. * ys + (0.5 if fm == 'cltW' else 0.), _hsum(c) * one, float(len(c)) * one, xs - 3. * ys)


def fake_strain(pid, c, xs, ys, nl):
    one = np.ones(len(xs))
    return (xs + pid, ys.copy(), _hsum(c) * one, float(nl) * one, float(len(c)) * one, xs - 3. * ys)


class _FieldRec(object):
    """stands in for `modelDB.db[model]['field']`: records every call of fuvw / fstrain (copies of what the compiled function would see) and
    either lets the compiled function run or returns the fake values"""

    def __init__(self, real, log, state):
        self._real, self._log, self._state = real, log, state
        self._fm = 'cltW' if real.__name__.endswith('_w') else 'clt'

    def __getattr__(self, nm):
        f = getattr(self._real, nm)                 # AttributeError for `fstrain` of clt_bardell_field_w, as for the real module
        if nm not in ('fuvw', 'fstrain'):
            return f

        def rec(c, p, xs, ys, num_cores=4, NLterms=0):
            c_ = np.asarray(c)
            e = dict(fn=nm, fm=self._fm, pid=getattr(p, '_fg_id', -1), cores=int(num_cores), nl=int(NLterms), cndim=c_.ndim,
                     c=np.array(c_, dtype=float).ravel().copy(), xs=np.array(xs, dtype=float).copy(), ys=np.array(ys, dtype=float).copy())
            if c_.ndim != 1:                        # the typed-memoryview signature `double [:] c` rejects the call: the body never runs
                raise ValueError('Buffer has wrong number of dimensions (expected 1, got %d)' % c_.ndim)
            self._log.append(e)
            need = (1 if self._fm == 'cltW' else 3) * p.m * p.n
            if self._state['real'] and len(c_) >= need:
                out = f(c, p, xs, ys, num_cores) if nm == 'fuvw' else f(c, p, xs, ys, num_cores, NLterms)
            elif nm == 'fuvw':
                out = fake_uvw(self._fm, e['pid'], e['c'], e['xs'], e['ys'])
            else:
                out = fake_strain(e['pid'], e['c'], e['xs'], e['ys'], e['nl'])
            e['out'] = [np.array(o, dtype=float).copy() for o in out]
            return out
        return rec


class _fg_install(object):
    def __init__(self, log, real):
        self.log, self.state, self.saved = log, dict(real=real), {}

    def __enter__(self):
        from compmech.panel import modelDB
        for name, ent in modelDB.db.items():
            self.saved[name] = ent['field']
            ent['field'] = _FieldRec(ent['field'], self.log, self.state)
        return self

    def __exit__(self, *a):
        from compmech.panel import modelDB
        for name, v in self.saved.items():
            modelDB.db[name]['field'] = v


def _dy(rng, lo, hi, den):
    """a multiple of 1/den in [lo, hi]"""
    return rng.randint(int(lo * den), int(hi * den)) / float(den)


def fg_make_panel(rng, spec, pid, real):
    """a Panel for the glue corpus; `spec` = dict(model, m, n, a, b, cores, F)"""
    from compmech.panel import Panel
    mtag = spec['model']
    name = {v: k for k, v in FG_TAG.items()}.get(mtag)
    kw = dict(a=spec['a'], b=spec['b'], stack=[0, 90], plyt=1e-3, laminaprop=(142.5e9, 8.7e9, 0.28, 5.1e9, 5.1e9, 5.1e9), m=spec['m'], n=spec['n'])
    if mtag in ('cpanel', 'kpanel'):
        kw['r'] = 3.
    if mtag == 'kpanel':
        kw['alphadeg'] = 10.
    p = Panel(**kw)
    for f_ in 'uvw':                                          # all edges free: with m, n <= 4 every other choice switches whole fields off
        for e_ in ('1tx', '1rx', '2tx', '2rx', '1ty', '1ry', '2ty', '2ry'):
            setattr(p, f_ + e_, 1.)
    if real and name is not None:
        p.model = name
        pc.quiet(p.calc_k0, silent=True)                      # r, alpharad as the compiled code reads them
    p.model = name if name is not None else (None if mtag == 'unset' else 'no_such_model')
    p.out_num_cores = spec['cores']
    p.F = fake_F(pid) if spec['F'] else None
    p._fg_id = pid
    p.u = p.v = p.w = p.phix = p.phiy = p.Xs = p.Ys = None
    return p


def fg_gen_c(rng, kind, size):
    """(python object handed over as `c`, driver text)"""
    from tools.common import q
    n = {'short': max(size - rng.randint(1, 3), 0), 'long': size + rng.randint(1, 4)}.get(kind, size)
    v = np.array([_dy(rng, -1, 1, 64) for _ in range(n)])
    if kind == 'scalar':
        x = _dy(rng, -1, 1, 64)
        return np.array(x), 's ' + q(x)
    if kind == '2d':
        return np.array([[_dy(rng, -1, 1, 64) for _ in range(2)] for _ in range(size)]), 'nd'
    txt = 'v ' + ' '.join(q(x) for x in v)
    if kind == 'list':
        return [float(x) for x in v], txt
    if kind == 'strided':
        big = np.array([_dy(rng, -3, 3, 64) for _ in range(2 * n)])
        big[::2] = v
        return big[::2], txt
    return v, txt


def fg_arr_txt(x):
    from tools.common import q
    if x is None:
        return '-'
    A = np.array(x, dtype=float)
    return ' '.join(str(d) for d in A.shape) + ' : ' + ' '.join(q(v) for v in A.ravel())


def fg_gen_points(rng, a, b):
    """(kind, xs, ys, gridx, gridy): the python objects handed over"""
    kind = rng.choice(['scalar', 'list', 'array1d', 'array2d', 'array2d_T', 'perm_dup', 'grid', 'grid', 'one_none', 'mismatch', 'neg_grid', 'empty'])
    gx, gy = rng.choice([1, 2, 3, 4, 5]), rng.choice([1, 2, 3, 4])
    if rng.random() < 0.1:
        gx = rng.choice([0, 9])
    px = lambda: _dy(rng, 0, a, 8)
    py = lambda: _dy(rng, 0, b, 8)
    n = rng.choice([1, 2, 3, 5, 7])
    if kind == 'scalar':
        return kind, px(), py(), gx, gy
    if kind == 'list':
        return kind, [px() for _ in range(n)], [py() for _ in range(n)], gx, gy
    if kind == 'array1d':
        return kind, np.array([px() for _ in range(n)]), np.array([py() for _ in range(n)]), gx, gy
    if kind in ('array2d', 'array2d_T'):
        r_, c_ = rng.choice([(2, 3), (3, 2), (1, 4), (2, 2)])
        X = np.array([[px() for _ in range(c_)] for _ in range(r_)])
        Y = np.array([[py() for _ in range(c_)] for _ in range(r_)])
        if kind == 'array2d_T':
            return kind, np.array(X.T, order='C').T, np.array(Y.T, order='C').T, gx, gy          # same numbers, Fortran-ordered memory
        return kind, X, Y, gx, gy
    if kind == 'perm_dup':
        base = [(px(), py()) for _ in range(n)]
        idx = [rng.randrange(n) for _ in range(rng.randint(1, 2 * n))]
        rng.shuffle(idx)
        return kind, np.array([base[i][0] for i in idx]), np.array([base[i][1] for i in idx]), gx, gy
    if kind == 'grid':
        return kind, None, None, gx, gy
    if kind == 'one_none':
        return (kind, np.array([px()]), None, gx, gy) if rng.random() < 0.5 else (kind, None, [py(), py()], gx, gy)
    if kind == 'mismatch':
        return rng.choice([(kind, [px(), px()], [py()], gx, gy), (kind, np.ones((2, 3)), np.ones((3, 2)), gx, gy), (kind, np.ones((2, 3)), np.ones(6), gx, gy),
                           (kind, px(), [py(), py()], gx, gy)])
    if kind == 'neg_grid':
        return (kind, None, None, -1, gy) if rng.random() < 0.5 else (kind, None, None, gx, -2)
    return kind, np.zeros(0), np.zeros(0), gx, gy


def fg_gen_pcase(rng, t):
    mtag = rng.choice(['plate'] * 7 + ['cpanel'] * 6 + ['platew'] * 3 + ['kpanel', 'unset', 'invalid'])
    spec = dict(model=mtag, m=rng.randint(1, 4), n=rng.randint(1, 4), a=_dy(rng, 0.5, 3, 8), b=_dy(rng, 0.5, 3, 8), cores=rng.randint(1, 6),
                F=rng.random() < 0.75)
    meth = rng.choice(['uvw', 'uvw', 'strain', 'stress', 'stress'])
    ckind = rng.choice(['ok'] * 8 + ['list', 'strided', 'scalar', '2d', 'short', 'long'])
    real = rng.random() < 0.5 and mtag in ('plate', 'cpanel', 'platew') and ckind not in ('short', 'scalar')
    return dict(kind='panel', spec=spec, meth=meth, ckind=ckind, real=real, nl=rng.random() < 0.5, Farg=rng.random() < 0.3, seed=rng.randrange(10 ** 9))


def fg_gen_acase(rng, t):
    npan = rng.randint(2, 4)
    labels = ['A', 'B', 'C'][:rng.randint(1, 3)]
    specs = []
    for k in range(npan):
        mtag = rng.choice(['plate'] * 6 + ['cpanel'] * 5 + ['platew', 'unset'])
        specs.append(dict(model=mtag, m=rng.randint(1, 4), n=rng.randint(1, 4), a=_dy(rng, 0.5, 3, 8), b=_dy(rng, 0.5, 3, 8), cores=rng.randint(1, 6),
                          F=rng.random() < 0.88, group=rng.choice(labels)))
    meth = rng.choice(['uvw', 'strain', 'stress'])
    ckind = rng.choice(['ok'] * 6 + ['strided', 'strided', 'list', 'scalar', '2d', 'short', 'long'])
    real = rng.random() < 0.5 and ckind not in ('short', 'scalar')
    gx, gy = rng.choice([1, 2, 3, 4, 5]), rng.choice([1, 2, 3, 4])
    r_ = rng.random()
    if r_ < 0.06:
        gx = -1
    elif r_ < 0.12:
        gy = 0
    return dict(kind='assembly', specs=specs, meth=meth, ckind=ckind, real=real, nl=rng.random() < 0.5, gx=gx, gy=gy, acores=rng.randint(1, 6),
                group=rng.choice(labels + ['Z']) if rng.random() < 0.15 else rng.choice(labels), tamper=rng.choice([None] * 8 + ['none', 'shift']),
                seed=rng.randrange(10 ** 9))


def _fg_ptxt(p, spec, group=0):
    from tools.common import q
    st = p.__dict__
    return ('model=%s a=%s b=%s m=%d n=%d cores=%d id=%d F=%d group=%d cs=%s ce=%s'
            % (spec['model'], q(p.a), q(p.b), p.m, p.n, p.out_num_cores, p._fg_id, p.F is not None, group,
               '-' if st.get('col_start') is None else st['col_start'], '-' if st.get('col_end') is None else st['col_end']))


def fg_run(g, tracer=None):
    """runs the real glue on one case of the corpus; returns dict(line, log, outcome, ...)"""
    import contextlib
    import random as _random
    rng = _random.Random(g['seed'])
    log = []
    glabel = {'A': 1, 'B': 2, 'C': 3, 'Z': 26}
    tr = tracer if tracer is not None else contextlib.nullcontext()
    if g['kind'] == 'panel':
        spec = g['spec']
        p = fg_make_panel(rng, spec, rng.randint(0, 9), g['real'])
        size = FG_NUM.get(spec['model'], 3) * p.m * p.n
        c, ctxt = fg_gen_c(rng, g['ckind'], size)
        pk, xs, ys, gx, gy = fg_gen_points(rng, p.a, p.b)
        Farg = fake_F(p._fg_id + 100) if g['Farg'] else None
        line = 'C11 pfield %s | %s | gridx=%d gridy=%d nl=%d Farg=%d | %s | %s | %s' % (
            g['meth'], _fg_ptxt(p, spec), gx, gy, g['nl'], g['Farg'], ctxt, fg_arr_txt(xs), fg_arr_txt(ys))
        with _fg_install(log, g['real']):
            try:
                with tr:
                    if g['meth'] == 'uvw':
                        ret = p.uvw(c, xs=xs, ys=ys, gridx=gx, gridy=gy)
                    elif g['meth'] == 'strain':
                        ret = p.strain(c, xs=xs, ys=ys, gridx=gx, gridy=gy, NLterms=g['nl'])
                    else:
                        ret = p.stress(c, F=Farg, xs=xs, ys=ys, gridx=gx, gridy=gy, NLterms=g['nl'])
                outcome = ('ok', ret)
            except Exception as e:                               # noqa
                outcome = ('err', type(e).__name__, str(e))
        return dict(line=line, log=log, outcome=outcome, p=p, given=xs is not None and ys is not None, pkind=pk, Farg=Farg,
                    scale=max(abs(p.a), abs(p.b), 1.))
    from compmech.panel.assembly import PanelAssembly
    ps = [fg_make_panel(rng, s_, k, g['real']) for k, s_ in enumerate(g['specs'])]
    for p, s_ in zip(ps, g['specs']):
        p.group = s_['group']
    with tr:
        asm = PanelAssembly(ps)
        size = asm.get_size()
    init_line = 'C11 ainit ' + ' '.join('%d,%d' % (p.m, p.n) for p in ps)
    ranges = ' '.join('%s:%s' % (p.col_start, p.col_end) for p in ps) + ' | %d' % size
    init = 1
    if g['tamper'] == 'none':
        k = rng.randrange(len(ps))
        ps[k].col_start = ps[k].col_end = None
        init = 0
    elif g['tamper'] == 'shift':
        k = rng.randrange(len(ps))
        ps[k].col_start, ps[k].col_end = ps[k].col_start + 1, ps[k].col_end + 2
        init = 0
    asm.out_num_cores = g['acores']
    c, ctxt = fg_gen_c(rng, g['ckind'], size)
    ptxt = ' ; '.join(_fg_ptxt(p, s_, glabel[s_['group']]) if not init else
                      _fg_ptxt(p, s_, glabel[s_['group']]).rsplit(' cs=', 1)[0] + ' cs=- ce=-' for p, s_ in zip(ps, g['specs']))
    line = 'C11 afield %s | cores=%d init=%d | %s | group=%d gridx=%d gridy=%d nl=%d | %s' % (
        g['meth'], g['acores'], init, ptxt, glabel[g['group']], g['gx'], g['gy'], g['nl'], ctxt)
    with _fg_install(log, g['real']):
        try:
            with tr:
                if g['meth'] == 'uvw':
                    ret = asm.uvw(c, g['group'], gridx=g['gx'], gridy=g['gy'])
                else:
                    ret = getattr(asm, g['meth'])(c, g['group'], gridx=g['gx'], gridy=g['gy'], NLterms=g['nl'])
            outcome = ('ok', ret)
        except Exception as e:                                   # noqa
            outcome = ('err', type(e).__name__, str(e))
    return dict(line=line, log=log, outcome=outcome, ps=ps, init_line=init_line, ranges=ranges, c=c, size=size,
                scale=max([1.] + [abs(p.a) for p in ps] + [abs(p.b) for p in ps]))


def _fg_parse_arr(txt):
    """`d0 d1 : q q q` -> (shape tuple, [Fraction]) ; `-` -> None"""
    from tools.common import unq
    txt = txt.strip()
    if txt == '-':
        return None
    sh, da = txt.split(':')
    return tuple(int(x) for x in sh.split()), [unq(x) for x in da.split()]


def _fg_vals_bad(name, got, want, scale, exact):
    """floats `got` (any shape, C order) against the model's Fractions"""
    from fractions import Fraction
    g_ = np.asarray(got, dtype=float).ravel()
    if len(g_) != len(want):
        return '%s has %d entries, the model %d' % (name, len(g_), len(want))
    tol = Fraction(0) if exact else Fraction(scale) * Fraction(1, 2 ** 44)
    for k, (x, y) in enumerate(zip(g_, want)):
        if not np.isfinite(x) or abs(Fraction(float(x)) - y) > tol:
            return '%s[%d] is %r, the model gives %s = %r' % (name, k, float(x), y, float(y))
    return None


def _fg_call_bad(e, txt, given, scale):
    """one recorded call against `<fn> <mod> <id> <cores> <nl> ; <c> ; <xs> ; <ys>`"""
    from tools.common import unq
    head, c_, xs_, ys_ = [x.strip() for x in txt.split(';')[:4]]
    fn, fm, pid, cores, nl = head.split()
    got = (e['fn'], e['fm'], e['pid'], e['cores'], e['nl'])
    want = (fn, fm, int(pid), int(cores), int(nl))
    if got != want:
        return 'compiled call (function, module, panel, num_cores, NLterms) is %r, the model predicts %r' % (got, want)
    return (_fg_vals_bad('amplitude vector handed to %s for panel %s' % (fn, pid), e['c'], [unq(x) for x in c_.split()], 1., True)
            or _fg_vals_bad('xs handed to %s for panel %s' % (fn, pid), e['xs'], [unq(x) for x in xs_.split()], scale, given)
            or _fg_vals_bad('ys handed to %s for panel %s' % (fn, pid), e['ys'], [unq(x) for x in ys_.split()], scale, given))


def _fg_cols_bad(what, names, arrays, txtcols, real, rec_out, scale, given, F=None):
    """returned arrays against `<shape> ; <col> ; <col> …` (fake kernels: values; compiled kernels: arrangement of the recorded outputs)"""
    from tools.common import unq
    cols = [x.strip() for x in txtcols]
    shape = tuple(int(x) for x in cols[0].split())
    for nm, A in zip(names, arrays):
        if not isinstance(A, np.ndarray) or A.shape != shape:
            return '%s[%r] has shape %r, the model predicts %r' % (what, nm, getattr(A, 'shape', None), shape)
    for k, (nm, A) in enumerate(zip(names, arrays)):
        if nm in ('x', 'y'):
            bad = _fg_vals_bad('%s[%r]' % (what, nm), A, [unq(x) for x in cols[1 + k].split()], scale, given)
            if bad:
                return bad
    data = [(nm, A) for nm, A in zip(names, arrays) if nm not in ('x', 'y')]
    off = 1 + len(names) - len(data)
    if not real:
        for k, (nm, A) in enumerate(data):
            want = [unq(x) for x in cols[off + k].split()]
            sc = max([1.] + [abs(float(v)) for v in want])
            bad = _fg_vals_bad('%s[%r] (fake kernels)' % (what, nm), A, want, sc, False)
            if bad:
                return bad
        return None
    if F is None:
        for k, (nm, A) in enumerate(data):
            if not np.array_equal(A.ravel(), rec_out[k]):
                return '%s[%r] is not the %d-th output of the compiled call in the order of the points' % (what, nm, k)
        return None
    E = np.vstack(rec_out)
    for k, (nm, A) in enumerate(data):
        want = F[k] @ E
        if want.size and np.abs(A.ravel() - want).max() > 1e-12 * max(np.abs(want).max(), 1e-300):
            return '%s[%r] is not row %d of the laminate matrix times the strains the compiled call returned' % (what, nm, k)
    return None


def fg_compare(g, run, rep, init_rep=None):
    """None or the first difference between what the running glue did and the model's reply"""
    parts = [x.strip() for x in rep.split('|')]
    out = run['outcome']
    if parts[0].startswith('err parse') or parts[0].startswith('err unknown'):
        return 'driver could not read the case: ' + rep[:80]
    if g['kind'] == 'assembly' and init_rep is not None and init_rep.strip() != run['ranges'].strip():
        return 'PanelAssembly.__init__ / get_size stored ranges %s, the model predicts %s' % (run['ranges'], init_rep.strip())
    if parts[0].startswith('err'):
        _, pyexc, tag = parts[0].split()
        if out[0] != 'err':
            return 'the call returns, the model predicts %s (%s)' % (pyexc, tag)
        if out[1] != pyexc:
            return 'the call raises %s (%s), the model predicts %s (%s)' % (out[1], out[2][:60], pyexc, tag)
        if g['kind'] == 'panel':
            if len(run['log']) != int(parts[1]):
                return '%d compiled calls before the exception, the model predicts %s' % (len(run['log']), parts[1])
            return _fg_post_bad(run, parts[2], None)
        return None
    if out[0] != 'ok':
        return 'the call raises %s: %s; the model predicts a result' % (out[1], out[2][:80])
    ret = out[1]
    if g['kind'] == 'panel':
        calls = [x for x in parts[1].split('&') if x.strip()]
        if len(calls) != len(run['log']):
            return '%d compiled calls, the model predicts %d' % (len(run['log']), len(calls))
        for e, txt in zip(run['log'], calls):
            bad = _fg_call_bad(e, txt, run['given'], run['scale'])
            if bad:
                return bad
        cols = parts[2].split(';')
        e = run['log'][0]
        real = g['real'] and len(e['c']) >= FG_NUM[g['spec']['model']] * run['p'].m * run['p'].n
        if g['meth'] == 'uvw':
            if not (isinstance(ret, tuple) and len(ret) == 5):
                return 'Panel.uvw does not return five arrays'
            bad = _fg_cols_bad('uvw', FG_UVW, ret, cols, real, e['out'], run['scale'], run['given'])
        else:
            names = ('x', 'y') + (FG_E if g['meth'] == 'strain' else FG_N)
            if not isinstance(ret, dict) or tuple(sorted(ret.keys())) != tuple(sorted(names)):
                return 'Panel.%s returns the keys %r, the model %r' % (g['meth'], sorted(getattr(ret, 'keys', lambda: [])()), sorted(names))
            F = None
            if g['meth'] == 'stress':
                F = run['Farg'] if run['Farg'] is not None else run['p'].F
            bad = _fg_cols_bad(g['meth'], names, [ret[k] for k in names], cols, real, e['out'], run['scale'], run['given'], F=F)
        return bad or _fg_post_bad(run, parts[3], ret if g['meth'] == 'uvw' else None)
    entries = [x for x in '|'.join(parts[1:]).split('&') if x.strip()]
    names = ('x', 'y') + {'uvw': FG_UVW, 'strain': FG_E, 'stress': FG_N}[g['meth']]
    if not isinstance(ret, dict) or tuple(sorted(ret.keys())) != tuple(sorted(names)):
        return 'PanelAssembly.%s returns the keys %r, the model %r' % (g['meth'], sorted(getattr(ret, 'keys', lambda: [])()), sorted(names))
    for k in names:
        if not isinstance(ret[k], list) or len(ret[k]) != len(entries):
            return 'PanelAssembly.%s: %d entries under %r, the model predicts %d panels of the group' % (g['meth'], len(ret[k]), k, len(entries))
    if len(run['log']) != len(entries):
        return '%d compiled calls, the model predicts %d' % (len(run['log']), len(entries))
    for j, (e, txt) in enumerate(zip(run['log'], entries)):
        sub = txt.split(';')
        bad = _fg_call_bad(e, ';'.join(sub[:4]), False, run['scale'])
        if bad:
            return 'entry %d of the group: %s' % (j, bad)
        p = [p_ for p_ in run['ps'] if p_._fg_id == e['pid']][0]
        real = g['real'] and len(e['c']) >= (1 if e['fm'] == 'cltW' else 3) * p.m * p.n
        bad = _fg_cols_bad('%s entry %d' % (g['meth'], j), names, [ret[k][j] for k in names], sub[4:], real, e['out'], run['scale'], False,
                           F=p.F if g['meth'] == 'stress' else None)
        if bad:
            return bad
    return None


def _fg_post_bad(run, txt, ret):
    """stored attributes of the panel against `Xs … ; Ys … ; u … ; …`"""
    p = run['p']
    for item in txt.split(';'):
        item = item.strip()
        nm, rest = item.split(' ', 1)
        want = _fg_parse_arr(rest)
        got = getattr(p, nm)
        if want is None:
            if got is not None:
                return 'attribute %s is set after the call, the model leaves it None' % nm
            continue
        if got is None:
            return 'attribute %s is None after the call, the model stores an array of shape %r' % (nm, want[0])
        if got.shape != want[0]:
            return 'attribute %s has shape %r, the model stores %r' % (nm, got.shape, want[0])
        if nm in ('Xs', 'Ys'):
            bad = _fg_vals_bad('attribute ' + nm, got, want[1], run['scale'], run['given'])
            if bad:
                return bad
        elif ret is not None and got is not ret[FG_UVW.index(nm)]:
            return 'attribute %s is not the returned array' % nm
    return None


def fg_predicate(g):
    """C11 itself on the case (compiled kernels, no model): a successful query must report at every point the compiled kernel's value for that
    point alone and, in an assembly, for that panel's own slice c[start:end] with start/end the running sums of 3 m n.  None or text."""
    import copy
    g = copy.deepcopy(g)
    g['real'] = True
    if g['ckind'] in ('short', 'scalar'):
        return None
    try:
        run = fg_run(g)
    except Exception:                                            # noqa
        return None
    if run['outcome'][0] != 'ok' or not run['log']:
        return None
    ret = run['outcome'][1]
    from compmech.panel import modelDB

    def single(p, c, x, y, meth, nl):
        mod = modelDB.db[p.model]['field']
        c = np.ascontiguousarray(c, dtype=float)
        X, Y = np.array([float(x)]), np.array([float(y)])
        if meth == 'uvw':
            return [float(v[0]) for v in mod.fuvw(c, p, X, Y, 1)]
        e = np.array([float(v[0]) for v in mod.fstrain(c, p, X, Y, 1, int(nl))])
        return list(e) if meth == 'strain' else None, e

    def cmp(what, vals, p, c, xs, ys, meth, nl, F):
        for k in range(len(xs)):
            ref = single(p, c, xs[k], ys[k], meth, nl)
            if meth == 'stress':
                ref = list(F @ ref[1])
            elif meth == 'strain':
                ref = ref[0]
            got = [float(np.ravel(v)[k]) for v in vals]
            sc = max(max(abs(x) for x in ref), 1e-300)
            for nm, a_, b_ in zip({'uvw': FG_UVW, 'strain': FG_E, 'stress': FG_N}[meth], got, ref):
                if abs(a_ - b_) > 1e-9 * sc:
                    return '%s: %s at point %d (x=%.6g, y=%.6g) is %.9e; the field evaluated at that point alone gives %.9e' % (what, nm, k, xs[k], ys[k], a_, b_)
        return None
    if g['kind'] == 'panel':
        p = run['p']
        if len(run['log'][0]['c']) < FG_NUM[g['spec']['model']] * p.m * p.n:
            return None
        if p.Xs is None:
            return None
        xs, ys = np.ravel(p.Xs), np.ravel(p.Ys)
        if run['given'] is False and g.get('_grid') is None:
            gx = np.linspace(0, p.a, max(int(run['line'].split('gridx=')[1].split()[0]), 0))
            gy = np.linspace(0, p.b, max(int(run['line'].split('gridy=')[1].split()[0]), 0))
            want = [(x, y) for y in gy for x in gx]
            if len(want) != len(xs) or any(abs(x - w[0]) > 1e-12 or abs(y - w[1]) > 1e-12 for x, y, w in zip(xs, ys, want)):
                return 'Panel.%s on a %d x %d grid does not evaluate the points (x_j, y_i) of the grid in the order of the result array' % (g['meth'], len(gx), len(gy))
        vals = ret if g['meth'] == 'uvw' else [ret[k] for k in (FG_E if g['meth'] == 'strain' else FG_N)]
        F = run['Farg'] if run['Farg'] is not None else p.F
        return cmp('Panel.' + g['meth'], vals, p, run['log'][0]['c'], xs, ys, g['meth'], g['nl'], F)
    if g['tamper'] is not None:
        return None
    ps = run['ps']
    c = np.asarray(run['c'], dtype=float)
    if c.ndim != 1 or len(c) < run['size']:
        return None
    start = 0
    j = 0
    for p in ps:
        end = start + 3 * p.m * p.n
        if p.group == g['group']:
            if j >= len(ret['x']):
                return 'PanelAssembly.%s returns %d entries for a group of more panels' % (g['meth'], len(ret['x']))
            gx, gy = np.linspace(0, p.a, g['gx']), np.linspace(0, p.b, g['gy'])
            pts = [(x, y) for y in gy for x in gx]
            names = {'uvw': FG_UVW, 'strain': FG_E, 'stress': FG_N}[g['meth']]
            if np.shape(ret[names[0]][j]) != (g['gy'], g['gx']):
                return 'PanelAssembly.%s: entry %d has shape %r instead of (gridy, gridx) = %r' % (g['meth'], j, np.shape(ret[names[0]][j]), (g['gy'], g['gx']))
            bad = cmp('PanelAssembly.%s, panel %d of the list (entry %d of group %r, own slice c[%d:%d])' % (g['meth'], p._fg_id, j, g['group'], start, end),
                      [ret[k][j] for k in names], p, c[start:end], [q_[0] for q_ in pts], [q_[1] for q_ in pts], g['meth'], g['nl'], p.F)
            if bad:
                return bad
            j += 1
        start = end
    if j != len(ret['x']):
        return 'PanelAssembly.%s returns %d entries for the %d panels of group %r' % (g['meth'], len(ret['x']), j, g['group'])
    return None


def field_glue_correspondence(ctx, rng, cases=None):
    """H: recorded-call correspondence of Model/FieldGlue.lean; returns True when a disagreement was reported"""
    from compmech.panel import _panel
    from compmech.panel.assembly import assembly as asm_mod
    from tools.props.C05 import LineTracer
    full_run = cases is None
    if cases is None:
        cases = [fg_gen_pcase(rng, t) for t in range(ctx.scale(260, 2500))] + [fg_gen_acase(rng, t) for t in range(ctx.scale(160, 1500))]
    modelled = [_panel.Panel._default_field, _panel.Panel.uvw, _panel.Panel.strain, _panel.Panel.stress, asm_mod.default_field,
                asm_mod.PanelAssembly.__init__, asm_mod.PanelAssembly.get_size, asm_mod.PanelAssembly.uvw, asm_mod.PanelAssembly.strain,
                asm_mod.PanelAssembly.stress]
    names = ['Panel._default_field', 'Panel.uvw', 'Panel.strain', 'Panel.stress', 'assembly.default_field', 'PanelAssembly.__init__',
             'PanelAssembly.get_size', 'PanelAssembly.uvw', 'PanelAssembly.strain', 'PanelAssembly.stress']
    tracer = FgTracer(modelled, names)
    runs, lines = [], []
    for g in cases:
        run = fg_run(g, tracer=tracer)
        runs.append(run)
        lines.append(run['line'])
        if g['kind'] == 'assembly':
            lines.append(run['init_line'])
    replies = driver(lines, pid='C11')
    if len(replies) != len(lines):
        raise RuntimeError('C11 driver returned %d replies for %d lines' % (len(replies), len(lines)))
    dist = dict(cases=len(cases), kinds={}, methods={}, models={}, c={}, points={}, real=0, outcomes={}, groups_with_several_panels=0,
                tampered=0, calls=0)
    inc = lambda d, k: d.__setitem__(str(k), d.get(str(k), 0) + 1)
    k = nbad = 0
    for g, run in zip(cases, runs):
        rep = replies[k]
        init_rep = None
        k += 1
        if g['kind'] == 'assembly':
            init_rep = replies[k]
            k += 1
        ctx.evaluations += 1
        inc(dist['kinds'], g['kind'])
        inc(dist['methods'], g['kind'][0] + '.' + g['meth'])
        inc(dist['c'], g['ckind'])
        dist['real'] += bool(g['real'])
        dist['calls'] += len(run['log'])
        inc(dist['outcomes'], 'ok' if rep.startswith('ok') else ' '.join(rep.split('|')[0].split()[1:3]))
        if g['kind'] == 'panel':
            inc(dist['models'], g['spec']['model'])
            inc(dist['points'], run['pkind'])
            if rep.startswith('ok') and run['log'] and len(run['log'][0]['xs']) >= 4:
                ctx.nontrivial.add(('glue', g['seed']))
        else:
            for s_ in g['specs']:
                inc(dist['models'], s_['model'])
            dist['tampered'] += g['tamper'] is not None
            if rep.startswith('ok') and len(run['log']) >= 2:
                dist['groups_with_several_panels'] += 1
                ctx.nontrivial.add(('glue', g['seed']))
        if len(ctx.samples) < 6 and rep.startswith('ok') and len(run['log']) >= 2:
            ctx.sample(dict(glue_case={k_: v for k_, v in g.items() if k_ != 'specs'}, panels=[(s_['m'], s_['n'], s_['group']) for s_ in g.get('specs', [])],
                            model_reply=rep[:240]))
        bad = fg_compare(g, run, rep, init_rep)
        if bad:
            nbad += 1
            pred = None
            try:
                pred = fg_predicate(g)
            except Exception as e:                               # noqa
                ctx.log('field glue: property predicate unusable on the disagreeing case: %r' % (e,))
            what = ('field glue correspondence (Model/FieldGlue.lean vs compmech/panel/%s): %s'
                    % ('_panel.py' if g['kind'] == 'panel' else 'assembly/assembly.py', bad))
            if pred:
                what = 'C11 fails on the implementation: ' + pred + ' [' + what + ']'
            if nbad <= 3 or pred:
                ctx.violation(what, dict(tie='H field glue', glue_case=g, line=run['line'], model_reply=rep[:2000]), found_input=bool(pred))
            if (nbad >= 3 and pred) or nbad >= 25:
                break
    cov = {}
    for f, nm in zip(modelled, names):
        al = tracer.all_lines(f)
        miss = sorted(al - tracer.hit[nm])
        cov[nm] = dict(lines=len(al), executed=len(al) - len(miss), missed=miss)
        if miss and full_run and not nbad:
            ctx.violation('field glue correspondence: lines %s of %s are never executed by the corpus, so the hand model Model/FieldGlue.lean is not '
                          'compared with them' % (miss, nm), dict(tie='H field glue coverage', function=nm, lines=miss), found_input=False)
            nbad += 1
    dist['line_coverage_of_modelled_functions'] = cov
    ctx.cov['field_glue_correspondence'] = dist
    return nbad > 0


class FgTracer(object):
    """executed lines of the modelled functions, keyed by qualified name (two functions are called `uvw`)"""

    def __init__(self, funcs, names):
        import sys
        self.sys = sys
        self.codes = dict((f.__code__, nm) for f, nm in zip(funcs, names))
        self.hit = dict((nm, set()) for nm in names)
        self.old = None

    def all_lines(self, f):
        import dis
        lines = set(l for _, l in dis.findlinestarts(f.__code__) if l is not None)
        lines.discard(f.__code__.co_firstlineno)
        return lines

    def glob(self, frame, event, arg):
        nm = self.codes.get(frame.f_code)
        if nm is None:
            return None
        hit = self.hit[nm]

        def local(fr, ev, ar):
            if ev == 'line':
                hit.add(fr.f_lineno)
            return local
        return local

    def __enter__(self):
        self.old = self.sys.gettrace()
        self.sys.settrace(self.glob)
        return self

    def __exit__(self, *a):
        self.sys.settrace(self.old)



def correspondence(ctx):
    ir = translate(ctx)
    rng = ctx.rng
    # source reading of the def-level wrappers (fuvw / fg / fstrain incl. the pad / reshape / prange / ravel / trim logic) of the field modules:
    # the translator above covers the C-level cf* bodies, this covers the rest of the two files as written
    from tools import source_tie
    if source_tie.check(ctx, 'C11', ('panel_field',), predicate=source_field_predicate):
        return
    if field_glue_correspondence(ctx, rng):
        return
    dist = dict(models={}, cores={}, npts={}, NL=0)
    for t in range(ctx.scale(40, 400)):
        case = gen(ctx, rng)
        ctx.evaluations += 1
        dist['models'][case['lean_model']] = dist['models'].get(case['lean_model'], 0) + 1
        dist['cores'][case['cores']] = dist['cores'].get(case['cores'], 0) + 1
        dist['npts'][len(case['xs'])] = dist['npts'].get(len(case['xs']), 0) + 1
        if case['m'] * case['n'] >= 4 and len(case['xs']) >= 5 and case['cores'] > 1:
            ctx.nontrivial.add((case['lean_model'], case['m'], case['n'], len(case['xs']), case['cores'], case['a']))
        ctx.sample(dict(model=case['lean_model'], m=case['m'], n=case['n'], npts=len(case['xs']), cores=case['cores']), limit=4)
        bad, ident = run_case(ctx, case, ir)
        if bad:
            if ctx.violation('C11 fails on the implementation: ' + bad[0], dict(case=case), identity=ident):
                return
        if t % 4 == 0:
            vb = v_check(ctx, case, ir)
            if vb:
                ctx.violation(vb, dict(case=case, tie='V field'), found_input=False)
                return
    # H: chunking model through the driver
    lines = []
    specs = []
    for _ in range(ctx.scale(40, 300)):
        cores, npts = rng.randint(1, 16), rng.choice([0, 1, 2, 3, 5, 7, 16, 17, 31, 33])
        lines.append('C11 chunk %d %d' % (cores, npts))
        specs.append((cores, npts))
    for (cores, npts), rep in zip(specs, driver(lines)):
        ctx.evaluations += 1
        want = ' '.join(str(k) for k in range(npts))
        if rep.strip() != ('ok ' + want).strip():
            ctx.violation('chunking model returned %r for %d points on %d cores' % (rep[:80], npts, cores),
                          dict(cores=cores, npts=npts), found_input=False)
            return
    for t in range(ctx.scale(4, 20)):
        c, bad = assembly_slices(ctx, rng, t)
        ctx.evaluations += 1
        if bad:
            ctx.violation('C11 fails on the implementation: ' + bad, dict(case=c, derived='assembly'))
            return
    ctx.cov['input_distribution'] = dist


def source_field_predicate(seed=11, n=10):
    """C11 ON THE SOURCE READING of the two field modules (tools/cyexec.py executes clt_bardell_field*.pyx as written): displacements and rotations
    against the Ritz series, linear strains against the Donnell relations, for point counts that are not multiples of the core count, m != n and
    edge flags that differ between the fields.  returns None or (text, replay dict)"""
    from tools import cyexec, cyexec_check as cc
    ext, how, so = cc.bardell_externs()
    try:
        for rel, ndof, lean_model in (('panel/models/clt_bardell_field.pyx', 3, 'Plate'), ('panel/models/clt_bardell_field_w.pyx', 1, 'PlateW')):
            try:
                ns = cyexec.load(cc.source(rel), repo=cc.REPO, externs=ext)
            except Exception as e:                          # noqa (unreadable source: reported by the comparison with the binary)
                continue
            r = np.random.RandomState(seed)
            for k in range(n):
                P = cc.Panel()
                P.a, P.b = float(r.uniform(.5, 3.)), float(r.uniform(.5, 3.))
                P.r = float(r.choice([0., r.uniform(1., 10.)])) if ndof == 3 else 0.
                P.alpharad = 0.
                P.m, P.n = [(4, 6), (7, 4), (5, 5), (3, 8), (6, 5)][k % 5]
                for w_ in 'uvw':
                    for e_ in ('1tx', '1rx', '2tx', '2rx', '1ty', '1ry', '2ty', '2ry'):
                        setattr(P, w_ + e_, float(r.randint(0, 2)))
                c = r.uniform(-1, 1, ndof * P.m * P.n)
                npts, ncores = [(13, 4), (7, 2), (3, 4), (10, 3), (11, 2), (8, 4)][k % 6]
                xs, ys = r.uniform(0, P.a, npts), r.uniform(0, P.b, npts)
                desc = dict(source=rel, a=P.a, b=P.b, r=P.r, m=P.m, n=P.n, points=npts, cores=ncores, seed=seed, case=k)
                want = series(P, dict(lean_model=lean_model), c, xs, ys)
                try:
                    out = [np.asarray(v) for v in ns['fuvw'](c, P, xs, ys, ncores)]
                except Exception as e:                      # noqa
                    return ('%s (source as written): fuvw raises %s: %s for m, n = %d, %d and %d points on %d cores'
                            % (rel, type(e).__name__, str(e)[:80], P.m, P.n, npts, ncores), desc)
                names = ['u', 'v', 'w', 'phix', 'phiy'] if len(out) == 5 else ['w', 'phix', 'phiy']
                refs = dict(u=want['u'], v=want['v'], w=want['w'], phix=-want['wx'], phiy=-want['wy'])
                for nm, got in zip(names, out):
                    sc = max(np.abs(refs[nm]).max(), 1e-300)
                    if got.shape != refs[nm].shape or np.abs(got - refs[nm]).max() > 1e-9 * sc:
                        kk = int(np.abs(got - refs[nm]).argmax()) if got.shape == refs[nm].shape else 0
                        return ('%s (source as written): %s at (x=%.6g, y=%.6g) is %.9e, the Ritz series gives %.9e (m, n = %d, %d; %d points on %d cores)'
                                % (rel, nm, xs[kk], ys[kk], got[kk] if got.shape == refs[nm].shape else float('nan'), refs[nm][kk], P.m, P.n, npts, ncores), desc)
                if 'fstrain' in ns and ndof == 3:
                    es = np.stack([np.asarray(v_) for v_ in ns['fstrain'](c, P, xs, ys, ncores, 0)], axis=1)      # (exx, eyy, gxy, kxx, kyy, kxy) arrays
                    ir_ = 1. / P.r if P.r else 0.
                    ref = np.stack([want['ux'], want['vy'] + ir_ * want['w'], want['uy'] + want['vx'], -want['wxx'], -want['wyy'], -2 * want['wxy']], axis=1)
                    sc = max(np.abs(ref).max(), 1e-300)
                    if es.shape != ref.shape or np.abs(es - ref).max() > 1e-9 * sc:
                        kk, q_ = np.unravel_index(np.abs(es - ref).argmax(), ref.shape) if es.shape == ref.shape else (0, 0)
                        return ('%s (source as written): linear strain component %s at (x=%.6g, y=%.6g) is %.9e, the Donnell relation applied to the series gives '
                                '%.9e' % (rel, ['exx', 'eyy', 'gxy', 'kxx', 'kyy', 'kxy'][q_], xs[kk], ys[kk], es[kk, q_], ref[kk, q_]), desc)
    finally:
        if so:
            try:
                os.remove(so)
            except OSError:
                pass
    return None


def search(ctx, reason):
    found = None
    try:
        found = source_field_predicate()
    except Exception as e:                                  # noqa
        ctx.log('source-level predicate unusable: %r' % (e,))
    if found:
        ctx.violation('C11 fails on the source as written: ' + found[0] + ' (the running binary is stale w.r.t. this source if the implementation '
                      'arm stays quiet)', dict(kind='source reading', broken=reason, **found[1]))
        return True
    try:
        ir = translate(ctx)
    except Exception as e:
        ctx.log('translator unusable: %s' % e)
        ir = None
    for t in range(ctx.scale(40, 200)):
        case = gen(ctx, ctx.rng)
        ctx.evaluations += 1
        bad, ident = run_case(ctx, case, ir)
        if bad and ctx.violation('C11 fails on the implementation: ' + bad[0], dict(case=case, broken=reason), identity=ident):
            return True
    return False


def replay(ctx, data):
    r = data['replay']
    if r.get('glue_case'):
        g = r['glue_case']
        run = fg_run(g)
        lines = [run['line']] + ([run['init_line']] if g['kind'] == 'assembly' else [])
        reps = driver(lines, pid='C11')
        bad = fg_compare(g, run, reps[0], reps[1] if len(reps) > 1 else None)
        pred = fg_predicate(g)
        print('glue vs model:', bad)
        print('property on implementation:', pred)
        return 1 if (bad or pred) else 0
    if r.get('case') and not r.get('derived'):
        bad, ident = run_case(ctx, r['case'], translate(ctx))
        print('property on implementation:', bad, ident)
        return 1 if bad else 0
    print('replay:', data['what'])
    return 1
