"""C16 - complete-shell linear matrices: energy-consistent, symmetric, cone at 0 deg = cylinder, isotropic short cut,
geometric stiffness linear in (Fc, P, T).

T  : tools/translate/gen_conecyl.py regenerates the Lean models of all 17 `*_linear.pyx` modules and the per-position theorem
     files (T1 linearity, T3 cone-at-ends = cylinder, T2 isotropic = general) on every run; the kernel re-checks them.
M  : model arm - every position of T2/T3 is evaluated in exact rational arithmetic on the regenerated terms; a position at
     which the identity fails is a violation WITH the rational witness unless it is a listed known finding; whole matrices
     of the interpreted IR (cone at alpha = 0, s sections) are compared with the interpreted cylinder IR (loop-nest / skip-test
     level, which the per-entry theorems do not see); allocated length >= slots used.
V  : the interpreted IR of every function is compared with the running binary (bit for bit up to 1e-12).
I  : implementation arm through the public API: k0 / kG0 symmetric, k0 positive semi-definite, k0 = Hessian of the strain
     energy of the package's own linear strain field (+ elastic edge restraints) for the classical Donnell models, cone kernel
     at alpha = 0 = cylinder kernel, isotropic short cut = general model, kG0 linear in the loads, combined split adds up.
"""
import contextlib
import importlib
import io
import json
import os
import random
import sys

import numpy as np

from tools import common
from tools.common import REPO
from tools.translate import gen_conecyl as g
from tools.translate import conecyl_ir as ci

if REPO not in sys.path:
    sys.path.insert(0, REPO)

TRUSTED = [
    'tools/cyexec.py (Cython-subset source executor, validated by its --selftest and by bit-identical agreement with the binaries on the unchanged tree): the source reading of the hand-written .pyx/.pxi files',
    'Lean 4.33 kernel; axioms of the audited theorems within {propext, Classical.choice, Quot.sound}',
    'Mathlib v4.33 (ring, field_simp, linear_combination; Real.sin/cos lemmas for atEnds_sound / trigParam_sound)',
    'translator tools/translate/conecyl_ir.py + gen_conecyl.py (validated each run: interpreted IR vs running binaries, V)',
    'hand-written specification lean/CompmechVerif/Core/CCSpec.lean (atEnds, isoLam, trigParam, LinearInLoads) and its Python mirrors '
    'used by the exact rational evaluation',
    'the Cython build .pyx -> .so is not verified (no Cython in the sandbox): V compares the source model with the in-tree binaries',
    'energy oracle: numpy, Gauss-Legendre / periodic trapezoid quadrature of ConeCyl.strain and ConeCyl.uvw; LAPACK eigvalsh for PSD',
    'IEEE rounding not modelled (1e-9 .. 1e-6 scaled tolerances in the implementation arm; exact rationals in the model arm)',
]
ASSUMPTIONS = [
    'series indices enter the theorems as field elements with the stated non-vanishing conditions (i != 0, i != k, i + k != 0: true for '
    'distinct non-negative integers)',
    'piecewise-constant radius per section is part of the cone kernels (s sections); the energy oracle uses s = 200 and a 1e-4 tolerance for cones',
    'positive semi-definiteness and energy consistency are checked on the implementation (not proved); energy consistency only for the '
    'classical Donnell models whose kernels and strain field agree on the unchanged tree (bc1, bc3, bc4)',
]
RULE = ('all 17 linear modules translated; every T2/T3 position evaluated exactly at 3 rational points (fixed seeds); V and matrix-level '
        'IR comparison at random (m1, m2, n2, s, F, loads); implementation arm on random models / angles / laminates / restraints / loads '
        'from one PRNG; non-trivial = cone with unsymmetric laminate and distinct edge restraints; distinct by case parameters')
LEANCHECKER = False      # thousands of generated declarations: `lake build` + audit sample instead

QUIET = io.StringIO()
LAMINAPROPS = [(123.55e3, 8.708e3, 0.319, 5.695e3, 5.695e3, 5.695e3), (142.5e3, 8.7e3, 0.28, 5.1e3, 5.1e3, 5.1e3)]
ENERGY_MODELS = ['clpt_donnell_bc1', 'clpt_donnell_bc3', 'clpt_donnell_bc4', 'clpt_sanders_bc1', 'clpt_sanders_bc2', 'clpt_sanders_bc3', 'clpt_sanders_bc4']
ID_SANDERS_BC3_ENERGY = 'C16-clpt-sanders-bc3-k0-vs-own-strain-field'
API_MODELS = ['clpt_donnell_bc1', 'clpt_donnell_bc2', 'clpt_donnell_bc3', 'clpt_donnell_bc4', 'clpt_sanders_bc1', 'clpt_sanders_bc2',
              'clpt_sanders_bc3', 'clpt_sanders_bc4', 'fsdt_donnell_bc1', 'fsdt_donnell_bc2', 'fsdt_donnell_bc3', 'fsdt_donnell_bc4',
              'fsdt_donnell_bcn', 'fsdt_sanders_bcn', 'iso_clpt_donnell_bc2', 'iso_clpt_donnell_bc3']
SPRINGS = {'bc1': ('kphix',), 'bc2': ('ku', 'kphix'), 'bc3': ('kv', 'kphix'), 'bc4': ('ku', 'kv', 'kphix')}


def known(pid='C16'):
    return [f for f in common.load_findings(pid) if f.get('status', 'known') == 'known']


def known_position(rec):
    """identity of a listed finding that covers this false position, or None"""
    for f in known():
        for pat in f.get('positions', []):
            if pat.get('kind') == rec['kind'] and pat.get('model') == rec['model'] and pat.get('fn', rec['fn']) == rec['fn']:
                keys = pat.get('keys')
                if keys is None or rec['key'] in keys:
                    return f['id']
    return None


def translate(ctx):
    Ms = g.translate_all()
    ctx.cc_models = Ms
    ctx.cc_report = list(g.translate_all.report)
    ctx.cov['translated_modules'] = len(Ms)
    ctx.cov['entries'] = sum(len(K.entries) for M in Ms.values() for K in M.fns.values())


# ----------------------------------------------------------------------------- model arm
def model_arm(ctx):
    rep = ctx.cc_report
    stats = dict(positions=len(rep), hold=0, proved=0, numeric_only=0, false_known=0, false_new=0)
    for rec in rep:
        ctx.evaluations += 1
        if rec['holds']:
            stats['hold'] += 1
            if rec.get('proved', True):
                stats['proved'] += 1
            else:
                stats['numeric_only'] += 1
            continue
        ident = known_position(rec)
        text = ('%s kernel of %s: %s fails at entry position %r (exact rational evaluation of the regenerated source model)'
                % (rec['fn'], rec['model'], 'cone(alpha=0, [0,L]) = cylinder' if rec['kind'] == 'cyl' else 'isotropic short cut = general kernel on the isotropic laminate',
                   rec['key']))
        if ident:
            stats['false_known'] += 1
            ctx.violation(text, dict(kind='position', rec=rec), identity=ident)
        else:
            stats['false_new'] += 1
            if stats['false_new'] <= 3:
                ctx.violation('C16 fails on the source model: ' + text, dict(kind='position', rec=rec))
    ctx.cov['positions'] = stats
    ctx.log('model arm: %r' % stats)


def rand_args(K, sub, rng, alpha0=False):
    args = {}
    for a in K.params:
        if a in ('m1', 'm2', 'n2'):
            args[a] = rng.choice([1, 2, 3])
        elif a == 's':
            args[a] = rng.choice([1, 3])
        elif a == 'F':
            n = 8 if sub == 'fsdt' else 6
            A = np.random.RandomState(rng.randrange(1 << 30)).uniform(-1, 1, (n, n))
            args[a] = np.ascontiguousarray(A + A.T + np.eye(n) * 4)
        elif a == 'alpharad':
            args[a] = 0. if alpha0 else rng.uniform(0.05, 0.6)
        elif a in ('r2', 'r1', 'L', 'h', 'E11'):
            args[a] = rng.uniform(0.5, 2.)
        elif a == 'nu':
            args[a] = 0.3
        else:
            args[a] = rng.uniform(-2, 2)
    return args


def validation(ctx, rng):
    """V: interpreted IR vs running binary; slots <= allocated length; matrix-level cone(alpha=0) vs cylinder on the IR"""
    stats = dict(functions=0, max_rel=0., no_binary=[], matrix_level=0)
    for name, M in ctx.cc_models.items():
        try:
            with contextlib.redirect_stdout(QUIET):
                mod = importlib.import_module('compmech.conecyl.%s.%s' % (M.sub, M.module))
        except Exception:
            mod = None
            stats['no_binary'].append(M.module)
        for fname, K in M.fns.items():
            for rep in range(ctx.scale(1, 4)):
                args = rand_args(K, M.sub, rng)
                env = dict(M.consts)
                env.update(args)
                trip, size, used, fdim = ci.interp(K, env)
                ctx.evaluations += 1
                if fdim is not None and used > fdim:
                    ctx.violation('%s.%s writes %d slots into arrays of length %d (out-of-bounds write with boundscheck off)'
                                  % (M.module, fname, used, fdim), dict(kind='fdim', module=M.module, fn=fname,
                                                                        args={k: v for k, v in args.items() if not hasattr(v, 'shape')}))
                    return stats
                if mod is None:
                    continue
                Mi = ci.dense(trip, size)
                R = getattr(mod, fname)(*[args[a] for a in K.params]).toarray()
                rel = np.abs(Mi - R).max() / (np.abs(R).max() + 1e-300)
                stats['max_rel'] = max(stats['max_rel'], float(rel))
                stats['functions'] += 1
                if rel > 1e-12:
                    k = np.unravel_index(np.argmax(np.abs(Mi - R)), R.shape)
                    ctx.tie_broken.append('source model of %s.%s differs from the running binary: entry %r %r (source) vs %r (binary); '
                                          'the .pyx was edited after the extension was built' % (M.module, fname, tuple(int(x) for x in k),
                                                                                                float(Mi[k]), float(R[k])))
                    break
        # matrix level: cone IR at alpha = 0 with s sections vs cylinder IR
        for cone, cyl in (('fk0', 'fk0_cyl'), ('fkG0', 'fkG0_cyl')):
            if cone not in M.fns or cyl not in M.fns:
                continue
            a = rand_args(M.fns[cone], M.sub, rng, alpha0=True)
            a.update(m1=3, m2=3, n2=2, s=rng.choice([1, 4]))
            env = dict(M.consts)
            env.update(a)
            t1, size, _, _ = ci.interp(M.fns[cone], env)
            env2 = dict(M.consts)
            env2.update({k: v for k, v in a.items() if k in M.fns[cyl].params})
            t2, size2, _, _ = ci.interp(M.fns[cyl], env2)
            size = size or size2
            C, Y = np.triu(ci.dense(t1, size)), np.triu(ci.dense(t2, size2 or size))
            sc = np.abs(Y).max() + 1e-300
            d = np.abs(C - Y)
            stats['matrix_level'] += 1
            ctx.evaluations += 1
            if d.max() > 1e-9 * sc:
                k = np.unravel_index(np.argmax(d), d.shape)
                ident = None
                for f in known():
                    if M.module in f.get('matrix_level', []):
                        ident = f['id']
                text = ('source model of %s: %s at alpha = 0 (%d sections) differs from %s: upper entry %r %.6e vs %.6e (scale %.3e)'
                        % (M.module, cone, a['s'], cyl, tuple(int(x) for x in k), C[k], Y[k], sc))
                if ctx.violation('C16 fails on the source model: ' + text,
                                 dict(kind='matrix', module=M.module, fn=cone, s=a['s'], entry=[int(x) for x in k]), identity=ident):
                    return stats
    ctx.cov['validation'] = stats
    ctx.log('V: %d function evaluations vs binaries, max rel. difference %.1e; matrix-level comparisons %d'
            % (stats['functions'], stats['max_rel'], stats['matrix_level']))
    return stats


# ----------------------------------------------------------------------------- implementation arm
def mk(model, rng, alphadeg, **kw):
    from compmech.conecyl import ConeCyl
    cc = ConeCyl()
    cc.model = model
    cc.m1, cc.m2, cc.n2 = kw.pop('m1', 3), kw.pop('m2', 2), kw.pop('n2', 2)
    if 'iso_' in model:
        cc.E11, cc.nu, cc.h = 70e3, 0.3, 1.
    else:
        cc.laminaprop = kw.pop('laminaprop', LAMINAPROPS[0])
        cc.stack = kw.pop('stack', [0., 30., -45., 60.])
        cc.plyt = kw.pop('plyt', 0.125)
    cc.r2, cc.L, cc.alphadeg = 250., 510., alphadeg
    for k, v in kw.items():
        setattr(cc, k, v)
    return cc


def unit(n, i):
    c = np.zeros(n)
    c[i] = 1.
    return c


REDEF_EDITS = ['h', 'E11', 'nu', 'stack', 'plyt', 'laminaprop', 'r2', 'L', 'alphadeg', 'restraint']


def redefinition_case(rng, t):
    """ONE shell object is analysed, its wall / geometry / edge restraints are edited, and it is analysed again: the linear stiffness must be
    that of a freshly defined shell with the edited data (it is the energy Hessian of the CURRENT definition).  Walls are given by a laminate
    or - also for the general models - by (E11, nu, h).  returns (description, failure text or None)"""
    from compmech.conecyl import ConeCyl
    edit = REDEF_EDITS[t % len(REDEF_EDITS)]
    iso_route = edit in ('h', 'E11', 'nu') or (edit in ('r2', 'L', 'alphadeg', 'restraint') and rng.random() < 0.4)
    model = rng.choice(['clpt_donnell_bc1', 'clpt_donnell_bc3', 'clpt_sanders_bc1'] +
                       (['iso_clpt_donnell_bc2', 'iso_clpt_donnell_bc3'] if iso_route else ['clpt_donnell_bc4', 'clpt_sanders_bc4', 'fsdt_donnell_bc1']))
    d = dict(model=model, m1=3, m2=2, n2=2, r2=250., L=510., alphadeg=rng.choice([0., 15.]), kuBot=1.1e3, kphixTop=7.e4)
    if iso_route:
        d.update(E11=70e3, nu=0.3, h=1.2)
    else:
        d.update(laminaprop=LAMINAPROPS[0], stack=[0., 30., -45.], plyt=0.125)
    new = dict(h=2.1, E11=113e3, nu=0.22, stack=[45., -45., 0., 90.], plyt=0.2, laminaprop=LAMINAPROPS[-1] if LAMINAPROPS[-1] != LAMINAPROPS[0] else
               tuple(v * 1.3 if k != 2 else v for k, v in enumerate(LAMINAPROPS[0])), r2=310., L=420., alphadeg=27., restraint=None)[edit]

    def make(dd):
        cc = ConeCyl()
        for k, v in dd.items():
            setattr(cc, k, v)
        return cc

    def k0_of(cc):
        with contextlib.redirect_stdout(QUIET), np.errstate(all='ignore'):
            cc._calc_linear_matrices(silent=True)
        return cc.k0.toarray()
    d2 = dict(d)
    if edit == 'restraint':
        d2.update(kuBot=4.4e2, kphixTop=1.3e5, kvTop=2.2e3)
    else:
        d2[edit] = new
    desc = dict(model=model, wall='E11/nu/h' if iso_route else 'laminate', edit=edit, before={k: d.get(k) for k in d2 if d.get(k) != d2[k]},
                after={k: d2[k] for k in d2 if d.get(k) != d2[k]})
    try:
        cc = make(d)
        k_first = k0_of(cc)
        for k, v in d2.items():
            if d.get(k) != v:
                setattr(cc, k, v)
        if edit in ('stack', 'plyt', 'laminaprop'):
            # the per-ply lists `plyts` / `laminaprops` are public inputs that take precedence over `plyt` / `laminaprop` once they exist
            # (the first analysis fills them in): a user who edits the uniform values resets the lists (same convention as for Panel)
            cc.plyts, cc.laminaprops = [], []
        k_again = k0_of(cc)
        k_fresh = k0_of(make(d2))
    except Exception as e:                                   # noqa
        return desc, None
    if k_again.shape != k_fresh.shape:
        return desc, 'k0 after editing %s has shape %r, a freshly defined shell %r' % (edit, k_again.shape, k_fresh.shape)
    sc = max(np.abs(k_fresh).max(), 1e-300)
    dev = float(np.abs(k_again - k_fresh).max() / sc)
    if dev > 1e-12:
        moved = float(np.abs(k_first - k_fresh).max() / sc)
        return desc, ('k0 of %s (wall by %s) after editing %s on an already analysed shell differs from that of a freshly defined shell with the '
                      'edited data by %.3e of the largest entry (the edit itself moves k0 by %.3e)' % (model, desc['wall'], edit, dev, moved))
    return desc, None


def energy_hessian(cc, nx=40, nt=16):
    """second derivative of 1/2 Int eps^T F eps dA (package's own linear strain field) + elastic edge restraints"""
    from numpy.polynomial.legendre import leggauss
    size = cc.get_size()
    xg, wg = leggauss(nx)
    xs = 0.5 * cc.L * (xg + 1)
    wx = 0.5 * cc.L * wg
    ts = np.linspace(-np.pi, np.pi, nt, endpoint=False)
    X, T = np.meshgrid(xs, ts, indexing='ij')
    W = (wx[:, None] * (2 * np.pi / nt)) * (cc.r2 + cc.sina * X)
    E = np.zeros((size, X.size, 6))
    for i in range(size):
        c = unit(size, i)
        ep = np.array(cc.strain(c, xs=X.ravel(), ts=T.ravel()))
        em = np.array(cc.strain(-c, xs=X.ravel(), ts=T.ravel()))
        E[i] = 0.5 * (ep - em).reshape(-1, 6)
    F = np.asarray(cc.F)
    H = np.einsum('ipa,jpa,p->ij', E, np.einsum('ab,ipb->ipa', F, E), W.ravel())
    kinds = SPRINGS[cc.model[-3:]]
    wt = 2 * np.pi / nt
    for edge, x, r in (('Bot', cc.L, cc.r1), ('Top', 0., cc.r2)):
        q = np.zeros((size, 3, nt))
        for i in range(3, size):
            u, v, w, phix, phit = cc.uvw(unit(size, i), xs=np.full(nt, x), ts=ts)
            q[i, 0], q[i, 1], q[i, 2] = u, v, phix
        for j, kind in enumerate(('ku', 'kv', 'kphix')):
            if kind in kinds:
                H += getattr(cc, kind + edge) * r * wt * (q[:, j, :] @ q[:, j, :].T)
    return H


ID_BCN_CONE_PSD = 'C16-fsdt-donnell-bcn-cone-not-psd'


def impl_case(ctx, rng):
    """one implementation-arm case: list of (identity or None, text)"""
    out = []
    model = rng.choice(API_MODELS)
    alphadeg = rng.choice([0., 0., rng.uniform(3, 50)])
    loads = [dict(Fc=rng.uniform(-5e3, 5e3), P=rng.uniform(-.5, .5), T=rng.uniform(-1e3, 1e3)) for _ in range(2)]
    a, b = rng.uniform(-2, 2), rng.uniform(-2, 2)
    restr = {}
    if rng.random() < 0.7:
        restr = dict(kuBot=rng.uniform(1e2, 1e4), kuTop=rng.uniform(1e2, 1e4), kvBot=rng.uniform(1e2, 1e4), kvTop=rng.uniform(1e2, 1e4),
                     kphixBot=rng.uniform(1e3, 1e5), kphixTop=rng.uniform(1e3, 1e5))
    case = dict(model=model, alphadeg=alphadeg, loads=loads, a=a, b=b, restraints=restr)
    with contextlib.redirect_stdout(QUIET), np.errstate(all='ignore'):
        mats = []
        for ld in loads + [dict((k, a * loads[0][k] + b * loads[1][k]) for k in ('Fc', 'P', 'T'))]:
            kw = dict(ld)
            kw.update(restr)
            cc = mk(model, rng, alphadeg, **kw)
            cc._calc_linear_matrices(silent=True)
            mats.append((cc.k0.toarray(), cc.kG0.toarray()))
        k0, kG = mats[0]
        if np.abs(k0 - k0.T).max() != 0:
            out.append((None, 'k0 of %s not symmetric (max %.3e)' % (model, np.abs(k0 - k0.T).max())))
        if np.abs(kG - kG.T).max() != 0:
            out.append((None, 'kG0 of %s not symmetric (max %.3e)' % (model, np.abs(kG - kG.T).max())))
        keep = np.setdiff1d(np.arange(k0.shape[0]), cc.excluded_dofs)
        ku = k0[np.ix_(keep, keep)]
        d = np.sqrt(np.abs(np.diag(ku)))
        d[d == 0] = 1.
        wmin = np.linalg.eigvalsh(ku / np.outer(d, d)).min()
        case['min_eig_scaled'] = float(wmin)
        if wmin < -1e-8:
            out.append((ID_BCN_CONE_PSD if (model == 'fsdt_donnell_bcn' and alphadeg != 0) else None,
                        'k0 of %s (alphadeg %.3g) is not positive semi-definite: smallest eigenvalue of the diagonally scaled '
                        'free block %.3e' % (model, alphadeg, wmin)))
        sc = max(np.abs(m[1]).max() for m in mats) + 1e-300
        lin = np.abs(mats[2][1] - (a * mats[0][1] + b * mats[1][1])).max()
        if lin > 1e-9 * sc * (1 + abs(a) + abs(b)):
            out.append((None, 'kG0 of %s not linear in (Fc, P, T): deviation %.3e of scale %.3e' % (model, lin, sc)))
        kw = dict(loads[0])
        kw.update(restr)
        c2 = mk(model, rng, alphadeg, **kw)
        c2._calc_linear_matrices(combined_load_case=1, silent=True)
        split = c2.kG0_Fc.toarray() + c2.kG0_P.toarray() + c2.kG0_T.toarray()
        if np.abs(split - kG).max() > 1e-9 * sc:
            out.append((None, 'kG0_Fc + kG0_P + kG0_T != kG0 for %s: deviation %.3e of scale %.3e' % (model, np.abs(split - kG).max(), sc)))
        # energy consistency (classical Donnell models)
        if model in ENERGY_MODELS:
            kw = dict(restr)
            ce = mk(model, rng, alphadeg, s=200 if alphadeg else 79, **kw)
            ce._calc_linear_matrices(silent=True)
            H = energy_hessian(ce)
            k0e = ce.k0.toarray()
            Hu, ku = H[np.ix_(keep, keep)], k0e[np.ix_(keep, keep)]
            dd = np.sqrt(np.abs(np.diag(Hu)))
            dd[dd == 0] = 1.
            err = (np.abs(ku - Hu) / np.outer(dd, dd)).max()
            case['energy_err'] = float(err)
            tol = 1e-4 if alphadeg else 1e-8
            if err > tol:
                k = np.unravel_index(np.argmax(np.abs(ku - Hu) / np.outer(dd, dd)), ku.shape)
                out.append((ID_SANDERS_BC3_ENERGY if model == 'clpt_sanders_bc3' else None,
                            'k0 of %s (alphadeg %.3g) differs from the Hessian of the strain energy of the package\'s own linear '
                                  'strain field (+ edge restraints): scaled error %.3e at free entry %r: k0 %.6e vs d2U %.6e'
                                  % (model, alphadeg, err, tuple(int(x) for x in k), ku[k], Hu[k])))
        # isotropic short cut
        if model.startswith('iso_'):
            ci_ = mk(model, rng, alphadeg)
            cg = mk(model[4:], rng, alphadeg, laminaprop=(ci_.E11, ci_.E11, ci_.nu), stack=[0.], plyt=ci_.h)
            ci_._calc_linear_matrices(silent=True)
            cg._calc_linear_matrices(silent=True)
            A, B = ci_.k0.toarray(), cg.k0.toarray()
            dd = np.sqrt(np.outer(np.abs(np.diag(B)), np.abs(np.diag(B)))) + 1e-300
            rel = (np.abs(A - B) / dd).max()
            if rel > 1e-9:
                k = np.unravel_index(np.argmax(np.abs(A - B) / dd), A.shape)
                ident = None
                for f in known():
                    if f['id'] == 'C16-iso-k0_01-stale-index' and (k[0] < 3 or k[1] < 3) and alphadeg == 0:
                        ident = f['id']
                    if f['id'] == 'C16-iso-k0_01-stale-index' and alphadeg != 0:
                        ident = f['id'] if (k[0] < 3 or k[1] < 3) else ident
                    if f['id'] == 'C16-clpt-donnell-bc2-cone-stale-col' and alphadeg != 0 and model == 'iso_clpt_donnell_bc2' and min(k) >= 3:
                        ident = f['id']
                out.append((ident, 'k0 of %s differs from %s fed the isotropic laminate (alphadeg %.3g): entry %r %r vs %r'
                            % (model, model[4:], alphadeg, tuple(int(i) for i in k), float(A[k]), float(B[k]))))
    return case, out


def kernel_alpha0(ctx, rng):
    """dedicated cylinder kernels vs cone kernels evaluated at alpha = 0 through the compiled modules"""
    out = []
    for name, M in ctx.cc_models.items():
        try:
            with contextlib.redirect_stdout(QUIET):
                mod = importlib.import_module('compmech.conecyl.%s.%s' % (M.sub, M.module))
        except Exception:
            continue
        n = 8 if M.sub == 'fsdt' else 6
        A = np.random.RandomState(rng.randrange(1 << 30)).uniform(-1, 1, (n, n))
        F = np.ascontiguousarray(A + A.T + 4 * np.eye(n))
        r2, L, m1, m2, n2, s = 1.3, 2.1, 3, 3, 2, rng.choice([1, 4])
        if M.module.startswith('iso'):
            C = mod.fk0(0., r2, L, 2., 0.3, 0.1, m1, m2, n2, s).toarray()
            Y = mod.fk0_cyl(r2, L, 2., 0.3, 0.1, m1, m2, n2).toarray()
        else:
            C = mod.fk0(0., r2, L, F, m1, m2, n2, s).toarray()
            Y = mod.fk0_cyl(r2, L, F, m1, m2, n2).toarray()
        pairs = [('fk0', np.triu(C), np.triu(Y))]
        if hasattr(mod, 'fkG0'):
            pairs.append(('fkG0', np.triu(mod.fkG0(1.3, 0.7, -0.4, r2, 0., L, m1, m2, n2, s).toarray()),
                          np.triu(mod.fkG0_cyl(1.3, 0.7, -0.4, r2, L, m1, m2, n2).toarray())))
        for fn, C_, Y_ in pairs:
            ctx.evaluations += 1
            sc = np.abs(Y_).max() + 1e-300
            if np.abs(C_ - Y_).max() > 1e-9 * sc:
                k = np.unravel_index(np.argmax(np.abs(C_ - Y_)), C_.shape)
                ident = None
                for f in known():
                    if M.module in f.get('matrix_level', []):
                        ident = f['id']
                out.append((ident, 'compiled %s.%s(alpharad=0, s=%d) differs from %s_cyl: upper entry %r %.6e vs %.6e (scale %.3e)'
                            % (M.module, fn, s, fn, tuple(int(x) for x in k), C_[k], Y_[k], sc), dict(module=M.module, fn=fn, s=s)))
    return out


def correspondence(ctx):
    rng = ctx.rng
    ctx.tie_broken = []
    if not hasattr(ctx, 'cc_models'):
        translate(ctx)
    model_arm(ctx)
    if [v for v in ctx.violations]:
        return
    validation(ctx, rng)
    if ctx.violations:
        return
    if ctx.tie_broken:
        # the source no longer matches the binary: not by itself a violation - the model arm above found no failing position; evaluate the property on
        # an emulated rebuild of the classical models (source executed from text); if that finds nothing either, report the broken tie without an input
        if not source_energy_arm(ctx, ctx.tie_broken[:1]):
            ctx.violation('translator validation broken: ' + ctx.tie_broken[0], dict(kind='tie', detail=ctx.tie_broken[:5]), found_input=False)
        return
    # source reading of the strain / stress field sources the energy oracle below is built from, and of two complete linear kernels
    from tools import source_tie
    fails_, rows_ = source_tie.run(('conecyl_clpt', 'conecyl_fsdt', 'linear_kernels'))
    ctx.evaluations += len(rows_)
    ctx.cov['source_reading'] = dict(groups=['conecyl_clpt', 'conecyl_fsdt', 'linear_kernels'], functions_compared=len(rows_),
                                     what='hand-written / generated .pyx sources executed as text (tools/cyexec.py) and compared with the compiled modules')
    if fails_:
        if not source_energy_arm(ctx, ['source reading: ' + fails_[0][0]]):
            ctx.violation('source reading: %s as written in the source no longer agrees with the compiled module (max relative difference %r); the energy oracle '
                          'of this check is built from the binary' % (fails_[0][0], fails_[0][1]),
                          dict(kind='source reading', disagreeing=[f_[0] for f_ in fails_][:8]), found_input=False)
        return
    for ident, text, rep in kernel_alpha0(ctx, rng):
        if ctx.violation('C16 fails on the implementation: ' + text, dict(kind='alpha0', **rep), identity=ident):
            return
    dist = dict(models={}, cones=0, energy=0, max_energy_err_cyl=0., max_energy_err_cone=0., min_eig=0., energy_sweep={})
    # fixed sweep: every classical Donnell model, cylinder (and one cone), DISTINCT elastic restraint on every edge and direction
    import random as _r
    for model in ['clpt_donnell_bc1', 'clpt_donnell_bc2', 'clpt_donnell_bc3', 'clpt_donnell_bc4',
                  'clpt_sanders_bc1', 'clpt_sanders_bc2', 'clpt_sanders_bc3', 'clpt_sanders_bc4']:
        for alphadeg in ([0.] if model == 'clpt_donnell_bc2' else [0., 25.]):
            if alphadeg and not ctx.thorough() and model not in ('clpt_donnell_bc4', 'clpt_sanders_bc1'):
                continue
            restr = dict(kuBot=1.1e3, kuTop=2.3e3, kvBot=3.7e3, kvTop=0.9e3, kphixBot=5.e4, kphixTop=7.e4)
            with contextlib.redirect_stdout(QUIET), np.errstate(all='ignore'):
                ce = mk(model, _r.Random(1), alphadeg, s=200 if alphadeg else 79, m1=3, m2=2, n2=2, **restr)
                ce._calc_linear_matrices(silent=True)
                H = energy_hessian(ce)
            k0e = ce.k0.toarray()
            keep = np.setdiff1d(np.arange(k0e.shape[0]), ce.excluded_dofs)
            Hu, ku = H[np.ix_(keep, keep)], k0e[np.ix_(keep, keep)]
            dd = np.sqrt(np.abs(np.diag(Hu)))
            dd[dd == 0] = 1.
            err = float((np.abs(ku - Hu) / np.outer(dd, dd)).max())
            dist['energy_sweep']['%s@%g' % (model, alphadeg)] = err
            ctx.evaluations += 1
            if err > (1e-4 if alphadeg else 1e-8):
                k = np.unravel_index(np.argmax(np.abs(ku - Hu) / np.outer(dd, dd)), ku.shape)
                if ctx.violation('C16 fails on the implementation: k0 of %s (alphadeg %g, distinct edge restraints %r) differs from the Hessian of '
                                 'the strain energy of the package\'s own strain field + edge restraints: scaled error %.3e at free entry %r: '
                                 'k0 %.6e vs d2U %.6e' % (model, alphadeg, restr, err, tuple(int(x) for x in k), ku[k], Hu[k]),
                                 dict(kind='energy_sweep', model=model, alphadeg=alphadeg, restraints=restr),
                                 identity=ID_SANDERS_BC3_ENERGY if model == 'clpt_sanders_bc3' else None):
                    return
    # fixed sweep: symmetry and positive semi-definiteness of EVERY model, cylinder and cone, on every run
    psd = {}
    for model in API_MODELS:
        for alphadeg in (0., 20.):
            with contextlib.redirect_stdout(QUIET), np.errstate(all='ignore'):
                cs_ = mk(model, _r.Random(3), alphadeg)
                cs_._calc_linear_matrices(silent=True)
            k0s = cs_.k0.toarray()
            keep = np.setdiff1d(np.arange(k0s.shape[0]), cs_.excluded_dofs)
            ku = k0s[np.ix_(keep, keep)]
            dd = np.sqrt(np.abs(np.diag(ku)))
            dd[dd == 0] = 1.
            wmin = float(np.linalg.eigvalsh(ku / np.outer(dd, dd)).min())
            psd['%s@%g' % (model, alphadeg)] = wmin
            ctx.evaluations += 1
            bad_ = None
            if np.abs(k0s - k0s.T).max() != 0:
                bad_ = (None, 'k0 of %s (alphadeg %g) is not symmetric' % (model, alphadeg))
            elif wmin < -1e-8:
                bad_ = (ID_BCN_CONE_PSD if (model == 'fsdt_donnell_bcn' and alphadeg != 0) else None,
                        'k0 of %s (alphadeg %g) is not positive semi-definite: smallest eigenvalue of the diagonally scaled free '
                        'block %.3e' % (model, alphadeg, wmin))
            if bad_ and ctx.violation('C16 fails on the implementation: ' + bad_[1],
                                      dict(kind='psd_sweep', model=model, alphadeg=alphadeg), identity=bad_[0]):
                return
    dist['psd_sweep_min_eig'] = psd
    # redefinition stream: the stiffness belongs to the CURRENT definition of the shell (deterministic cycling of the edit kinds)
    for t in range(ctx.scale(len(REDEF_EDITS), 4 * len(REDEF_EDITS))):
        desc, bad = redefinition_case(rng, t)
        ctx.evaluations += 1
        dist['redefinitions'] = dist.get('redefinitions', 0) + 1
        if bad and ctx.violation('C16 fails on the implementation: ' + bad, dict(kind='redefinition', case=desc)):
            return
    n = ctx.scale(14, 160)
    for k in range(n):
        case, props = impl_case(ctx, rng)
        ctx.evaluations += 1
        dist['models'][case['model']] = dist['models'].get(case['model'], 0) + 1
        dist['cones'] += case['alphadeg'] != 0
        if 'energy_err' in case:
            dist['energy'] += 1
            key = 'max_energy_err_cone' if case['alphadeg'] else 'max_energy_err_cyl'
            dist[key] = max(dist[key], case['energy_err'])
        dist['min_eig'] = min(dist['min_eig'], case.get('min_eig_scaled', 0.))
        if case['alphadeg'] != 0 and case['restraints']:
            ctx.nontrivial.add(json.dumps(case, sort_keys=True, default=str))
        ctx.sample(case, limit=2)
        for ident, text in props:
            if ctx.violation('C16 fails on the implementation: ' + text, dict(kind='impl', case=case), identity=ident):
                return
    ctx.cov['input_distribution'] = dist
    ctx.log('implementation arm: %d cases, %r' % (n, {k: v for k, v in dist.items() if k != 'models'}))


def source_energy_arm(ctx, reason):
    """failing-input search on the SOURCE AS WRITTEN: the classical shell models are run with their linear-kernel and commons modules executed from
    text (source_tie.conecyl_source_build: an emulated rebuild) and the energy / symmetry / PSD predicates of this check are evaluated on them -
    cylinder and a cone with several sections, an unsymmetric laminate"""
    import random as _r
    from tools import source_tie
    for model in ['clpt_donnell_bc1', 'clpt_donnell_bc3', 'clpt_donnell_bc4', 'clpt_sanders_bc1', 'clpt_sanders_bc2', 'clpt_sanders_bc4']:
        for alphadeg, s_ in ((0., 1), (35., 200)):
            ctx.evaluations += 1
            try:
                with source_tie.conecyl_source_build(model), contextlib.redirect_stdout(QUIET), np.errstate(all='ignore'):
                    ce = mk(model, _r.Random(1), alphadeg, s=s_, m1=2, m2=2, n2=2, stack=[0., 30., -45., 60.], kuBot=1.1e3, kvTop=0.9e3, kphixBot=5.e4)
                    ce._calc_linear_matrices(silent=True)
                    H = energy_hessian(ce, nx=24, nt=12)
                    k0e = ce.k0.toarray()
                    s_used = ce.s
            except Exception as e:                               # noqa
                ctx.log('source build of %s not usable: %r' % (model, e))
                continue
            # the kernels hold the radius constant per section; with few sections compare against the energy of the same piecewise-constant radius
            keep = np.setdiff1d(np.arange(k0e.shape[0]), ce.excluded_dofs)
            Hu, ku = H[np.ix_(keep, keep)], k0e[np.ix_(keep, keep)]
            dd = np.sqrt(np.abs(np.diag(Hu)))
            dd[dd == 0] = 1.
            if np.abs(ku - ku.T).max() > 1e-12 * np.abs(ku).max():
                ctx.violation('C16 fails on the source as written: k0 of %s (alphadeg %g) executed from the kernel source is not symmetric' % (model, alphadeg),
                              dict(kind='source build', model=model, alphadeg=alphadeg, broken=reason))
                return True
            err = float((np.abs(ku - Hu) / np.outer(dd, dd)).max())
            tol = 1e-8
            if alphadeg == 0. and err > tol:
                k = np.unravel_index(np.argmax(np.abs(ku - Hu) / np.outer(dd, dd)), ku.shape)
                ctx.violation('C16 fails on the source as written: k0 of %s (cylinder) executed from the kernel source differs from the Hessian of the strain '
                              'energy of the strain field of the same source: scaled error %.3e at free entry %r (k0 %.6e, d2U %.6e); the running binary is '
                              'stale w.r.t. this source' % (model, err, tuple(int(x) for x in k), ku[k], Hu[k]),
                              dict(kind='source build', model=model, alphadeg=alphadeg, broken=reason))
                return True
            if alphadeg != 0. and err > 1e-4:
                k = np.unravel_index(np.argmax(np.abs(ku - Hu) / np.outer(dd, dd)), ku.shape)
                ctx.violation('C16 fails on the source as written: k0 of %s on a %g-degree cone (s = %d sections) executed from the kernel source differs from '
                              'the Hessian of the strain energy of the strain field of the same source: scaled error %.3e at free entry %r; the running binary '
                              'is stale w.r.t. this source' % (model, alphadeg, s_used, err, tuple(int(x) for x in k)),
                              dict(kind='source build', model=model, alphadeg=alphadeg, broken=reason))
                return True
    return False


def search(ctx, reason):
    """proof / tie broken: the model arm and the implementation arm are the search"""
    try:
        if not hasattr(ctx, 'cc_models'):
            Ms = g.load_all()
            ctx.cc_models = Ms
            ctx.cc_report = []
            import random as _r
            for name, M in Ms.items():
                for cone, cyl in (('fk0', 'fk0_cyl'), ('fkG0', 'fkG0_cyl')):
                    if cone in M.fns and cyl in M.fns:
                        for n, (key, tc, ty) in enumerate(g.positions_cyl(M, cone, cyl)):
                            w = g.check_cyl_position(M, cone, cyl, tc, ty, _r.Random(g.hash_seed('cyl', name, cone, n)))
                            ctx.cc_report.append(dict(kind='cyl', model=name, fn=cone, n=n, key=list(key), holds=w is None, witness=w))
    except Exception as e:
        ctx.log('search: translator unusable (%r); implementation arm only' % (e,))
        ctx.cc_models, ctx.cc_report = {}, []
    before = len(ctx.violations)
    ctx.tie_broken = []
    model_arm(ctx)
    if len(ctx.violations) > before:
        return True
    if ctx.cc_models:
        validation(ctx, ctx.rng)
        if len(ctx.violations) > before:
            return True
    for ident, text, rep in kernel_alpha0(ctx, ctx.rng) if ctx.cc_models else []:
        if ctx.violation('C16 fails on the implementation: ' + text, dict(kind='alpha0', **rep), identity=ident):
            return True
    for k in range(ctx.scale(14, 100)):
        case, props = impl_case(ctx, ctx.rng)
        for ident, text in props:
            if ctx.violation('C16 fails on the implementation: ' + text + ' [after: %s]' % '; '.join(reason)[:200],
                             dict(kind='impl', case=case), identity=ident):
                return True
    return False


def replay(ctx, data):
    r = data['replay']
    print('replay:', json.dumps({k: v for k, v in r.items() if k != 'rec'}, default=str)[:600])
    if r.get('kind') == 'position':
        rec = r['rec']
        Ms = g.load_all(only=[rec['model']] + ([g.ISO_OF[rec['model']]] if rec['kind'] == 'iso' else []))
        M = Ms[rec['model']]
        V = {k: __import__('fractions').Fraction(v) for k, v in rec['witness']['point'].items()}
        if rec['kind'] == 'cyl':
            pos = g.positions_cyl(M, rec['fn'], rec['fn'] + '_cyl')[rec['n']]
            lhs = sum(g.lean_eval(M.terms[(rec['fn'], t)][0], g.at_ends(V)) for t in pos[1])
            rhs = sum(g.lean_eval(M.terms[(rec['fn'] + '_cyl', t)][0], V) for t in pos[2])
        else:
            Mg = Ms[g.ISO_OF[rec['model']]]
            ki, kg = M.keys(rec['fn']), Mg.keys(rec['fn'])
            key = tuple(rec['key'])
            lhs = sum(g.lean_eval(M.terms[(rec['fn'], t)][0], V) for t in ki.get(key, []))
            rhs = sum(g.lean_eval(Mg.terms[(rec['fn'], t)][0], g.iso_lam(V)) for t in kg.get(key, []))
        print('lhs', lhs, 'rhs', rhs)
        return 1 if lhs != rhs else 0
    if r.get('kind') == 'impl':
        print('implementation-arm case (re-generated from the PRNG): run ./check C16 with the same VERIF_SEED')
    return 1
