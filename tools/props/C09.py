"""C09 — Newton-Raphson driver: correspondence of Model/NewtonRaphson.lean with
compmech/analysis/newton_raphson.py::_solver_NR driven by scripted callables, plus predicates of
the property evaluated directly on the implementation's observable trace.

No hook in /repo: the callables are ours, `newton_raphson.solve` is replaced by a recording stub
(module attribute) and local variables of `_solver_NR` are read through `sys.settrace`.
"""
import linecache
import sys
import numpy as np
from fractions import Fraction

from tools.common import q, unq, driver

TRUSTED = [
    'Lean 4.33 kernel; axioms within {propext, Classical.choice, Quot.sound} (audited each run)',
    'Mathlib v4.33 (ordered fields, Archimedean property of the reals)',
    'hand-written model lean/CompmechVerif/Model/NewtonRaphson.lean of _solver_NR and of '
    'Analysis.static(NLgeom=True) - tied to the running Python by the event-trace correspondence of this check',
    'binary rounding of 1.1*inc, 0.3*inc, 1-total is not modelled (exact decimals in the model); cases whose '
    'smallest comparison margin is < 1e-9 are discarded',
]
ASSUMPTIONS = [
    'user callables are arbitrary but return; they are represented by the residual history they produce',
    'max_iter_line_search >= 1 (0 makes the line-search loop unbounded; excluded and named in DESIGN.md)',
    'line-search denominators s2 - s1 are non-zero; absTOL > 0',
    'arc-length solver is outside C09',
]
RULE = ('configurations and residual scripts from one PRNG: scenario scripts (converge at k / diverge / too slow / '
        'max-iterations per load step, incl. failure at the first step, at total=1, repeated bisection, re-growth) '
        'and pure random residual streams; line search on/off, modified/full NR, compute_every_n, kT_initial_state; '
        'non-trivial = at least one failed load step and one reported step; distinct by (config, script)')

WATCHDOG = 60000


class Abort(Exception):
    pass


class World(object):
    """scripted callables + recording"""

    def __init__(self, cfg, rs, dflt, lss):
        self.cfg, self.rs, self.dflt, self.lss = cfg, rs, dflt, lss
        self.ev = []
        self.nR = self.nLS = self.nKT = self.nSolve = self.calls = 0
        self.names = {}
        self.k0obj = ('K', 0)
        self.kobjs = {id(self.k0obj): 0}
        self.keep = [self.k0obj]
        self.last_c_id = None
        self.last_c_val = None
        self.snap = []            # copies of cs entries at the time they were appended
        self.vrng = np.random.RandomState(12345)

    # --- naming of amplitude vectors by value
    def cname(self, c, create=True):
        if c[0] == 0 and c[1] == 0:
            return 'i' + q(c[2])
        k = c.tobytes()
        if k not in self.names:
            if not create:
                return None
            self.names[k] = 'u%d' % (len(self.names) + 1)
        return self.names[k]

    def tick(self):
        self.calls += 1
        if self.calls > WATCHDOG:
            raise Abort('watchdog: more than %d callable invocations' % WATCHDOG)

    def caller_line(self):
        f = sys._getframe(2)
        return linecache.getline(f.f_code.co_filename, f.f_lineno), f

    # --- the callables
    def calc_fext(self, inc=1., silent=True):
        self.tick()
        self.ev.append(('fext', float(inc)))
        return np.array([0., 0., float(inc)])

    def calc_k0(self, silent=True):
        self.tick()
        self.ev.append(('k0',))
        return self.k0obj

    def calc_kT(self, c=None, inc=1., silent=True):
        self.tick()
        self.nKT += 1
        obj = ('K', self.nKT)
        self.keep.append(obj)
        self.kobjs[id(obj)] = self.nKT
        self.ev.append(('kT', self.cname(c), float(inc), self.nKT))
        return obj

    def calc_fint(self, c=None, inc=1., silent=True):
        self.tick()
        line, f = self.caller_line()
        fext = np.array([0., 0., float(inc)])
        if 'fint1' in line:
            s1, s2 = self.lss[self.nLS] if self.nLS < len(self.lss) else (1., 2.)
            self.ev.append(('ls', float(f.f_locals['eta1']), float(f.f_locals['eta2'])))
            return fext - np.array([s1, 0., 0.])
        if 'fint2' in line:
            s1, s2 = self.lss[self.nLS] if self.nLS < len(self.lss) else (1., 2.)
            self.nLS += 1
            return fext - np.array([s2, 0., 0.])
        r = self.rs[self.nR] if self.nR < len(self.rs) else self.dflt
        self.nR += 1
        self.ev.append(('fint', self.cname(c), float(inc), int(f.f_locals['iteration']), r))
        return fext - np.array([r, 0., 0.])

    def solve(self, a, b, silent=True, **kw):
        self.tick()
        if b[2] != 0:
            self.ev.append(('solve0', float(b[2])))
            return b.copy()
        self.nSolve += 1
        self.ev.append(('solveD', self.kobjs.get(id(a), -1)))
        return np.array([1., float(self.vrng.randint(1, 2 ** 30)) / 2 ** 31, 0.])

    # --- line tracer: rebinding of `c` inside _solver_NR, growth of run.cs
    def tracer(self, run):
        w = self

        def local(frame, event, arg):
            if event in ('line', 'return'):
                loc = frame.f_locals
                c = loc.get('c')
                if c is not None and isinstance(c, np.ndarray):
                    key = (id(c), c.tobytes())
                    if key != w.last_c_id:
                        prev = w.last_c_val
                        known = w.cname(c, create=False)
                        if known is None:
                            eta2 = float(c[0] - prev[0]) if prev is not None else float('nan')
                            w.ev.append(('update', eta2, w.cname(c)))
                        elif not known.startswith('i'):
                            w.ev.append(('restart', known))
                        w.last_c_id = key
                        w.last_c_val = c.copy()
                while len(w.snap) < len(run.cs):
                    k = len(w.snap)
                    w.snap.append(run.cs[k].copy())
                    w.ev.append(('report', float(run.increments[k]), w.cname(run.cs[k])))
            return local

        def glob(frame, event, arg):
            if frame.f_code.co_name == '_solver_NR':
                return local
            return None
        return glob


def run_impl(cfg, rs, dflt, lss):
    import compmech.analysis.newton_raphson as nr
    from compmech.analysis.analysis import Analysis
    w = World(cfg, rs, dflt, lss)
    a = Analysis(calc_fext=w.calc_fext, calc_k0=w.calc_k0, calc_fint=w.calc_fint, calc_kT=w.calc_kT)
    a.NL_method = 'NR'
    a.line_search = bool(cfg['line_search'])
    a.max_iter_line_search = cfg['max_iter_line_search']
    a.modified_NR = bool(cfg['modified_NR'])
    a.compute_every_n = cfg['compute_every_n']
    a.kT_initial_state = bool(cfg['kT_initial_state'])
    a.initialInc, a.minInc, a.maxInc = cfg['initialInc'], cfg['minInc'], cfg['maxInc']
    a.absTOL, a.maxNumIter, a.too_slow_TOL = cfg['absTOL'], cfg['maxNumIter'], cfg['too_slow_TOL']
    old_solve = nr.solve
    nr.solve = w.solve
    old_trace = sys.gettrace()
    outcome = 'returned'
    try:
        sys.settrace(w.tracer(a))
        with np.errstate(all='ignore'):
            a.static(NLgeom=True, silent=True)
    except Abort as e:
        outcome = 'abort'
    finally:
        sys.settrace(old_trace)
        nr.solve = old_solve
    return w, a, outcome


# ------------------------------------------------------------------------------- generation
def gen_cfg(rng):
    cfg = dict(
        initialInc=rng.choice([0.3, 0.5, 1.0, 0.2, 0.1, 0.37, 0.25]),
        minInc=rng.choice([1e-3, 1e-2, 0.05, 2e-3]),
        maxInc=rng.choice([1.0, 0.5, 0.3, 0.2, 0.05]),
        absTOL=rng.choice([1e-3, 1e-2, 0.5, 1e-5, 1e-4, 1e-6]),       # also well below every other tolerance attribute of the run object
        too_slow_TOL=rng.choice([0.01, 0.05]),
        maxNumIter=rng.choice([3, 4, 6, 10, 30]),
        line_search=rng.random() < 0.4,
        max_iter_line_search=rng.choice([1, 2, 5, 20]),
        modified_NR=rng.random() < 0.6,
        compute_every_n=rng.choice([1, 2, 3, 6]),
        kT_initial_state=rng.random() < 0.5,
    )
    return cfg


def gen_script(rng, cfg):
    tol = cfg['absTOL']
    rs = []
    nsteps = rng.choice([3, 6, 10, 20, 40])
    mode = rng.random()
    pfail = rng.choice([0.0, 0.15, 0.4, 0.7, 0.95])
    for s in range(nsteps):
        if mode < 0.15:      # pure random stream
            rs.append(tol * rng.choice([0.1, 0.5, 2., 5., 50., 500.]) * rng.uniform(0.5, 1.5))
            continue
        if rng.random() >= pfail:
            k = rng.choice([2, 2, 3, 4, min(5, cfg['maxNumIter'])])
            k = max(2, min(k, cfg['maxNumIter']))
            r = tol * rng.uniform(50, 500)
            for _ in range(k - 1):
                rs.append(r)
                r *= rng.uniform(0.05, 0.4)
            rs.append(tol * rng.uniform(0.01, 0.9))
        else:
            kind = rng.choice(['diverge', 'tooslow', 'maxiter'])
            r = tol * rng.uniform(50, 500)
            if kind == 'diverge' and cfg['maxNumIter'] >= 3:
                rs += [r, r * 0.5, r * 0.8]
            elif kind == 'tooslow' and cfg['maxNumIter'] >= 3:
                rs += [r, r * 0.5, r * 0.5 * (1 - cfg['too_slow_TOL'] * rng.uniform(0.05, 0.5))]
            else:
                for _ in range(cfg['maxNumIter']):
                    rs.append(r)
                    r *= rng.uniform(0.7, 0.9)
    dflt = tol * rng.choice([0.5, 0.5, 0.5, 20.])
    lss = []
    if cfg['line_search']:
        for _ in range(len(rs) * 3 + 5):
            s1 = rng.uniform(-2, 2)
            s2 = s1 + rng.choice([-1, 1]) * rng.uniform(0.05, 3)
            lss.append((s1, s2))
    return rs, dflt, lss


def model_line(cfg, rs, dflt, lss, fuel=4000):
    return 'C09 run %s %s %s %s %s %d %d %d %d %d %d %d | %s | %s' % (
        q(cfg['initialInc']), q(cfg['minInc']), q(cfg['maxInc']), q(cfg['absTOL']), q(cfg['too_slow_TOL']),
        cfg['maxNumIter'], cfg['line_search'], cfg['max_iter_line_search'], cfg['modified_NR'],
        cfg['compute_every_n'], cfg['kT_initial_state'], fuel,
        ' '.join(q(x) for x in [dflt] + rs), ' ; '.join('%s %s' % (q(a), q(b)) for a, b in lss))


def parse_model(reply):
    oc, margin, evs = [x.strip() for x in reply.split('|')]
    out = []
    for t in evs.split():
        p = t.split(':')
        k = p[0]
        if k == 'fext' or k == 'solve0':
            out.append((k, unq(p[1])))
        elif k == 'k0' or k == 'stopMin':
            out.append((k,))
        elif k == 'kT':
            out.append((k, p[1], unq(p[2]), int(p[3])))
        elif k == 'fint':
            out.append((k, p[1], unq(p[2]), int(p[3]), unq(p[4])))
        elif k == 'solveD':
            out.append((k, int(p[1])))
        elif k == 'ls':
            out.append((k, unq(p[1]), unq(p[2])))
        elif k == 'update':
            out.append((k, unq(p[1]), p[2]))
        elif k == 'report':
            out.append((k, unq(p[1]), p[2]))
        elif k == 'restart':
            out.append((k, p[1]))
        else:
            raise ValueError(t)
    return oc, unq(margin), out


def canon(evs):
    """rename u-ids by first appearance; init ids keep their increment (compared approximately)"""
    ren = {}

    def nm(c):
        if c.startswith('i'):
            return ('i', unq(c[1:]))
        if c not in ren:
            ren[c] = len(ren) + 1
        return ('u', ren[c])
    out = []
    for e in evs:
        k = e[0]
        if k in ('kT', 'fint'):
            out.append((k, nm(e[1])) + tuple(e[2:]))
        elif k in ('update', 'report'):
            out.append((k, e[1], nm(e[2])))
        elif k == 'restart':
            out.append((k, nm(e[1])))
        else:
            out.append(e)
    return out


def approx(a, b):
    if isinstance(a, tuple) and isinstance(b, tuple):
        return len(a) == len(b) and all(approx(x, y) for x, y in zip(a, b))
    if isinstance(a, (float, Fraction)) or isinstance(b, (float, Fraction)):
        if isinstance(a, str) or isinstance(b, str):
            return False
        if a != a or b != b:
            return False
        return abs(Fraction(a) - Fraction(b)) <= Fraction(1, 10 ** 9) * max(1, abs(Fraction(a)))
    return a == b


def diff_traces(model_evs, impl_evs):
    m = canon([e for e in model_evs if e[0] != 'stopMin'])
    # an `update` whose vector is never used again is invisible by value on the implementation side only if
    # the loop ends right after it; the tracer still sees the rebinding, so both sides list every update
    i = canon(impl_evs)
    for k in range(max(len(m), len(i))):
        a = m[k] if k < len(m) else None
        b = i[k] if k < len(i) else None
        if a is None or b is None or not approx(a, b):
            return 'event %d: model %r, implementation %r' % (k, a, b)
    return None


# ------------------------------------------------------------------------------- property predicates on the implementation
def predicates(cfg, w, a, outcome):
    """returns list of (identity or None, text)"""
    bad = []
    if outcome == 'abort':
        return [(None, 'analysis did not terminate within %d callable invocations' % WATCHDOG)]
    incs = [float(x) for x in a.increments]
    for k in range(len(incs)):
        if not (0 < incs[k] <= 1):
            bad.append((None, 'reported load factor %r outside (0, 1]' % incs[k]))
        if k and not incs[k] > incs[k - 1]:
            bad.append((None, 'reported load factors not strictly increasing: %r' % incs))
    # every reported pair was the subject of a residual evaluation below absTOL at iteration >= 2
    fints = [e for e in w.ev if e[0] == 'fint']
    for k, (t, c) in enumerate(zip(incs, a.cs)):
        nm = w.cname(np.asarray(c), create=False)
        ok = any(e[1] == nm and e[2] == t and e[4] < cfg['absTOL'] and e[3] >= 2 for e in fints)
        if not ok:
            bad.append((None, 'reported pair %d (load factor %r) was never evaluated with Rmax < absTOL' % (k, t)))
    for k, c in enumerate(a.cs):
        if k < len(w.snap) and not np.array_equal(w.snap[k], c):
            bad.append((None, 'reported state %d was altered after it was reported' % k))
    # termination condition
    if incs and incs[-1] == 1.0:
        pass
    else:
        # finished below 1: either the increment fell below minInc (allowed) or the driver stopped near 1
        stopped_min = (not w.finished_flag) and w.final_inc is not None and w.final_inc < cfg['minInc']
        if not stopped_min:
            if incs and abs(incs[-1] - 1) < 1e-3:
                bad.append(('C09-finish-within-1e-3', 'analysis ended with last load factor %r != 1 although the '
                            'increment never fell below minInc' % incs[-1]))
            else:
                bad.append((None, 'analysis ended with last load factor %r and increment %r >= minInc'
                            % (incs[-1] if incs else None, w.final_inc)))
    return bad


def final_inc_tracer_patch():
    """extend World.tracer to remember the last value of `inc` in _solver_NR"""
    orig = World.tracer

    def tracer(self, run):
        g = orig(self, run)
        w = self
        w.final_inc = None
        w.finished_flag = None

        def glob(frame, event, arg):
            loc = g(frame, event, arg)
            if loc is None:
                return None

            def local(fr, ev, ar):
                if 'inc' in fr.f_locals:
                    w.final_inc = float(fr.f_locals['inc'])
                if ev == 'return':
                    w.finished_flag = bool(fr.f_locals.get('finished', False))
                loc(fr, ev, ar)
                return local
            return local
        return glob
    World.tracer = tracer


final_inc_tracer_patch()


def one(ctx, cfg, rs, dflt, lss, reply):
    """compare one case; returns 'discard', None (agree) or a description; also evaluates predicates"""
    oc, margin, mev = parse_model(reply)
    w, a, outcome = run_impl(cfg, rs, dflt, lss)
    props = predicates(cfg, w, a, outcome)
    if margin < Fraction(1, 10 ** 9):
        return 'discard', props, w, a
    d = diff_traces(mev, w.ev)
    if d is None:
        want = 'finished' if w.finished_flag else 'minInc'
        if oc != want and outcome != 'abort':
            d = 'outcome: model %s, implementation %s' % (oc, want)
    return d, props, w, a


def correspondence(ctx):
    n = ctx.scale(300, 6000)
    rng = ctx.rng
    cases = []
    for _ in range(n):
        cfg = gen_cfg(rng)
        rs, dflt, lss = gen_script(rng, cfg)
        cases.append((cfg, rs, dflt, lss))
    cases = CORPUS + cases
    replies = driver([model_line(*c) for c in cases])
    dist = dict(outcomes={}, discarded=0, with_failures=0, line_search=0, modified=0, reports={}, events=0,
                fail_at_total_1=0, first_step_failure=0)
    first_d = None
    for (cfg, rs, dflt, lss), rep in zip(cases, replies):
        ctx.evaluations += 1
        if rep.startswith('err'):
            raise RuntimeError('driver: ' + rep)
        d, props, w, a = one(ctx, cfg, rs, dflt, lss, rep)
        oc = rep.split('|')[0].strip()
        dist['outcomes'][oc] = dist['outcomes'].get(oc, 0) + 1
        dist['line_search'] += cfg['line_search']
        dist['modified'] += cfg['modified_NR']
        nrep = len(a.increments)
        dist['reports'][min(nrep, 10)] = dist['reports'].get(min(nrep, 10), 0) + 1
        dist['events'] += len(w.ev)
        nfail = sum(1 for e in w.ev if e[0] == 'restart') + sum(1 for e in w.ev if e[0] == 'solve0') - 1 - nrep
        failed = len([e for e in w.ev if e[0] == 'fext']) - 1 > nrep
        dist['with_failures'] += failed
        dist['first_step_failure'] += sum(1 for e in w.ev if e[0] == 'solve0') > 1
        if failed and nrep:
            ctx.nontrivial.add(model_line(cfg, rs, dflt, lss))
        ctx.sample(dict(cfg=cfg, residual_script=rs[:12], model_reply=rep[:300]), limit=2)
        for ident, text in props:
            if ctx.violation('C09 fails on the implementation: ' + text,
                             dict(cfg=cfg, rs=rs, dflt=dflt, lss=lss), identity=ident):
                return
        if d == 'discard':
            dist['discarded'] += 1
            continue
        if d and first_d is None:
            # a broken correspondence is not by itself a violation: keep evaluating the property's own predicates on
            # the remaining cases (and on a further search stream) looking for a concrete failing history
            first_d = (d, dict(cfg=cfg, rs=rs, dflt=dflt, lss=lss, correspondence='Model/NewtonRaphson.lean vs _solver_NR'))
    if first_d is not None:
        if not search(ctx, ['trace disagreement: ' + first_d[0]]):
            linear_problem(ctx)
            if not ctx.violations:
                ctx.violation('model/implementation trace disagreement (%s); the property predicates hold on every explored '
                              'history' % first_d[0], first_d[1], found_input=False)
        return
    linear_problem(ctx)
    ctx.cov['input_distribution'] = dist
    ctx.cov['traces_validated_against_impl'] = ctx.evaluations - dist['discarded']


def linear_problem(ctx):
    """'a linear problem is solved to full load with the linear solution' on the real solver, real sparse.solve"""
    from compmech.analysis.analysis import Analysis
    from scipy.sparse import csr_matrix
    rng = ctx.rng
    for trial in range(ctx.scale(20, 200)):
        nn = rng.choice([2, 3, 5])
        M = np.array([[rng.uniform(-1, 1) for _ in range(nn)] for _ in range(nn)])
        Kd = M @ M.T + nn * np.eye(nn)
        f = np.array([rng.uniform(-1, 1) for _ in range(nn)])
        K = csr_matrix(Kd)
        a = Analysis(calc_fext=lambda inc=1., silent=True: inc * f, calc_k0=lambda silent=True: K,
                     calc_fint=lambda c, inc=1., silent=True: Kd @ c, calc_kT=lambda c, inc=1., silent=True: K)
        a.initialInc = rng.choice([0.3, 0.5, 1.0, 0.2, 0.3333, 0.25])
        a.maxInc = rng.choice([1.0, a.initialInc])
        a.absTOL = 1e-8
        a.line_search = rng.random() < 0.5
        a.modified_NR = rng.random() < 0.5
        with np.errstate(all='ignore'):
            incs, cs = a.static(NLgeom=True, silent=True)
        ctx.evaluations += 1
        lin = np.linalg.solve(Kd, f)
        cfgd = dict(initialInc=a.initialInc, maxInc=a.maxInc, K=Kd.tolist(), f=f.tolist(),
                    line_search=a.line_search, modified_NR=a.modified_NR, linear=True)
        if not incs:
            ctx.violation('linear problem: nothing reported', cfgd)
            return
        if incs[-1] != 1.0:
            if ctx.violation('linear problem ended at load factor %r != 1' % incs[-1], cfgd,
                             identity='C09-finish-within-1e-3' if abs(incs[-1] - 1) < 1e-3 else None):
                return
        for t, c in zip(incs, cs):
            if np.abs(c - t * lin).max() > 1e-6 * max(1, np.abs(lin).max()):
                ctx.violation('linear problem: reported state at %r is not the linear solution' % t, cfgd)
                return


# minimised past disagreements / witnesses of listed findings: run first
CORPUS = [
    # failure at total = 1 followed by approach by halves: ends within 1e-3 of 1 (known finding)
    (dict(initialInc=0.5, minInc=1e-3, maxInc=0.5, absTOL=1e-3, too_slow_TOL=0.01, maxNumIter=3, line_search=False,
          max_iter_line_search=20, modified_NR=True, compute_every_n=6, kT_initial_state=True),
     [1., 1e-4, 1., 1e-4, 1., 0.5, 0.8], 1e-4, []),
]


def search(ctx, reason):
    rng = ctx.rng
    for _ in range(ctx.scale(300, 3000)):
        cfg = gen_cfg(rng)
        rs, dflt, lss = gen_script(rng, cfg)
        w, a, outcome = run_impl(cfg, rs, dflt, lss)
        ctx.evaluations += 1
        for ident, text in predicates(cfg, w, a, outcome):
            if ctx.violation('C09 fails on the implementation: ' + text + ' [after: %s]' % '; '.join(reason)[:300],
                             dict(cfg=cfg, rs=rs, dflt=dflt, lss=lss), identity=ident):
                return True
    return False


def replay(ctx, data):
    r = data['replay']
    if 'cfg' not in r:
        print('replay names a broken obligation, no input:', data['what'])
        return 1
    if r.get('linear') or r['cfg'].get('linear'):
        print('linear-problem witness:', r)
        return 1
    cfg, rs, dflt, lss = r['cfg'], r['rs'], r['dflt'], [tuple(x) for x in r['lss']]
    rep = driver([model_line(cfg, rs, dflt, lss)])[0]
    d, props, w, a = one(ctx, cfg, rs, dflt, lss, rep)
    print('increments:', a.increments)
    print('trace disagreement:', d)
    print('property predicates:', props)
    return 1 if (props or (d and d != 'discard')) else 0
