"""C05 - linear buckling glue: correspondence of Model/EigPost.lean (`lb`) with
compmech/analysis/linear_buckling.py::lb, compmech/sparse.py::remove_null_cols and Panel.lb, plus the
predicates of the property evaluated directly on the implementation.

No hook in /repo: the module attributes `compmech.analysis.linear_buckling.eigsh/eigh` (for Panel.lb:
`compmech.panel._panel.eigsh`, `scipy.linalg.eigh`) are replaced by recording wrappers for the duration of one
call; what the solvers really returned (or that they raised) is fed to the model, which must reproduce the
requests made to the solvers and the final `(eigvals, eigvecs)` / the exception of the glue.
The helpers of this file are shared with tools/props/C06.py.
"""
import re
import sys
import numpy as np
import scipy.linalg
from fractions import Fraction
from scipy.sparse import csr_matrix, issparse

from tools.common import q, unq, driver

TRUSTED = [
    'Lean 4.33 kernel; axioms within {propext, Classical.choice, Quot.sound} (audited each run)',
    'Mathlib v4.33 (ordered fields, floor rings, list lemmas)',
    'hand-written model lean/CompmechVerif/Model/EigPost.lean of the glue of lb / Panel.lb / remove_null_cols - '
    'tied to the running Python by the request/result correspondence of this check (equal to the code only on '
    'what the harness explored)',
    'external numerics as recorded contract `SolverOK` (validated on every sample, not verified): ARPACK eigsh '
    '(shift-invert sigma=1, mode=cayley, which=SM: k pairs KG v = mu K v of smallest |(mu+1)/(mu-1)|, ascending mu), '
    'LAPACK eigh (all pairs, ascending mu), SuperLU singularity detection (first eigsh call raises when K has a '
    'null column), scipy csr slicing / duplicate summation / nonzero()',
    'numpy fancy-index assignment semantics (broadcast rules) as modelled by `assignRows`',
    'binary rounding of -1./mu is not modelled (exact in the model; compared to 1e-9)',
]
ASSUMPTIONS = [
    'K symmetric, positive definite on its active amplitudes, null rows/columns elsewhere; KG symmetric and '
    'null wherever K is (amplitudes without stiffness carry no geometric stiffness)',
    'sizes n >= 5, at least 2 active amplitudes (ARPACK needs 0 < k < N), 1 <= num_eigvalues <= 25, tol = 0',
    'a pair is a multiplier together with its mode: eigvals[i], eigvecs[:, i] for i < min(len, columns) - the '
    'dense path returns all multipliers but only num_eigvalues modes; the unpaired tail is not judged',
    '"to solver precision": normwise backward error ||(K+lam*KG)v|| / ((||K||_F+|lam|*||KG||_F)*||v||) <= 1e-7',
    '"sub-critical and destabilising": the exact pencil has at least as many positive multipliers as pairs are '
    'returned and none in (0, 1]; with fewer positive multipliers only the positive prefix is judged',
    'ARPACK non-convergence is a failure of the external solver (counted, not a property violation)',
]
RULE = ('problems from one PRNG: random symmetric pairs (dense for small sizes, banded for large) with K SPD on a '
        'random subset of amplitudes, KG negative definite / indefinite / semi-definite, scaled to a prescribed '
        'smallest positive multiplier (sub- and super-critical), and genuine Panel matrices (plate, plate_w, '
        'cpanel, kpanel; m, n <= 6); every problem is run through the sparse and the dense path, a load-scaled '
        'variant and (panels) Panel.lb; non-trivial = at least one null amplitude and one returned pair, or a '
        'glue exception; distinct by (generator parameters, path)')

TOL_RES = 1e-7
TOL_VAL = 1e-6
MARGIN = 1e-9


# ----------------------------------------------------------------------------- encoding for the driver
def coo_text(A):
    """canonical COO triplets `r c v ...` of a (sparse) matrix as scipy's csr conversion holds it"""
    A = csr_matrix(A)
    A.sum_duplicates()
    C = A.tocoo()
    return ' '.join('%d %d %s' % (r, c, q(v)) for r, c, v in zip(C.row.tolist(), C.col.tolist(), C.data.tolist()))


def res_text(out, cplx=False):
    """solver result `(vals, vecs)` or None -> protocol field"""
    if out is None:
        return 'none'
    vals, vecs = out
    vals = np.asarray(vals)
    vecs = np.asarray(vecs)
    if vecs.ndim != 2 or vals.ndim != 1:
        raise ValueError('unexpected solver output shapes %r %r' % (vals.shape, vecs.shape))
    if cplx:
        vt = ' '.join('%s %s' % (q(z.real), q(z.imag)) for z in vals.astype(complex).tolist())
        et = ' '.join('%s %s' % (q(z.real), q(z.imag)) for z in vecs.T.astype(complex).reshape(-1).tolist())
    else:
        vt = ' '.join(q(x) for x in vals.tolist())
        et = ' '.join(q(x) for x in vecs.T.reshape(-1).tolist())
    return '%s ; %d %d ; %s' % (vt, vecs.shape[0], vecs.shape[1], et)


def finite_out(out):
    return out is None or (np.all(np.isfinite(out[0])) and np.all(np.isfinite(out[1])))


def parse_reply(rep, cplx=False):
    """-> dict(reqs=[...], ok=bool, shape, vals, ents, err, margin)"""
    parts = [p.strip() for p in rep.split('|')]
    if parts[0].startswith('err parse') or parts[0].startswith('err unknown'):
        raise RuntimeError('driver: ' + rep[:200])
    d = dict(reqs=parts[0].split(), ok=False, err=None, margin=None)
    st = parts[1].split()
    if st[0] == 'err':
        d['err'] = st[1:]
        return d
    d['ok'] = True
    d['shape'] = (int(st[1]), int(st[2]))
    toks = parts[2].split()
    ents = parts[3].split()
    if cplx:
        d['vals'] = [(unq(toks[i]), unq(toks[i + 1])) for i in range(0, len(toks), 2)]
        d['ents'] = [(unq(ents[i]), unq(ents[i + 1])) for i in range(0, len(ents), 2)]
        d['margin'] = unq(parts[4])
    else:
        d['vals'] = [None if t == 'inf' else unq(t) for t in toks]
        d['ents'] = [unq(t) for t in ents]
    return d


def fclose(x, y, scale, rel=1e-9):
    """float x matches exact y"""
    return abs(Fraction(float(x)) - y) <= Fraction(rel) * Fraction(float(scale)) + Fraction(1, 10 ** 300)


# ----------------------------------------------------------------------------- recording wrappers
class Recorder(object):
    """replaces module attributes by recording wrappers for the duration of a `with` block"""

    def __init__(self, targets):
        self.targets = targets      # list of (module, attribute name, solver name)
        self.calls = []
        self.saved = []

    def wrap(self, solver, real):
        rec = self

        def f(*a, **kw):
            e = dict(solver=solver, nargs=len(a), kw=dict(kw))
            e['a'] = kw.get('A', kw.get('a', a[0] if a else None))
            e['b'] = kw.get('M', kw.get('b', a[1] if len(a) > 1 else None))
            rec.calls.append(e)
            try:
                out = real(*a, **kw)
            except Exception as ex:
                e['exc'] = ex
                raise
            e['out'] = (np.array(out[0], copy=True), np.array(out[1], copy=True))
            return out
        return f

    def __enter__(self):
        for mod, attr, solver in self.targets:
            real = getattr(mod, attr)
            self.saved.append((mod, attr, real))
            setattr(mod, attr, self.wrap(solver, real))
        return self

    def __exit__(self, *a):
        for mod, attr, real in self.saved:
            setattr(mod, attr, real)
        self.saved = []


class LineTracer(object):
    """executed lines of the modelled functions (coverage of the tie)"""

    def __init__(self, funcs):
        self.codes = dict((f.__code__, f.__name__) for f in funcs)
        self.hit = dict((f.__name__, set()) for f in funcs)
        self.old = None

    def all_lines(self, f):
        import dis
        doc_end = f.__code__.co_firstlineno
        lines = set(l for _, l in dis.findlinestarts(f.__code__) if l is not None)
        lines.discard(f.__code__.co_firstlineno)
        return lines

    def glob(self, frame, event, arg):
        nm = self.codes.get(frame.f_code)
        if nm is None:
            return None
        hit = self.hit[nm]

        def local(fr, ev, ar):
            if ev == 'line':
                hit.add(fr.f_lineno)
            return local
        return local

    def __enter__(self):
        self.old = sys.gettrace()
        sys.settrace(self.glob)
        return self

    def __exit__(self, *a):
        sys.settrace(self.old)


def mat_desc(X, named, n, idx_hint):
    """describe the matrix handed to a solver in the model's vocabulary, e.g. `KG[*]`, `-M[0,2,5]d`;
    `named` = [(name, original csr)], `idx_hint` = index list claimed by the model (verified here)"""
    dense = isinstance(X, np.ndarray)
    Xs = csr_matrix(X)
    for name, A in named:
        for neg in (False, True):
            B = -A if neg else A
            if Xs.shape == B.shape and idx_hint is None and (Xs != B).nnz == 0:
                return ('-' if neg else '') + name + '[*]' + ('d' if dense else '')
            if idx_hint is not None and Xs.shape == (len(idx_hint), len(idx_hint)):
                S = B[idx_hint, :][:, idx_hint] if len(idx_hint) else B[:0, :0]
                if (Xs != S).nnz == 0:
                    return ('-' if neg else '') + name + '[' + ','.join(map(str, idx_hint)) + ']' + ('d' if dense else '')
    return '?'


def req_hint(req):
    """index lists claimed by one model request string -> (idx_a, idx_b)"""
    f = req.split(':')
    out = []
    for s in (f[1], f[2]):
        m = re.search(r'\[(.*)\]', s)
        body = m.group(1)
        out.append(None if body == '*' else ([int(x) for x in body.split(',')] if body else []))
    return out


def call_desc(e, named, n, hint):
    kw = e['kw']

    def opt(k, conv=str):
        return conv(kw[k]) if k in kw and kw[k] is not None else '-'

    def sig(x):
        return '%d' % int(x) if float(x) == int(x) else repr(x)
    return ':'.join([e['solver'], mat_desc(e['a'], named, n, hint[0]), mat_desc(e['b'], named, n, hint[1]),
                     opt('k'), opt('which'), opt('sigma', sig), opt('mode')])


def compare_requests(model_reqs, calls, named, n):
    """None if the recorded solver calls are exactly the model's requests"""
    if len(model_reqs) != len(calls):
        return 'number of solver calls: model %d, implementation %d (%s)' % (
            len(model_reqs), len(calls), [c['solver'] for c in calls])
    for k, (mr, c) in enumerate(zip(model_reqs, calls)):
        d = call_desc(c, named, n, req_hint(mr))
        if d != mr:
            return 'solver call %d: model %s, implementation %s' % (k + 1, mr, d)
        if c['nargs'] or float(c['kw'].get('tol', 0) or 0) != 0.0:
            return 'solver call %d: unexpected positional arguments / tol' % (k + 1)
    return None


SHAPE_RE = re.compile(r'shape \((\d+),\s*(\d+)\) could not be broadcast to indexing result of shape \((\d+),\s*(\d+)\)')


def compare_error(merr, outcome, calls):
    """model error vs the exception of the implementation"""
    if outcome[0] != 'exc':
        return 'model predicts exception %s, implementation returned' % ' '.join(merr)
    ex = outcome[1]
    if merr[0] == 'shapeMismatch':
        m = SHAPE_RE.search(str(ex))
        if not (isinstance(ex, ValueError) and m and [int(g) for g in m.groups()] == [int(x) for x in merr[1:]]):
            return 'model predicts shape mismatch %s, implementation raised %r' % (merr[1:], ex)
        return None
    if merr[0] == 'solverRaised':
        k = int(merr[1])
        if len(calls) < k or calls[k - 1].get('exc') is not ex:
            return 'model predicts the exception of solver call %d to propagate, implementation raised %r' % (k, ex)
        return None
    if merr[0] == 'columnStack':
        if not (isinstance(ex, ValueError) and 'must match exactly' in str(ex)):
            return 'model predicts column_stack mismatch, implementation raised %r' % (ex,)
        return None
    return 'model predicts %s, implementation raised %r' % (merr, ex)


# ----------------------------------------------------------------------------- problem generation
def rand_spd(rs, m, banded):
    if not banded:
        A = rs.randn(m, m)
        S = A @ A.T / m + np.eye(m) * rs.uniform(0.3, 2.0)
    else:
        S = np.zeros((m, m))
        for d in range(1, rs.randint(2, 7)):
            if d < m:
                v = rs.uniform(-1, 1, m - d)
                S += np.diag(v, d) + np.diag(v, -d)
        for _ in range(rs.randint(0, 4)):
            i, j = rs.randint(0, m, 2)
            if i != j:
                v = rs.uniform(-1, 1)
                S[i, j] += v
                S[j, i] += v
        S += np.diag(np.abs(S).sum(axis=1) + rs.uniform(0.2, 2.0, m))
    return S * 10 ** rs.uniform(-1, 3)


def rand_sym(rs, m, banded, kind):
    if kind == 'negdef':
        return -rand_spd(rs, m, banded)
    if kind == 'semidef':       # like a panel: geometric stiffness on part of the active amplitudes only
        G = np.zeros((m, m))
        sub = np.sort(rs.choice(m, size=max(1, m // 2), replace=False))
        G[np.ix_(sub, sub)] = -rand_spd(rs, len(sub), banded)
        return G
    if not banded:
        A = rs.randn(m, m)
        return (A + A.T) * 10 ** rs.uniform(-1, 2)
    S = np.zeros((m, m))
    for d in range(0, rs.randint(2, 6)):
        if d < m:
            v = rs.uniform(-1, 1, m - d)
            S += np.diag(v, d) + (np.diag(v, -d) if d else 0)
    return S * 10 ** rs.uniform(-1, 2)


def conv(A, fmt):
    A = csr_matrix(A)
    return A.tocoo() if fmt == 'coo' else (A.tocsc() if fmt == 'csc' else A)


def embed(S, n, act):
    F = np.zeros((n, n))
    F[np.ix_(act, act)] = S
    return F


def gen_params(rng, ctx_thorough, big=False):
    """parameters of one random problem (everything needed to rebuild it)"""
    if big:
        n = rng.choice([120, 200, 300, 400])
    elif ctx_thorough:
        n = rng.choice([5, 6, 7, 8, 9, 10, 12, 15, 20, 27, 30, 40, 60, 80, 100])
    else:
        n = rng.choice([5, 6, 7, 8, 9, 10, 12, 15, 20, 27, 30, 40, 60])
    r = rng.random()
    if r < 0.35:
        nnull = 0
    elif r < 0.6:
        nnull = 1
    else:
        nnull = rng.randint(1, max(1, n - 3))
    nact = n - nnull
    num = rng.randint(1, 25) if rng.random() < 0.4 else rng.randint(1, max(1, min(25, nact - 2)))
    return dict(kind='random', seed=rng.randrange(2 ** 31), n=n, nnull=nnull, num=num,
                fmt=rng.choice(['csr', 'csr', 'coo', 'csc']),
                gkind=rng.choice(['negdef', 'negdef', 'indef', 'semidef']),
                target=(10 ** rng.uniform(0.08, 2)) if rng.random() < 0.85 else (10 ** rng.uniform(-1.5, -0.05)),
                scale=rng.choice([0.25, 0.5, 0.8, 2.0, 3.0]),
                kkind=('chain' if rng.random() < 0.2 else 'random'),
                # a reference load many orders of magnitude below critical (unit load on a stiff structure), dense path
                xscale=(rng.choice([1e-9, 1e-10, 3e-11, 1e-7]) if (rng.random() < 0.3 and not big) else None),
                units=(rng.choice([1e-12, 1e-15, 1e-10, 1e9]) if (rng.random() < 0.3 and not big) else None))


def build_random(p):
    rs = np.random.RandomState(p['seed'])
    n = p['n']
    act = np.sort(rs.choice(n, size=n - p['nnull'], replace=False))
    m = len(act)
    banded = m > 80
    Ka = rand_spd(rs, m, banded)
    if p.get('kkind') == 'chain' and m >= 3:
        # spring chain k*tridiag(-1, 2, -1): positive definite although every interior column sums EXACTLY to zero
        Ka = float(rs.choice([1., 4., 1000.])) * (2 * np.eye(m) - np.eye(m, k=1) - np.eye(m, k=-1))
    Ga = rand_sym(rs, m, banded, p['gkind'])
    mu = scipy.linalg.eigh(Ga, Ka, eigvals_only=True)
    neg = mu[mu < -1e-12 * max(1e-300, np.abs(mu).max())]
    if len(neg):
        lam_min = -1. / neg.min()
        Ga = Ga * (lam_min / p['target'])
    return conv(embed(Ka, n, act), p.get('fmt', 'csr')), conv(embed(Ga, n, act), p.get('fmt', 'csr')), act


PANEL_MODELS = ['plate_clt_donnell_bardell', 'plate_clt_donnell_bardell_w', 'cpanel_clt_donnell_bardell',
                'kpanel_clt_donnell_bardell']


def make_panel(p):
    from compmech.panel import Panel
    pn = Panel()
    pn.m, pn.n = p['m'], p['nn']
    pn.stack = [0, 90, -45, +45]
    pn.plyt = 0.125e-3
    pn.laminaprop = (142.5e9, 8.7e9, 0.28, 5.1e9, 5.1e9, 5.1e9)
    pn.model = p['model']
    pn.a, pn.b, pn.r, pn.alphadeg = p['a'], p['b'], 10., 0.
    if 'kpanel' in p['model']:
        pn.r, pn.alphadeg = 10., 5.
    pn.mu = 1.3e3
    pn.Nxx, pn.Nyy, pn.Nxy = p['Nxx'], p['Nyy'], p.get('Nxy', 0.)
    return pn


def gen_panel_params(rng):
    load = rng.choice([(-1., 0.), (0., -1.), (-1., -0.5), (-1., 0.3)])
    return dict(kind='panel', model=rng.choice(PANEL_MODELS), m=rng.randint(4, 6), nn=rng.randint(4, 6),
                a=rng.choice([1., 0.7, 2.]), b=rng.choice([0.5, 1.]), Nxx=load[0], Nyy=load[1],
                num=rng.choice([1, 2, 3, 5, 5, 8, 12, 25]), scale=rng.choice([0.5, 2.0, 3.0]))


def build_panel(p):
    pn = make_panel(p)
    k0 = csr_matrix(pn.calc_k0(silent=True))
    kG0 = csr_matrix(pn.calc_kG0(silent=True))
    act = np.unique(k0.nonzero()[1])
    return k0, kG0, act


def build(p):
    return build_random(p) if p['kind'] == 'random' else build_panel(p)


# ----------------------------------------------------------------------------- running the implementation
def run_lb(K, KG, num, sparse, tracer=None):
    """-> (outcome, calls); outcome = ('ok', eigvals, eigvecs) | ('exc', exception)"""
    import compmech.analysis.linear_buckling as L
    import warnings
    with Recorder([(L, 'eigsh', 'eigsh'), (L, 'eigh', 'eigh')]) as rec:
        try:
            with np.errstate(all='ignore'), warnings.catch_warnings():
                warnings.simplefilter('ignore')
                if tracer is not None:
                    with tracer:
                        ev, evec = L.lb(K, KG, sparse_solver=sparse, silent=True, num_eigvalues=num)
                else:
                    ev, evec = L.lb(K, KG, sparse_solver=sparse, silent=True, num_eigvalues=num)
            outcome = ('ok', np.asarray(ev), np.asarray(evec))
        except Exception as ex:
            outcome = ('exc', ex)
    return outcome, rec.calls


def run_panel_lb(p, num, sparse):
    """Panel.lb (second copy of the glue, k = num_eigvalues); -> (outcome, calls, K, KG)"""
    import compmech.panel._panel as P
    import warnings
    pn = make_panel(p)
    pn.num_eigvalues = num
    with Recorder([(P, 'eigsh', 'eigsh'), (scipy.linalg, 'eigh', 'eigh')]) as rec:
        try:
            with np.errstate(all='ignore'), warnings.catch_warnings():
                warnings.simplefilter('ignore')
                pn.lb(sparse_solver=sparse, silent=True)
            outcome = ('ok', np.asarray(pn.eigvals), np.asarray(pn.eigvecs))
        except Exception as ex:
            outcome = ('exc', ex)
    K = csr_matrix(pn.k0 + pn.k0 * 0)
    KG = csr_matrix(pn.kG0)
    return outcome, rec.calls, K, KG


def solver_results(calls):
    """(first, second) solver results as the model wants them (None = raised / not made)"""
    outs = [c.get('out') for c in calls]
    while len(outs) < 2:
        outs.append(None)
    return outs[0], outs[1]


def model_line(n, num, kmin, sparse, K, first, second):
    return 'C05 lb %d %d %d %d | %s | %s | %s' % (n, num, int(kmin), int(sparse), coo_text(K),
                                                   res_text(first), res_text(second))


def compare_lb(rep, outcome, calls, K, KG, n):
    """None if model and implementation agree"""
    m = parse_reply(rep)
    d = compare_requests(m['reqs'], calls, [('KG', csr_matrix(KG)), ('K', csr_matrix(K))], n)
    if d:
        return d
    if not m['ok']:
        return compare_error(m['err'], outcome, calls)
    if outcome[0] != 'ok':
        return 'model returns shape %s, implementation raised %r' % (m['shape'], outcome[1])
    ev, evec = outcome[1], outcome[2]
    if evec.ndim != 2 or tuple(evec.shape) != m['shape']:
        return 'eigvecs shape: model %s, implementation %s' % (m['shape'], evec.shape)
    if ev.shape != (len(m['vals']),):
        return 'eigvals length: model %d, implementation %s' % (len(m['vals']), ev.shape)
    for k, (x, y) in enumerate(zip(ev.tolist(), m['vals'])):
        if y is None:
            if not np.isinf(x):
                return 'eigvals[%d]: model inf, implementation %r' % (k, x)
        elif not np.isfinite(x) or not fclose(x, y, max(abs(x), 1e-300)):
            return 'eigvals[%d]: model %r, implementation %r' % (k, float(y), x)
    flat = evec.T.reshape(-1).tolist()
    scale = max([abs(x) for x in flat] + [1e-300])
    for k, (x, y) in enumerate(zip(flat, m['ents'])):
        if not fclose(x, y, scale):
            return 'eigvecs[%d, %d]: model %r, implementation %r' % (k % evec.shape[0], k // evec.shape[0], float(y), x)
    return None


# ----------------------------------------------------------------------------- property predicates on the implementation
def fro(A):
    return float(np.sqrt((abs(A).power(2)).sum())) if issparse(A) else float(np.linalg.norm(A))


def classify_exception(ex, calls, n, num, nred, kmin=True):
    """identity of a listed entry of known_findings.json (both C05 entries are `fixed`, i.e. they suppress nothing:
    a re-appearance is named by its identity and reported as a VIOLATION), 'solver' for a failure of the external
    solver, or None"""
    from scipy.sparse.linalg import ArpackNoConvergence, ArpackError
    if isinstance(ex, (ArpackNoConvergence, ArpackError)):
        return 'solver'
    m = SHAPE_RE.search(str(ex))
    if isinstance(ex, ValueError) and m:
        r1, c1, r2, c2 = [int(g) for g in m.groups()]
        if r1 == r2 == nred and c2 == num and c1 < num:
            return 'C05-shape-mismatch-num-eigvalues'
        return None
    k = min(num, n - 2) if kmin else num
    if isinstance(ex, TypeError) and 'k >= N' in str(ex) and calls and calls[-1].get('exc') is ex and k >= nred:
        return 'C05-k-not-reduced'
    return None


def exact_spectrum(K, KG, act):
    """all multipliers of the pencil on the active amplitudes (dense LAPACK), positive ones ascending"""
    Ka = csr_matrix(K)[act, :][:, act].toarray()
    Ga = csr_matrix(KG)[act, :][:, act].toarray()
    mu = scipy.linalg.eigh(Ga, Ka, eigvals_only=True)
    tiny = 1e-10 * max(np.abs(mu).max(), 1e-300)
    pos = np.sort(-1. / mu[mu < -tiny])
    return mu, pos


def check_contract(calls, bad):
    """residual / count / order of the raw solver output against the request it was given"""
    for c in calls:
        if 'out' not in c:
            continue
        A, B = csr_matrix(c['a']), csr_matrix(c['b'])
        mu, W = c['out']
        na, nb = fro(A), fro(B)
        for j in range(W.shape[1]):
            w = W[:, j]
            r = np.linalg.norm(A @ w - mu[j] * (B @ w))
            den = (na + abs(mu[j]) * nb) * np.linalg.norm(w)
            if not r <= TOL_RES * den:
                bad.append('contract: %s pair %d has backward error %.2e' % (c['solver'], j, r / max(den, 1e-300)))
                break
        if len(mu) and np.any(np.diff(mu) < -1e-9 * max(1e-300, np.abs(mu).max())):
            bad.append('contract: %s values not ascending' % c['solver'])
        if c['solver'] == 'eigsh' and W.shape[1] != c['kw'].get('k'):
            bad.append('contract: eigsh returned %d columns for k=%r' % (W.shape[1], c['kw'].get('k')))


def predicates(K, KG, act, num, outcome, calls, spec, n, kmin=True):
    """-> (list of (identity or None, text), info dict)"""
    bad = []
    info = dict(pairs=0, hyp=False)
    nred = len(act)
    K, KG = csr_matrix(K), csr_matrix(KG)
    if outcome[0] == 'exc':
        ident = classify_exception(outcome[1], calls, n, num, nred, kmin)
        if ident == 'solver':
            info['solver_failure'] = repr(outcome[1])[:120]
            return bad, info
        bad.append((ident, 'lb raised %s: %s' % (type(outcome[1]).__name__, str(outcome[1])[:160])))
        return bad, info
    ev, evec = outcome[1], outcome[2]
    if evec.ndim != 2 or evec.shape[0] != n or ev.ndim != 1:
        bad.append((None, 'returned arrays have shapes %s, %s' % (ev.shape, evec.shape)))
        return bad, info
    npairs = min(len(ev), evec.shape[1])
    info['pairs'] = npairs
    nK, nG = fro(K), fro(KG)
    null = np.setdiff1d(np.arange(n), act)
    if np.any(evec[null, :] != 0):
        bad.append((None, 'mode non-zero on an amplitude that carries no stiffness'))
    for i in range(npairs):
        v = evec[:, i]
        lam = ev[i]
        nv = np.linalg.norm(v)
        if not nv > 0:
            bad.append((None, 'mode %d is the zero vector' % i))
            continue
        if np.isinf(lam):
            r, den = np.linalg.norm(KG @ v), nG * nv
        elif np.isnan(lam):
            bad.append((None, 'multiplier %d is nan' % i))
            continue
        else:
            r, den = np.linalg.norm(K @ v + lam * (KG @ v)), (nK + abs(lam) * nG) * nv
        if not r <= TOL_RES * den:
            bad.append((None, 'pair %d: (K + lam*KG) v != 0, lam = %r, backward error %.2e' % (i, lam, r / max(den, 1e-300))))
            break
    # order / smallest positive multiplier first
    mu, pos = spec
    sub = len(pos) > 0 and pos[0] > 1 + 1e-6
    if sub and npairs:
        p = min(npairs, len(pos))
        info['hyp'] = len(pos) >= npairs
        got = ev[:p]
        want = pos[:p]
        if not np.all(np.abs(got - want) <= TOL_VAL * np.abs(want)):
            k = int(np.argmax(np.abs(got - want) > TOL_VAL * np.abs(want)))
            bad.append((None, 'multiplier %d is %r, the %d-th smallest positive multiplier of the pencil is %r'
                        % (k, float(got[k]), k + 1, float(want[k]))))
        if np.any(np.diff(got) < -TOL_VAL * np.abs(got[1:])):
            bad.append((None, 'multipliers not ascending: %r' % got[:8].tolist()))
    cbad = []
    check_contract(calls, cbad)
    info['contract'] = cbad
    return bad, info


def agree(ev1, ev2, spec, what):
    """first multipliers of two runs agree (after dividing the second by `factor` already applied by caller)"""
    mu, pos = spec
    if not (len(pos) and pos[0] > 1 + 1e-6):
        return None
    p = min(len(ev1), len(ev2), len(pos))
    if p and not np.all(np.abs(ev1[:p] - ev2[:p]) <= TOL_VAL * np.abs(ev1[:p])):
        return '%s: %r vs %r' % (what, ev1[:p][:6].tolist(), ev2[:p][:6].tolist())
    return None


# ----------------------------------------------------------------------------- one problem = several runs
def runs_of(p, tracer=None):
    """all implementation runs of one problem -> list of dict(tag, n, num, kmin, sparse, K, KG, act, outcome, calls)"""
    K, KG, act = build(p)
    n = K.shape[0]
    num = p['num']
    out = []
    for sparse in (True, False):
        oc, calls = run_lb(K, KG, num, sparse, tracer)
        out.append(dict(tag='lb', n=n, num=num, kmin=True, sparse=sparse, K=K, KG=KG, act=act, outcome=oc, calls=calls))
    s = p['scale']
    sp = bool(p.get('seed', 0) % 2) if p['kind'] == 'random' else True
    oc, calls = run_lb(K, KG * s, num, sp, tracer)
    out.append(dict(tag='scaled', n=n, num=num, kmin=True, sparse=sp, K=K, KG=KG * s, act=act, outcome=oc, calls=calls,
                    factor=s))
    if p.get('xscale'):
        xs = p['xscale']
        oc, calls = run_lb(K, KG * xs, num, False, tracer)
        out.append(dict(tag='scaled', n=n, num=num, kmin=True, sparse=False, K=K, KG=KG * xs, act=act, outcome=oc, calls=calls,
                        factor=xs))
    if p.get('units'):
        # the same pencil in another unit system (GN and m, or micro-scale structures): both matrices scaled by one factor, multipliers unchanged
        u = p['units']
        for sparse in (True, False):
            oc, calls = run_lb(K * u, KG * u, num, sparse, tracer)
            out.append(dict(tag='units x%g' % u, n=n, num=num, kmin=True, sparse=sparse, K=K * u, KG=KG * u, act=act, outcome=oc, calls=calls))
    if p['kind'] == 'panel':
        for sparse in (True, False):
            oc, calls, K2, KG2 = run_panel_lb(p, num, sparse)
            out.append(dict(tag='Panel.lb', n=n, num=num, kmin=False, sparse=sparse, K=K2, KG=KG2,
                            act=np.unique(K2.nonzero()[1]), outcome=oc, calls=calls))
    return out


def evaluate(p, runs):
    """property predicates over all runs of one problem -> list of (identity, text), stats"""
    bad = []
    stats = dict(pairs=0, hyp=0, solver_failures=0, contract=[])
    K, KG, act = runs[0]['K'], runs[0]['KG'], runs[0]['act']
    spec = exact_spectrum(K, KG, act)
    for r in runs:
        sp = spec
        if r['tag'] == 'scaled':
            sp = (spec[0] * r['factor'], spec[1] / r['factor'])
        elif r['tag'] == 'Panel.lb':
            sp = exact_spectrum(r['K'], r['KG'], r['act'])
        b, info = predicates(r['K'], r['KG'], r['act'], r['num'], r['outcome'], r['calls'], sp, r['n'], r['kmin'])
        r['info'] = info
        stats['pairs'] += info['pairs']
        stats['hyp'] += bool(info['hyp'])
        stats['solver_failures'] += 'solver_failure' in info
        stats['contract'] += info.get('contract', [])
        for ident, text in b:
            bad.append((ident, '[%s %s path] %s' % (r['tag'], 'sparse' if r['sparse'] else 'dense', text)))
    ok = [r for r in runs if r['outcome'][0] == 'ok']
    s_ = [r for r in ok if r['tag'] == 'lb' and r['sparse']]
    d_ = [r for r in ok if r['tag'] == 'lb' and not r['sparse']]
    if s_ and d_:
        t = agree(s_[0]['outcome'][1], d_[0]['outcome'][1], spec, 'sparse and dense paths return different multipliers')
        if t:
            bad.append((None, t))
    for r in ok:
        if r['tag'] == 'scaled':
            base = [x for x in ok if x['tag'] == 'lb' and x['sparse'] == r['sparse']]
            if base:
                sp = (spec[0] * r['factor'], spec[1] / r['factor'])
                # both the original and the scaled reference load must be sub-critical: only then do both runs
                # return the smallest positive multipliers (otherwise they return those nearest to 1)
                if len(sp[1]) and sp[1][0] > 1 + 1e-6 and spec[1][0] > 1 + 1e-6:
                    t = agree(base[0]['outcome'][1] / r['factor'], r['outcome'][1], sp,
                              'scaling the reference load by %g does not divide the multipliers by it' % r['factor'])
                    if t:
                        bad.append((None, t))
    return bad, stats


# regression inputs of the repaired defects (fixed entries of known_findings.json, /repo 3692045 and d870371): they
# must RETURN now; should one of them raise again it is reported as a VIOLATION (a fixed entry suppresses nothing)
CORPUS = [
    # dense path, 6 active amplitudes, default 25 requested values (was: shape mismatch (6,6) vs (6,25))
    dict(kind='random', seed=11, n=6, nnull=0, num=25, gkind='negdef', target=3.0, scale=2.0),
    # sparse fallback, 8 amplitudes, one null: k = 6 < 7 (was: shape mismatch (7,6) vs (7,25))
    dict(kind='random', seed=12, n=8, nnull=1, num=25, gkind='negdef', target=3.0, scale=2.0),
    # sparse fallback, 8 amplitudes, two null, 6 requested: k re-capped to 5 < 6 active (was: eigsh 'k >= N')
    dict(kind='random', seed=13, n=8, nnull=2, num=6, gkind='negdef', target=3.0, scale=0.5),
    # no null amplitude, everything returned
    dict(kind='random', seed=14, n=12, nnull=0, num=4, gkind='indef', target=2.0, scale=0.5),
]


def describe(p):
    return dict((k, v) for k, v in p.items())


def correspondence(ctx):
    import compmech.analysis.linear_buckling as L
    import compmech.sparse as S
    rng = ctx.rng
    problems = [dict(p) for p in CORPUS]
    for _ in range(ctx.scale(110, 1200)):
        problems.append(gen_params(rng, ctx.thorough()))
    for _ in range(ctx.scale(14, 100)):
        problems.append(gen_panel_params(rng))
    for _ in range(ctx.scale(3, 20)):
        problems.append(gen_params(rng, ctx.thorough(), big=True))
    tracer = LineTracer([L.lb, S.remove_null_cols])
    dist = dict(problems=len(problems), runs=0, sparse=0, dense=0, with_null=0, exceptions={}, fallback=0,
                direct=0, pairs=0, hypothesis_holds=0, solver_failures=0, sizes={}, num={}, contract_failures=0,
                nonfinite_skipped=0, panel_lb=0, kinds={})
    pending = []          # (problem, run, model line)
    nviol = 0
    for p in problems:
        runs = runs_of(p, tracer)
        bad, stats = evaluate(p, runs)
        dist['pairs'] += stats['pairs']
        dist['hypothesis_holds'] += stats['hyp']
        dist['solver_failures'] += stats['solver_failures']
        dist['contract_failures'] += len(stats['contract'])
        dist['kinds'][p['kind']] = dist['kinds'].get(p['kind'], 0) + 1
        n = runs[0]['n']
        b = min(n // 50 * 50, 400) if n >= 50 else n // 10 * 10
        dist['sizes'][b] = dist['sizes'].get(b, 0) + 1
        dist['num'][p['num']] = dist['num'].get(p['num'], 0) + 1
        for c in stats['contract'][:2]:
            ctx.notes.append('solver contract not met on %r: %s' % (describe(p), c))
        p['_bad'] = bad
        for ident, text in bad:
            if ctx.violation('C05 fails on the implementation: ' + text, dict(problem=describe_clean(p)), identity=ident):
                nviol += 1
        for r in runs:
            ctx.evaluations += 1
            dist['runs'] += 1
            dist['sparse' if r['sparse'] else 'dense'] += 1
            dist['with_null'] += len(r['act']) < r['n']
            dist['panel_lb'] += r['tag'] == 'Panel.lb'
            if r['outcome'][0] == 'exc':
                k = type(r['outcome'][1]).__name__
                dist['exceptions'][k] = dist['exceptions'].get(k, 0) + 1
            if r['sparse']:
                dist['fallback' if len(r['calls']) > 1 else 'direct'] += 1
            first, second = solver_results(r['calls'])
            if not (finite_out(first) and finite_out(second)):
                dist['nonfinite_skipped'] += 1
                continue
            if (len(r['act']) < r['n'] and r['outcome'][0] == 'ok' and r['info']['pairs']) or r['outcome'][0] == 'exc':
                ctx.nontrivial.add((repr(describe_clean(p)), r['tag'], r['sparse']))
            pending.append((p, r, model_line(r['n'], r['num'], r['kmin'], r['sparse'], r['K'], first, second)))
        if nviol >= 3:
            break
    ctx.log('implementation runs: %d, predicates evaluated; driving the Lean model on %d lines' % (dist['runs'], len(pending)))
    replies = driver([l for _, _, l in pending]) if pending else []
    if len(replies) != len(pending):
        raise RuntimeError('driver returned %d replies for %d lines' % (len(replies), len(pending)))
    ndis = 0
    for (p, r, line), rep in zip(pending, replies):
        d = compare_lb(rep, r['outcome'], r['calls'], r['K'], r['KG'], r['n'])
        if len(ctx.samples) < 3 and r['outcome'][0] == 'ok' and len(r['act']) < r['n']:
            ctx.sample(dict(problem=describe_clean(p), path='sparse' if r['sparse'] else 'dense', tag=r['tag'],
                            model_reply=rep[:240], eigvals=r['outcome'][1][:5].tolist()))
        if d:
            ndis += 1
            unknown = [t for i, t in p.get('_bad', []) if i is None]
            if unknown:
                continue          # already reported with the concrete input as a property failure
            ctx.violation('model/implementation disagreement (%s) [%s, %s path]; the property predicates hold on this '
                          'case' % (d, r['tag'], 'sparse' if r['sparse'] else 'dense'),
                          dict(problem=describe_clean(p), correspondence='Model/EigPost.lean lb vs linear_buckling.lb'),
                          found_input=False)
            if ndis >= 3:
                break
    redefinition_stream(ctx, rng)
    cone_stream(ctx, rng)
    cov = {}
    for f in (L.lb, S.remove_null_cols):
        al = tracer.all_lines(f)
        miss = sorted(al - tracer.hit[f.__name__])
        cov[f.__name__] = dict(lines=len(al), executed=len(al) - len(miss), missed=miss)
        if miss:
            ctx.notes.append('modelled function %s: lines never executed by the corpus: %s' % (f.__name__, miss))
    ctx.cov['line_coverage'] = cov
    ctx.cov['input_distribution'] = dist
    ctx.cov['model_runs_compared'] = len(pending)
    ctx.cov['disagreements'] = ndis


def redefinition_one(p, edit, sparse, num):
    """Panel.lb multipliers before an edit, after the edit on the same object, and of a fresh panel with the edited data"""
    import warnings

    def apply(obj):
        if edit == 'load':
            obj.Nxx, obj.Nyy = obj.Nxx * 2., obj.Nyy * 2.
        elif edit == 'plyt':
            obj.plyt = obj.plyt * 1.5
            obj.plyts = []
        elif edit == 'a':
            obj.a = obj.a * 1.3
        else:
            obj.stack = [0, 0, 90, 90]
            obj.plyts = []
            obj.laminaprops = []
    pn = make_panel(p)
    pn.num_eigvalues = num
    with np.errstate(all='ignore'), warnings.catch_warnings():
        warnings.simplefilter('ignore')
        pn.lb(sparse_solver=sparse, silent=True)
        first = np.array(pn.eigvals, dtype=float)
        apply(pn)
        pn.lb(sparse_solver=sparse, silent=True)
        again = np.array(pn.eigvals, dtype=float)
        fresh = make_panel(p)
        fresh.num_eigvalues = num
        apply(fresh)
        fresh.lb(sparse_solver=sparse, silent=True)
        want = np.array(fresh.eigvals, dtype=float)
    return first, again, want


def redefinition_bad(p, edit, sparse, num):
    try:
        first, again, want = redefinition_one(p, edit, sparse, num)
    except Exception:       # solver / glue exceptions are judged by the main stream
        return None
    k = min(len(again), len(want), num)
    if k and np.all(np.isfinite(want[:k])) and np.abs(again[:k] - want[:k]).max() > 1e-6 * np.abs(want[:k]).max():
        return ('Panel.lb after editing %r on an already analysed panel returns %r, a freshly defined panel with the same data '
                'gives %r (before the edit: %r)' % (edit, again[:k].tolist(), want[:k].tolist(), first[:k].tolist()))
    return None


def redefinition_stream(ctx, rng):
    """a Panel whose definition (loads, laminate, geometry) is edited between two buckling analyses gives the multipliers of a
    freshly defined panel with the edited data"""
    EDITS = ['load', 'plyt', 'a', 'stack']
    for t_ in range(ctx.scale(4, 32)):
        p = gen_panel_params(rng)
        p['m'], p['nn'] = rng.randint(3, 4), rng.randint(3, 4)
        sparse = (t_ // len(EDITS)) % 2 == 0 if t_ < 2 * len(EDITS) else rng.random() < 0.5
        num = rng.choice([2, 3, 5])
        edit = EDITS[t_ % len(EDITS)]              # every kind of edit on every run
        bad = redefinition_bad(p, edit, sparse, num)
        ctx.evaluations += 1
        if bad and ctx.violation('C05 fails on the implementation: ' + bad,
                                 dict(problem=describe_clean(p), edit=edit, sparse=sparse, num=num, kind='redefinition')):
            return True
    return False


# ----------------------------------------------------------------------------- ConeCyl.lb (third copy of the glue)
CONE_MODELS = ['clpt_donnell_bc1', 'clpt_donnell_bc2', 'clpt_donnell_bc3', 'clpt_donnell_bc4', 'clpt_sanders_bc1',
               'clpt_sanders_bc4', 'fsdt_donnell_bc1', 'fsdt_donnell_bc4', 'fsdt_sanders_bcn']


def gen_cone(rng):
    clc = rng.choice([0, 0, 1, 2, 3])
    return dict(kind='cone', model=rng.choice(CONE_MODELS), alphadeg=rng.choice([0., 0., rng.uniform(3., 30.)]),
                Fc=rng.choice([1., 1000., rng.uniform(100., 5000.)]), P=rng.choice([0., 0.02]) if clc in (0, 2) else 0.,
                T=(1e5 if clc == 3 else rng.choice([0., 1e5])) if clc in (0, 1, 3) else 0., clc=clc, num=rng.choice([2, 3, 4, 6]),
                scale=rng.choice([0.5, 2.0, 4.0]))


def run_cone(p, fc_scale=1.):
    """ConeCyl.lb with the eigsh calls recorded -> (outcome, calls, M, A, pos)"""
    import io
    import contextlib
    import warnings
    import compmech.conecyl.conecyl as CM
    from tools.props import C16
    cc = C16.mk(p['model'], None, p['alphadeg'], Fc=p['Fc'] * fc_scale, P=p['P'] * fc_scale, T=p['T'] * fc_scale)
    cc.num_eigvalues = p['num']
    with Recorder([(CM, 'eigsh', 'eigsh')]) as rec:
        try:
            with np.errstate(all='ignore'), warnings.catch_warnings(), contextlib.redirect_stdout(io.StringIO()):
                warnings.simplefilter('ignore')
                cc.lb(combined_load_case=(p['clc'] or None))
            outcome = ('ok', np.asarray(cc.eigvals), np.asarray(cc.eigvecs))
        except Exception as ex:
            outcome = ('exc', ex)
    pos = CM.get_model(p['model'])['num0']
    k0 = csr_matrix(cc.k0)
    if p['clc'] == 0:
        M, A = k0, csr_matrix(cc.kG0)
    elif p['clc'] == 1:
        M, A = k0 + csr_matrix(cc.kG0_T), csr_matrix(cc.kG0_Fc)
    elif p['clc'] == 2:
        M, A = k0 + csr_matrix(cc.kG0_P), csr_matrix(cc.kG0_Fc)
    else:
        M, A = k0 + csr_matrix(cc.kG0_Fc), csr_matrix(cc.kG0_T)
    return outcome, rec.calls, csr_matrix(M[pos:, pos:]), csr_matrix(A[pos:, pos:]), pos


def cone_line(p, M, calls, pos):
    outs = [c.get('out') for c in calls] + [None, None, None]
    return 'C05 conelb %d %d %d | %s | %s | %s | %s' % (M.shape[0], pos, p['num'], coo_text(M), res_text(outs[0]),
                                                        res_text(outs[1]), res_text(outs[2]))


def cone_predicates(p, outcome, calls, M, A, pos):
    """C05 on the shell analysis: pairs solve the sliced pencil, zeros on prescribed / stiffness-less amplitudes, smallest positive
    multipliers first"""
    bad = []
    if outcome[0] == 'exc':
        from scipy.sparse.linalg import ArpackNoConvergence, ArpackError
        if isinstance(outcome[1], (ArpackNoConvergence, ArpackError)):
            return bad
        bad.append((None, 'ConeCyl.lb raised %s: %s' % (type(outcome[1]).__name__, str(outcome[1])[:160])))
        return bad
    ev, evec = outcome[1], outcome[2]
    nred = M.shape[0]
    if evec.shape != (nred + pos, p['num']) or ev.shape != (p['num'],):
        bad.append((None, 'ConeCyl.lb stored arrays of shapes %s, %s for size %d, num_eigvalues %d' % (ev.shape, evec.shape, nred + pos, p['num'])))
        return bad
    if np.any(evec[:pos, :] != 0):
        bad.append((None, 'ConeCyl.lb: mode non-zero on a prescribed amplitude'))
    act = np.unique(M.nonzero()[1])
    null = np.setdiff1d(np.arange(nred), act)
    if np.any(evec[pos:, :][null, :] != 0):
        bad.append((None, 'ConeCyl.lb: mode non-zero on an amplitude without stiffness'))
    nM, nA = fro(M), fro(A)
    if np.abs(ev).min() > 1e10:
        # the load-side matrix is numerically null in this discretisation (mu ~ 1e-16): there is no buckling problem to judge
        p['_degenerate'] = True
        return bad
    for i in range(p['num']):
        y, lam = evec[pos:, i], float(ev[i])
        if np.isinf(lam) and np.linalg.norm(y) > 0 and np.linalg.norm(A @ y) <= TOL_RES * nA * np.linalg.norm(y):
            # the solver returned mu = 0 exactly: the mode carries no geometric stiffness (A v = 0) and -1/mu = inf is the limit value, like the
            # multipliers above 1e8 below - more values were requested than there are finite multipliers; not judged
            continue
        if not np.isfinite(lam) or np.linalg.norm(y) == 0:
            bad.append((None, 'ConeCyl.lb pair %d: zero mode or non-finite multiplier %r' % (i, lam)))
            break
        if abs(lam) > 1e8:
            continue        # |mu| < 1e-8: beyond what the shifted (sigma = 1) transform resolves; not judged
        r = np.linalg.norm(M @ y + lam * (A @ y))
        den = (nM + abs(lam) * nA) * np.linalg.norm(y)
        if not r <= TOL_RES * den:
            bad.append((None, 'ConeCyl.lb pair %d: (M + lam*A) v != 0 on the free amplitudes, lam = %r, backward error %.2e'
                        % (i, lam, r / max(den, 1e-300))))
            break
    try:
        mu, posl = exact_spectrum(M, A, act)
    except np.linalg.LinAlgError:
        # the stiffness-side matrix of this shell is not positive definite on its free amplitudes (e.g. the indefinite cone stiffness of
        # fsdt_donnell_bcn, finding C16-fsdt-donnell-bcn-cone-not-psd): outside the hypothesis of C05, the ordering clause is not judged
        return bad
    if len(posl) >= p['num'] and posl[0] > 1 + 1e-6 and not bad:
        kk = p['num']
        while kk and posl[kk - 1] > 1e8:       # multipliers beyond what the shifted transform resolves are not compared
            kk -= 1
        if kk and (not np.all(np.abs(np.sort(ev)[:kk] - posl[:kk]) <= TOL_VAL * posl[:kk])
                   or np.any(np.diff(ev[:kk]) < -TOL_VAL * np.abs(ev[1:kk]))):
            bad.append((None, 'ConeCyl.lb (sub-critical, destabilising load): returned %r, the smallest positive multipliers are %r'
                        % (ev.tolist(), posl[:p['num']].tolist())))
    return bad


def cone_stream(ctx, rng):
    """model/implementation correspondence + predicates for ConeCyl.lb"""
    probs = [gen_cone(rng) for _ in range(ctx.scale(8, 60))]
    pend = []
    for p in probs:
        outcome, calls, M, A, pos = run_cone(p)
        ctx.evaluations += 1
        bad = cone_predicates(p, outcome, calls, M, A, pos)
        if bad and outcome[0] == 'ok':
            # ARPACK starts from a random vector; for reference loads many orders below critical the Cayley-transformed spectrum is clustered at -1 and a
            # single run can deliver an unconverged pair.  A defect of the glue is deterministic: the failure must reproduce on two further runs.
            for _ in range(2):
                o_, c_, M_, A_, pos_ = run_cone(p)
                if not cone_predicates(p, o_, c_, M_, A_, pos_):
                    bad = []
                    ctx.cov['cone_lb_unreproducible_solver_noise'] = ctx.cov.get('cone_lb_unreproducible_solver_noise', 0) + 1
                    outcome, calls, M, A, pos = o_, c_, M_, A_, pos_
                    break
        if not bad and outcome[0] == 'ok' and p['clc'] == 0 and not p.get('_degenerate'):
            o2 = run_cone(p, p['scale'])[0]
            if o2[0] == 'ok' and np.all(np.isfinite(o2[1])):
                a, b = np.sort(outcome[1]) / p['scale'], np.sort(o2[1])
                keep_ = (a < 1e8) & (b < 1e8)
                a, b = a[keep_], b[keep_]
                if len(b) and b[0] > 1 + 1e-6 and outcome[1].min() > 1 + 1e-6 and np.abs(a - b).max() > TOL_VAL * np.abs(b).max():
                    bad.append((None, 'ConeCyl.lb: scaling the loads by %g does not divide the multipliers by it: %r vs %r'
                                % (p['scale'], a.tolist(), b.tolist())))
        for ident, text in bad:
            if ctx.violation('C05 fails on the implementation: ' + text, dict(problem={k: v for k, v in p.items() if not k.startswith('_')}), identity=ident):
                return True
        outs = [c.get('out') for c in calls]
        if all(o is None or finite_out(o) for o in outs):
            pend.append((p, outcome, calls, M, A, pos, cone_line(p, M, calls, pos)))
    reps = driver([x[-1] for x in pend]) if pend else []
    for (p, outcome, calls, M, A, pos, line), rep in zip(pend, reps):
        d = compare_lb(rep, outcome, calls, M, A, M.shape[0])
        if d:
            ctx.violation('model/implementation disagreement (%s) [ConeCyl.lb, %s, combined_load_case %r]; the property predicates '
                          'hold on this case' % (d, p['model'], p['clc'] or None),
                          dict(problem={k: v for k, v in p.items() if not k.startswith('_')}, correspondence='Model/ConeLb.lean coneLb vs ConeCyl.lb'), found_input=False)
            return True
    ctx.cov['cone_lb'] = dict(cases=len(probs), compared_with_model=len(pend),
                              fallback_paths=sum(1 for x in pend if len(x[2]) > 1),
                              combined_load_cases=sorted(set(p['clc'] for p in probs)),
                              degenerate_load_matrix=sum(1 for p in probs if p.get('_degenerate')))
    return False


def describe_clean(p):
    return dict((k, v) for k, v in p.items() if not k.startswith('_'))


def search(ctx, reason):
    """implementation arm only: property predicates over fresh samples"""
    rng = ctx.rng
    probs = list(CORPUS) + [gen_params(rng, ctx.thorough()) for _ in range(ctx.scale(60, 600))] + \
        [gen_panel_params(rng) for _ in range(ctx.scale(6, 40))]
    found = False
    for p in probs:
        runs = runs_of(p)
        bad, _ = evaluate(p, runs)
        ctx.evaluations += len(runs)
        for ident, text in bad:
            if ctx.violation('C05 fails on the implementation: ' + text + ' [after: %s]' % '; '.join(reason)[:300],
                             dict(problem=describe_clean(p)), identity=ident):
                found = True
        if found:
            return True
    return False


def replay(ctx, data):
    r = data['replay']
    if 'problem' not in r:
        print('replay names a broken obligation, no input:', data['what'])
        return 1
    p = r['problem']
    if r.get('kind') == 'redefinition':
        bad = redefinition_bad(p, r['edit'], r['sparse'], r['num'])
        print('redefinition:', bad)
        return 1 if bad else 0
    if p.get('kind') == 'cone':
        outcome, calls, M, A, pos = run_cone(p)
        bad = cone_predicates(p, outcome, calls, M, A, pos)
        rep = driver([cone_line(p, M, calls, pos)])[0]
        d = compare_lb(rep, outcome, calls, M, A, M.shape[0])
        print('predicates:', bad, '| model-vs-impl:', d)
        return 1 if (bad or d) else 0
    runs = runs_of(p)
    bad, stats = evaluate(p, runs)
    lines, keep = [], []
    for x in runs:
        first, second = solver_results(x['calls'])
        if finite_out(first) and finite_out(second):
            lines.append(model_line(x['n'], x['num'], x['kmin'], x['sparse'], x['K'], first, second))
            keep.append(x)
    reps = driver(lines) if lines else []
    dis = []
    for x, rep in zip(keep, reps):
        d = compare_lb(rep, x['outcome'], x['calls'], x['K'], x['KG'], x['n'])
        print('%-9s %-6s -> %s | model: %s' % (x['tag'], 'sparse' if x['sparse'] else 'dense',
              ('eigvals %s' % x['outcome'][1][:5].tolist()) if x['outcome'][0] == 'ok' else repr(x['outcome'][1])[:120],
              rep.split('|')[1].strip()[:60]))
        if d:
            dis.append(d)
    print('property predicates:', bad)
    print('model/implementation disagreements:', dis)
    known = set(f['id'] for f in __import__('tools.common', fromlist=['load_findings']).load_findings('C05')
                if f.get('status', 'known') == 'known')
    unknown = [t for i, t in bad if i not in known]
    return 1 if (unknown or dis) else 0
