"""C07 — static analysis: load vector = virtual work of the loads; K c = f solved on the active amplitudes.
H: Model/Static.lean (calc_fext placement/scaling, sparse.solve scatter) vs the running Python through the driver
   (the shape rows g are recorded from the real fg; the solver's reduced answer is recorded from spsolve).
   Model/BayLoads.lean: StiffPanelBay.calc_fext (fg calls recorded through a proxy of modelDB.db[model]['field']; offsets against
   the col0 the bay hands to its 2-D stiffeners in calc_k0), PanelAssembly.calc_fext with the col_start of __init__ (load patterns
   none / constant only / incrementable only / both per panel), Analysis.static(NLgeom=False) / Panel.static / static() with the calls
   to calc_fext, calc_k0, solve and spsolve recorded by wrapping (ops bayfext / asmfext / static of the driver).
T: Gen/Field (cfg rows = amplitude-derivative of the series; theorem shape_rows_match_field).
Implementation arm: fext.c against sum of force x displacement reported by the package's own uvw, for panels,
assemblies and stiffened bays; residual of the linear static solution; linearity in the loads.
"""
import numpy as np
from scipy.sparse import csr_matrix

from tools.common import q, unq, driver
from tools.props import panel_common as pc
from tools.translate import gen_field

TRUSTED = pc.TRUSTED_T[:3] + [
    'hand model lean/CompmechVerif/Model/Static.lean of Panel.calc_fext, PanelAssembly.calc_fext and sparse.solve '
    '(remove_null_cols + scatter), tied by the driver correspondence on explored cases',
    'SuperLU spsolve is a parameter of the model: its answer is recorded and fed to the model; its residual is checked per sample',
    'hand model lean/CompmechVerif/Model/BayLoads.lean of StiffPanelBay.calc_fext, PanelAssembly.__init__/get_size/calc_fext, '
    'sparse.solve with its own used_cols and the linear path of Analysis.static / static(), tied by the driver correspondences '
    '(bay_model_case, assembly_model_case, static_model_case) on explored cases',
]
ASSUMPTIONS = ['distributed loads do not exist in the panel API: only point forces',
               'a symmetric matrix has null rows exactly where it has null columns (remove_null_cols looks at columns)']
RULE = ('random panels of every model with 0-5 constant and 0-5 incrementable point forces at interior/edge/corner '
        'positions, random load factors, placement inside larger vectors; assemblies of 2-4 panels; bays with skin/flange/base '
        'forces; random symmetric systems with null rows/columns for solve; non-trivial = >= 2 forces of each kind and inc != 1')


def translate(ctx):
    if not hasattr(ctx, '_field_ir'):
        ctx._field_ir = gen_field.translate_all()
    return ctx._field_ir


def gen_forces(rng, a, b, kmax=5):
    out = []
    for _ in range(rng.randint(0, kmax)):
        x = rng.choice([0., a, a / 2., rng.uniform(0, a)])
        y = rng.choice([0., b, b / 2., rng.uniform(0, b)])
        out.append([x, y, rng.uniform(-10, 10), rng.uniform(-10, 10), rng.uniform(-100, 100)])
    return out


def gen(ctx, rng):
    case = pc.gen_panel_case(rng, models=('Plate', 'CPanel', 'KPanel', 'PlateW'), max_mn=3, y12=False)
    case['forces'] = gen_forces(rng, case['a'], case['b'])
    case['forces_inc'] = gen_forces(rng, case['a'], case['b'])
    case['inc'] = rng.choice([1., 0.3, rng.uniform(0, 1)])
    case['pad'] = rng.choice([0, 0, 4, 9])
    case['col0'] = rng.choice([0, case['pad']]) if case['pad'] else 0
    return case


def shape_rows(p, x, y):
    from compmech.panel import modelDB
    db = modelDB.db[p.model]
    g = np.zeros((db['dofs'], p.get_size()))
    db['field'].fg(g, x, y, p)
    return g


def run_panel(ctx, case):
    """returns (model line, impl fext, property failure)"""
    p = pc.make_panel(case)
    p._rebuild()
    p.forces = [list(f) for f in case['forces']]
    p.forces_inc = [list(f) for f in case['forces_inc']]
    n = p.get_size()
    size = n + case['pad']
    try:
        fext = pc.quiet(p.calc_fext, inc=case['inc'], size=size, col0=case['col0'], silent=True)
    except Exception as e:
        ident = 'C07-w-only-model-fext-raises' if case['lean_model'] == 'PlateW' and (case['forces'] or case['forces_inc']) else None
        return None, None, ('Panel.calc_fext raised %s: %s (model %s)' % (type(e).__name__, e, case['model']), ident)
    # virtual work against the package's own displacement field
    pc.quiet(p.calc_k0, silent=True)
    rng = np.random.RandomState(len(case['forces']) * 7 + len(case['forces_inc']))
    c = rng.uniform(-1, 1, size)
    cl = np.ascontiguousarray(c[case['col0']:case['col0'] + n])
    work = 0.
    for fs, fac in ((case['forces'], 1.), (case['forces_inc'], case['inc'])):
        for (x, y, fx, fy, fz) in fs:
            u, v, w, _, _ = p.uvw(cl, xs=np.array([x]), ys=np.array([y]))
            work += fac * (fx * float(np.ravel(u)[0]) + fy * float(np.ravel(v)[0]) + fz * float(np.ravel(w)[0]))
    got = float(fext @ c)
    scale = sum(abs(f[2]) + abs(f[3]) + abs(f[4]) for f in case['forces'] + case['forces_inc']) + 1e-300
    bad = None
    if abs(got - work) > 1e-9 * scale:
        bad = ('fext.c = %.9e but the forces do virtual work %.9e against the displacements reported by uvw (inc=%r)'
               % (got, work, case['inc']), None)
    # model line
    dofs = 1 if case['lean_model'] == 'PlateW' else 3

    def fl(f):
        x, y, fx, fy, fz = f
        g = shape_rows(p, x, y)
        comps = [fx, fy, fz] if dofs == 3 else [fz, 0., 0.]
        rows = [g[k] if k < g.shape[0] else np.zeros(n) for k in range(3)]
        return ' '.join(q(v) for v in comps + list(rows[0]) + list(rows[1]) + list(rows[2]))
    line = 'C07 fext %s %d %d %d | %s | %s' % (q(case['inc']), case['col0'], n, size,
                                              ' ; '.join(fl(f) for f in case['forces']),
                                              ' ; '.join(fl(f) for f in case['forces_inc']))
    return line, fext, bad


def solve_case(ctx, rng):
    """random symmetric system with null rows/cols through the real sparse.solve, spsolve's answer recorded"""
    import compmech.sparse as sp
    n = rng.choice([3, 5, 8, 13])
    act = sorted(rng.sample(range(n), rng.randint(1, n)))
    M = np.array([[rng.uniform(-1, 1) for _ in act] for _ in act])
    Ared = M @ M.T + len(act) * np.eye(len(act))
    kind = rng.choice(['spd', 'spd', 'chain', 'saddle', 'graded']) if len(act) >= 3 else 'spd'
    if kind == 'chain':
        # spring chain k*tridiag(-1, 2, -1): positive definite, interior columns sum EXACTLY to zero
        k_ = rng.choice([1., 2., 1000.])
        Ared = k_ * (2 * np.eye(len(act)) - np.eye(len(act), k=1) - np.eye(len(act), k=-1))
    elif kind == 'saddle':
        # Lagrange-multiplier border [[K, G^T], [G, 0]]: non-singular, an active amplitude with ZERO diagonal entry
        nk = len(act) - 1
        Kb = M[:nk, :nk] @ M[:nk, :nk].T + nk * np.eye(nk)
        G = np.array([[rng.choice([1., -1.]) * rng.uniform(0.5, 1.5) for _ in range(nk)]])
        Ared = np.block([[Kb, G.T], [G, np.zeros((1, 1))]])
    dgr = np.ones(n)
    if kind == 'graded':
        # stiffness spanning many orders of magnitude (thin sheets next to penalty springs; small units): D K D with a graded
        # diagonal D - every scaled amplitude is still an ACTIVE amplitude with its own equation
        dg = np.array([10 ** rng.choice([0, 0, -3, -6, -9, -12, -15, -16]) for _ in act])
        dg[0] = 1.
        Ared = Ared * np.outer(dg, dg)
        dgr[act] = dg
    A = np.zeros((n, n))
    A[np.ix_(act, act)] = Ared
    b = np.array([rng.uniform(-1, 1) for _ in range(n)]) * dgr
    seen = {}
    old = sp.spsolve

    def rec(a, bb, **kw):
        px = old(a, bb, **kw)
        seen['px'] = np.array(px)
        return px
    sp.spsolve = rec
    try:
        x = pc.quiet(sp.solve, csr_matrix(A), b, silent=True)
    finally:
        sp.spsolve = old
    line = 'C07 scatter %d | %s | %s' % (n, ' '.join(str(k) for k in act), ' '.join(q(v) for v in seen['px']))
    bad = None
    r = A @ x - b
    if kind == 'graded':
        # row-wise (componentwise) backward error: every active equation must hold relative to its own terms
        den = np.abs(A) @ np.abs(x) + np.abs(b)
        cw = np.abs(r[act]) / np.maximum(den[act], 1e-300)
        if cw.max() > 1e-8:
            bad = ('static solution does not satisfy K c = f on every active amplitude of a system whose stiffness spans %d orders '
                   'of magnitude: row-wise backward error %.3e at amplitude %d' % (
                       int(round(-2 * np.log10(dgr[act].min()))), cw.max(), act[int(cw.argmax())]))
    elif np.abs(r[act]).max() > 1e-9 * max(np.abs(b).max(), 1e-300):
        bad = 'static solution does not satisfy K c = f on the active amplitudes (max residual %.3e)' % np.abs(r[act]).max()
    null = [k for k in range(n) if k not in act]
    if null and np.abs(x[null]).max() != 0:
        bad = 'static solution is not zero on amplitudes without stiffness'
    # linearity
    b2 = np.array([rng.uniform(-1, 1) for _ in range(n)])
    x2 = pc.quiet(sp.solve, csr_matrix(A), b2, silent=True)
    x12 = pc.quiet(sp.solve, csr_matrix(A), 2 * b - 3 * b2, silent=True)
    if np.abs(x12 - (2 * x - 3 * x2)).max() > 1e-9 * max(np.abs(x12).max(), 1e-300):
        bad = 'static solution does not depend linearly on the loads'
    # ... linearly over many orders of magnitude (micro-Newton probe loads, MN unit systems): c(s f) = s c(f)
    for s_ in (1e-12, 1e-9, 1e-5, 1e7):
        xs = pc.quiet(sp.solve, csr_matrix(A), s_ * b, silent=True)
        if np.abs(xs - s_ * x).max() > 1e-9 * max(np.abs(s_ * x).max(), 1e-300):
            bad = ('static solution does not depend linearly on the loads: scaling the load vector by %g does not scale the solution by %g '
                   '(max |c(s f)| = %.3e, s max|c(f)| = %.3e)' % (s_, s_, np.abs(xs).max(), s_ * np.abs(x).max()))
            break
    return line, x, bad, dict(n=n, active=act)


def assembly_case(ctx, rng):
    from compmech.panel.assembly import PanelAssembly
    cs = [pc.gen_panel_case(rng, models=('Plate',), max_mn=3, y12=False) for _ in range(rng.randint(2, 4))]
    ps = [pc.make_panel(c) for c in cs]
    for p, c in zip(ps, cs):
        p._rebuild()
        p.forces = gen_forces(rng, c['a'], c['b'], 3)
        p.forces_inc = gen_forces(rng, c['a'], c['b'], 3)
        pc.quiet(p.calc_k0, silent=True)
    asm = PanelAssembly(ps)
    inc = rng.uniform(0, 1)
    fext = pc.quiet(asm.calc_fext, inc=inc, silent=True)
    size = asm.get_size()
    rs = np.random.RandomState(size)
    c = rs.uniform(-1, 1, size)
    work = 0.
    for p in ps:
        cl = np.ascontiguousarray(c[p.col_start:p.col_end])
        for fs, fac in ((p.forces, 1.), (p.forces_inc, inc)):
            for (x, y, fx, fy, fz) in fs:
                u, v, w, _, _ = p.uvw(cl, xs=np.array([x]), ys=np.array([y]))
                work += fac * (fx * float(np.ravel(u)[0]) + fy * float(np.ravel(v)[0]) + fz * float(np.ravel(w)[0]))
    if np.shape(fext) != (size,):
        return dict(panels=[(c_['m'], c_['n']) for c_ in cs]), 'assembly fext has shape %r, size is %d' % (np.shape(fext), size)
    if abs(float(fext @ c) - work) > 1e-9 * (np.abs(fext).sum() + 1e-300):
        return dict(panels=[(c_['m'], c_['n']) for c_ in cs], inc=inc), \
            'assembly fext.c = %.9e differs from the virtual work %.9e of the panels\' forces' % (float(fext @ c), work)
    # a second load case on the SAME assembly object: forces edited in place / replaced, same number of forces, same load factor
    for p in ps:
        for fs in (p.forces, p.forces_inc):
            for f in fs:
                f[2], f[3], f[4] = rng.uniform(-1, 1), rng.uniform(-1, 1), rng.uniform(-1, 1)
        if p.forces and rng.random() < 0.5:
            p.forces = [list(f) for f in p.forces]
    fext2 = pc.quiet(asm.calc_fext, inc=inc, silent=True)
    work2 = 0.
    for p in ps:
        cl = np.ascontiguousarray(c[p.col_start:p.col_end])
        for fs, fac in ((p.forces, 1.), (p.forces_inc, inc)):
            for (x, y, fx, fy, fz) in fs:
                u, v, w, _, _ = p.uvw(cl, xs=np.array([x]), ys=np.array([y]))
                work2 += fac * (fx * float(np.ravel(u)[0]) + fy * float(np.ravel(v)[0]) + fz * float(np.ravel(w)[0]))
    if abs(float(fext2 @ c) - work2) > 1e-9 * (np.abs(fext2).sum() + np.abs(fext).sum() + 1e-300):
        return dict(panels=[(c_['m'], c_['n']) for c_ in cs], inc=inc, history='calc_fext; forces edited in place; calc_fext'), \
            ('second load case on the same assembly: fext.c = %.9e differs from the virtual work %.9e of the edited forces '
             '(first load case: %.9e)' % (float(fext2 @ c), work2, float(fext @ c)))
    return None, None


def bay_case(ctx, rng):
    from compmech.stiffpanelbay import StiffPanelBay
    bay = StiffPanelBay()
    bay.a, bay.b = rng.uniform(0.5, 2), rng.uniform(0.5, 2)
    bay.m = bay.n = 3
    bay.stack = [0, 90, 0]
    bay.plyt = 1e-3
    bay.laminaprop = (142.5e9, 8.7e9, 0.28, 5.1e9, 5.1e9, 5.1e9)
    bay.mu = 1500.
    bay.add_panel(y1=0, y2=bay.b, plyt=bay.plyt)
    bay.forces_skin = [[rng.uniform(0, bay.a), rng.uniform(0, bay.b), rng.uniform(-5, 5), rng.uniform(-5, 5), rng.uniform(-50, 50)]
                       for _ in range(rng.randint(1, 3))]
    desc = dict(a=bay.a, b=bay.b, forces_skin=bay.forces_skin)
    try:
        pc.quiet(bay.calc_k0, silent=True)
        fext = pc.quiet(bay.calc_fext, silent=True)
    except Exception as e:
        return desc, 'StiffPanelBay.calc_fext with skin forces raised %s: %s' % (type(e).__name__, e), 'C07-bay-skin-forces-raise'
    size = bay.get_size()
    rs = np.random.RandomState(7)
    c = rs.uniform(-1, 1, size)
    p = bay.panels[0]
    work = 0.
    for (x, y, fx, fy, fz) in bay.forces_skin:
        u, v, w, _, _ = p.uvw(np.ascontiguousarray(c[:p.get_size()]), xs=np.array([x]), ys=np.array([y]))
        work += fx * float(np.ravel(u)[0]) + fy * float(np.ravel(v)[0]) + fz * float(np.ravel(w)[0])
    if abs(float(fext @ c) - work) > 1e-9 * (np.abs(fext).sum() + 1e-300):
        return desc, 'bay fext.c = %.9e differs from the virtual work %.9e of the skin forces' % (float(fext @ c), work), None
    return None, None, None


def stiffened_bay_case(ctx, rng):
    """bay with 0-2 stiffeners of each kind (generator of the C13 check), point forces on skin / flanges / bases of a random
    subset of the stiffeners (e.g. only on the SECOND 2-D stiffener): fext . c = virtual work of every force against the
    displacement of ITS component evaluated with that component's own slice of c"""
    from tools.props import C13
    case = C13.gen_bay(rng)
    # make loaded / unloaded stiffeners alternate at random
    for s_ in case['stiffs']:
        # 0..3 forces on every loadable part (several forces on ONE flange / base / skin: accumulation, not assignment)
        if s_['type'] in ('b2', 't') and s_['flange']:
            s_['forces_flange'] = [[rng.uniform(0, case['a']), rng.uniform(0, s_['bf']), rng.uniform(-1, 1), 0., rng.uniform(-1, 1)]
                                   for _ in range(rng.choice([0, 1, 2, 3]))]
        if s_['type'] == 't':
            s_['forces_base'] = [[rng.uniform(0, case['a']), rng.uniform(0, s_['bb']), 0., rng.uniform(-1, 1), rng.uniform(-1, 1)]
                                 for _ in range(rng.choice([0, 1, 2, 3]))]
    case['forces_skin'] = [[rng.uniform(0, case['a']), rng.uniform(0, case['b']), rng.uniform(-1, 1), rng.uniform(-1, 1), 1.]
                           for _ in range(rng.choice([0, 1, 2, 3]))]
    desc = dict(kind='stiffened bay', stiffs=[(s_['type'], bool(s_['forces_flange']), bool(s_['forces_base'])) for s_ in case['stiffs']],
                skin=bool(case['forces_skin']))
    try:
        bay, objs = C13.build_bay(case)
        pc.quiet(bay.calc_k0, silent=True)
        fext = np.array(pc.quiet(bay.calc_fext, silent=True))
        ranges = C13.bay_ranges(case, bay)
    except Exception as e:
        return desc, None      # construction problems are the business of C13 / C20
    size = sum(sz for _, sz in ranges)
    if fext.shape != (size,):
        return desc, 'bay fext has shape %r, the component sizes add up to %d' % (fext.shape, size)
    c = np.random.RandomState(size).uniform(-1, 1, size)
    start = {}
    off = 0
    for key, sz in ranges:
        start[key] = (off, off + sz)
        off += sz
    work = 0.

    def add(panel, sl, forces):
        w_ = 0.
        cl = np.ascontiguousarray(c[sl[0]:sl[1]])
        for (x, y, fx, fy, fz) in forces:
            u, v, w, _, _ = panel.uvw(cl, xs=np.array([x]), ys=np.array([y]))
            w_ += fx * float(np.ravel(u)[0]) + fy * float(np.ravel(v)[0]) + fz * float(np.ravel(w)[0])
        return w_
    try:
        work += add(bay.panels[0], start['skin'], bay.forces_skin)
        for s_ in bay.bladestiff2ds:
            if s_.flange is not None:
                work += add(s_.flange, start[('b2f', id(s_))], s_.flange.forces)
        for s_ in bay.tstiff2ds:
            work += add(s_.base, start[('tb', id(s_))], s_.base.forces)
            work += add(s_.flange, start[('tf', id(s_))], s_.flange.forces)
    except Exception:
        return desc, None
    if abs(float(fext @ c) - work) > 1e-9 * (np.abs(fext).sum() + 1e-300):
        return desc, 'stiffened bay: fext.c = %.9e differs from the virtual work %.9e of the forces on skin, flanges and bases' \
            % (float(fext @ c), work)
    return desc, None


# ============================================================================ Model/BayLoads.lean: bay, assembly, Analysis.static
class LineCov(object):
    """executed lines of the modelled Python functions while the correspondences run (coverage of the tie)"""

    def __init__(self):
        import importlib
        from compmech.stiffpanelbay import StiffPanelBay
        from compmech.panel.assembly import PanelAssembly
        from compmech.analysis import Analysis
        import compmech.sparse as sp
        sm = importlib.import_module('compmech.analysis.static')
        self.funcs = {'StiffPanelBay.calc_fext': StiffPanelBay.calc_fext, 'PanelAssembly.calc_fext': PanelAssembly.calc_fext,
                      'PanelAssembly.__init__': PanelAssembly.__init__, 'PanelAssembly.get_size': PanelAssembly.get_size,
                      'Analysis.static': Analysis.static, 'analysis.static.static': sm.static, 'sparse.solve': sp.solve}
        self.codes = dict((f.__code__, k) for k, f in self.funcs.items())
        self.hit = dict((k, set()) for k in self.funcs)
        self.old = None

    def _glob(self, frame, event, arg):
        nm = self.codes.get(frame.f_code)
        if nm is None:
            return None
        hit = self.hit[nm]

        def local(fr, ev, ar):
            if ev == 'line':
                hit.add(fr.f_lineno)
            return local
        return local

    def __enter__(self):
        import sys
        self.old = sys.gettrace()
        sys.settrace(self._glob)
        return self

    def __exit__(self, *a):
        import sys
        sys.settrace(self.old)

    def report(self):
        import dis
        out = {}
        for k, f in self.funcs.items():
            lines = set(l for _, l in dis.findlinestarts(f.__code__) if l is not None)
            lines.discard(f.__code__.co_firstlineno)
            miss = sorted(lines - self.hit[k])
            out[k] = dict(lines=len(lines), executed=len(lines) - len(miss), missed=miss)
        return out


class _NoCov(object):
    def __enter__(self):
        return self

    def __exit__(self, *a):
        pass


COV = _NoCov()          # replaced by a LineCov for the duration of `correspondence`


class FieldRecorder(object):
    """replaces modelDB.db[model]['field'] of every panel model by a proxy that records every fg call (panel identity, position and
    the rows it wrote) for the duration of a `with` block"""

    class _Proxy(object):
        def __init__(self, real, log):
            self._real = real
            self._log = log

        def __getattr__(self, name):
            return getattr(self._real, name)

        def fg(self, g, x, y, panel):
            self._real.fg(g, x, y, panel)
            self._log.append((id(panel), float(x), float(y), np.array(g, copy=True)))

    def __init__(self):
        self.calls = []
        self.saved = []

    def __enter__(self):
        from compmech.panel import modelDB
        for name, entry in modelDB.db.items():
            if 'field' in entry:
                self.saved.append((entry, entry['field']))
                entry['field'] = FieldRecorder._Proxy(entry['field'], self.calls)
        return self

    def __exit__(self, *a):
        for entry, real in self.saved:
            entry['field'] = real
        self.saved = []


def rand_forces(rng, a, b, kmax=3, scale=1.):
    return [[rng.choice([0., a, rng.uniform(0, a), rng.uniform(0, a)]), rng.choice([0., b, rng.uniform(0, b), rng.uniform(0, b)]),
             scale * rng.uniform(-1, 1), scale * rng.uniform(-1, 1), scale * rng.uniform(-1, 1)] for _ in range(rng.randint(0, kmax))]


def force_text(f, rows, n):
    """`fx fy fz g0[0..n) g1[0..n) g2[0..n)` (a one-field model has one row: fz goes with it, as Panel.calc_fext does)"""
    x, y, fx, fy, fz = f
    if rows.shape[0] == 1:
        comps, rr = [fz, 0., 0.], [rows[0], np.zeros(n), np.zeros(n)]
    else:
        comps, rr = [fx, fy, fz], [rows[0], rows[1], rows[2]]
    return ' '.join(q(v) for v in comps + list(rr[0]) + list(rr[1]) + list(rr[2]))


def forces_text(panel, forces, n, recorded=None):
    """rows from the recorded fg calls of this very panel when there is one per force, else computed here"""
    out = []
    for k, f in enumerate(forces):
        rows = recorded[k] if recorded is not None and len(recorded) == len(forces) else shape_rows(panel, f[0], f[1])
        out.append(force_text(f, rows, n))
    return ' ; '.join(out)


def work_of(panel, cl, forces, fac=1.):
    w_ = 0.
    cl = np.ascontiguousarray(cl)
    for (x, y, fx, fy, fz) in forces:
        u, v, w, _, _ = panel.uvw(cl, xs=np.array([x]), ys=np.array([y]))
        w_ += fac * (fx * float(np.ravel(u)[0]) + fy * float(np.ravel(v)[0]) + fz * float(np.ravel(w)[0]))
    return w_


def gen_bay_loads(rng, scale=1.):
    """C13's bay generator (0-2 stiffeners of each kind, pad-up only blades among them) with 0-3 constant AND 0-3 incrementable
    forces on every loadable part"""
    from tools.props import C13
    case = C13.gen_bay(rng)
    a, b = case['a'], case['b']
    for s_ in case['stiffs']:
        s_['forces_flange'], s_['forces_base'], s_['forces_flange_inc'], s_['forces_base_inc'] = [], [], [], []
        if s_['type'] in ('b2', 't') and s_['flange']:
            s_['forces_flange'] = rand_forces(rng, a, s_['bf'], 3, scale)
            s_['forces_flange_inc'] = rand_forces(rng, a, s_['bf'], 3, scale)
        if s_['type'] == 't':
            s_['forces_base'] = rand_forces(rng, a, s_['bb'], 3, scale)
            s_['forces_base_inc'] = rand_forces(rng, a, s_['bb'], 3, scale)
    case['forces_skin'] = rand_forces(rng, a, b, 3, scale)
    case['forces_skin_inc'] = rand_forces(rng, a, b, 3, scale)
    return case


def build_bay_loads(case):
    from tools.props import C13
    bay, objs = C13.build_bay(case)
    for s_, o in zip(case['stiffs'], objs):
        if o is None:
            continue
        if s_['type'] in ('b2', 't') and s_['flange']:
            o.flange.forces_inc = [list(f) for f in s_['forces_flange_inc']]
        if s_['type'] == 't':
            o.base.forces_inc = [list(f) for f in s_['forces_base_inc']]
    bay.panels[0].forces_inc = [list(f) for f in case.get('forces_skin_inc', [])]
    return bay, objs


def bay_parts(bay):
    """the loadable parts as the object defines them, in the order of the amplitude vector:
    (tag, index in its stiffener list, Panel object or None for a pad-up only blade, constant list, incrementable list)"""
    out = [(0, 0, bay.panels[0], bay.forces_skin, bay.panels[0].forces_inc)]
    for i, s_ in enumerate(bay.bladestiff2ds):
        out.append((1, i, s_.flange, s_.flange.forces if s_.flange is not None else [], s_.flange.forces_inc if s_.flange is not None else []))
    for i, s_ in enumerate(bay.tstiff2ds):
        out.append((2, i, s_.base, s_.base.forces, s_.base.forces_inc))
        out.append((3, i, s_.flange, s_.flange.forces, s_.flange.forces_inc))
    return out


def bay_model_line(bay, calls=None):
    """the `bayfext` operation for the bay AS DEFINED (sizes from the parts' own get_size, force lists from the objects, shape rows
    from the recorded fg calls)"""
    import compmech.panel.modelDB as pm
    num = pm.db[bay.model]['num']
    by_panel = {}
    for (pid_, x, y, g) in (calls or []):
        by_panel.setdefault(pid_, []).append(g)
    fields = []
    for tag, i, pan, fs, fi in bay_parts(bay):
        if pan is None:
            fields.append('b2n')
            continue
        n = num * bay.m * bay.n if tag == 0 else pc.quiet(pan.get_size)
        ft = forces_text(pan, fs, n, by_panel.get(id(pan)))
        if tag == 0:
            fields.append('%d %d %d # %s' % (num, bay.m, bay.n, ft))
            continue
        part = '%d # %s # %s' % (n, ft, forces_text(pan, fi, n))
        if tag == 1:
            fields.append('b2 ' + part)
        elif tag == 2:
            fields.append('t ' + part)
        else:
            fields[-1] += ' @ ' + part
    return 'C07 bayfext none | ' + ' | '.join(fields)


def bay_predicate(bay, fext):
    """the property on the implementation: fext . c = work of every force the bay's API knows (skin, flange and base lists)
    against the displacement of ITS component evaluated with that component's own slice of c"""
    parts = [(t, i, pan, fs, fi) for t, i, pan, fs, fi in bay_parts(bay) if pan is not None]
    import compmech.panel.modelDB as pm
    sizes = [pm.db[bay.model]['num'] * bay.m * bay.n] + [pc.quiet(pan.get_size) for _, _, pan, _, _ in parts[1:]]
    size = sum(sizes)
    if np.shape(fext) != (size,):
        return 'bay fext has shape %r, the component sizes add up to %d' % (np.shape(fext), size)
    c = np.random.RandomState(size).uniform(-1, 1, size)
    off, work = 0, 0.
    for (t, i, pan, fs, fi), sz in zip(parts, sizes):
        work += work_of(pan, c[off:off + sz], fs)
        off += sz
    if abs(float(fext @ c) - work) > 1e-9 * (np.abs(fext).sum() + 1e-300):
        return ('stiffened bay: fext.c = %.9e differs from the virtual work %.9e of the forces on skin, flanges and bases'
                % (float(fext @ c), work))
    return None


def bay_incrementable_predicate(bay, fext):
    """the property's clause "incrementable forces scaled by the load factor" on a bay: the stiffener flanges and bases are Panel
    objects with their own add_force(..., cte=False) / forces_inc; a linear static analysis is the load factor 1, so their work
    belongs into fext . c.  Returns None or a description; judged only when the constant part is right (bay_predicate holds)."""
    parts = [(t, i, pan, fs, fi) for t, i, pan, fs, fi in bay_parts(bay) if pan is not None]
    import compmech.panel.modelDB as pm
    sizes = [pm.db[bay.model]['num'] * bay.m * bay.n] + [pc.quiet(pan.get_size) for _, _, pan, _, _ in parts[1:]]
    size = sum(sizes)
    c = np.random.RandomState(size + 1).uniform(-1, 1, size)
    off, work_c, work_i, n_inc = 0, 0., 0., 0
    for (t, i, pan, fs, fi), sz in zip(parts, sizes):
        work_c += work_of(pan, c[off:off + sz], fs)
        if t != 0:                    # the skin's incrementable list is not part of the bay's API (forces_skin is)
            work_i += work_of(pan, c[off:off + sz], fi)
            n_inc += len(fi)
        off += sz
    got = float(fext @ c)
    scale = np.abs(fext).sum() + abs(work_i) + 1e-300
    if n_inc and abs(got - (work_c + work_i)) > 1e-9 * scale:
        return ('stiffened bay with %d incrementable forces on stiffener flanges / bases (Panel.add_force(..., cte=False)): fext.c = %.9e, '
                'the virtual work at load factor 1 is %.9e (constant forces %.9e + incrementable %.9e)' % (n_inc, got, work_c + work_i, work_c, work_i),
                abs(got - work_c) <= 1e-9 * scale)
    return None


def run_bay_model(case):
    """-> dict(skip=...) or dict(lines=[...], bay=..., fext=..., calls=..., k0cols=..., inc_outcome=...)"""
    try:
        bay, objs = build_bay_loads(case)
        k0cols = {}

        def wrap(key, real):
            def f(*a, **kw):
                k0cols[key] = (kw.get('row0'), kw.get('col0'))
                return real(*a, **kw)
            return f
        wrapped = []
        for i, s_ in enumerate(bay.bladestiff2ds):
            s_.calc_k0 = wrap((1, i), s_.calc_k0)
            wrapped.append(s_)
        for i, s_ in enumerate(bay.tstiff2ds):
            s_.calc_k0 = wrap((2, i), s_.calc_k0)
            wrapped.append(s_)
        try:
            pc.quiet(bay.calc_k0, silent=True)
        finally:
            for s_ in wrapped:
                del s_.calc_k0
    except Exception as e:
        return dict(skip='%s: %s' % (type(e).__name__, e))      # construction problems are the business of C13 / C20
    with FieldRecorder() as rec:
        try:
            with COV:
                fext = np.array(pc.quiet(bay.calc_fext, silent=True), dtype=float)
        except Exception as e:
            return dict(skip=None, bay=bay, exc='%s: %s' % (type(e).__name__, e))
    calls = list(rec.calls)
    try:
        pc.quiet(bay.calc_fext, inc=0.37, silent=True)
        inc_outcome = 'returned'
    except Exception as e:
        inc_outcome = type(e).__name__
    lines = [bay_model_line(bay, calls), 'C07 bayfext %s | 3 1 1 # ' % q(0.37)]
    return dict(skip=None, bay=bay, fext=fext, calls=calls, k0cols=k0cols, inc_outcome=inc_outcome, lines=lines,
                size=pc.quiet(bay.get_size))


def compare_bay_model(out, replies):
    """None or a description of the first disagreement between Model/BayLoads.lean and StiffPanelBay.calc_fext"""
    bay, fext = out['bay'], out['fext']
    rep, rep_inc = replies
    want_inc = 'raise ' + out['inc_outcome'] if out['inc_outcome'] != 'returned' else 'ok'
    if not rep_inc.startswith(want_inc):
        return 'calc_fext(inc=0.37): implementation %s, model replies %r' % (out['inc_outcome'], rep_inc[:40])
    if not rep.startswith('ok '):
        return 'model replied %r' % rep[:100]
    lay_txt, vec_txt = rep[3:].split('|')
    layout = [tuple(int(v) for v in w.split(':')) for w in lay_txt.split()]
    parts = {(t, i): (pan, fs) for t, i, pan, fs, fi in bay_parts(bay) if pan is not None}
    # the fg calls the model's loops imply: per placed part, one call per force of its constant list, in order
    expected = []
    for (tag, idx, off, size, nf) in layout:
        pan, fs = parts[(tag, idx)]
        expected += [(id(pan), float(f[0]), float(f[1])) for f in fs[:nf]]
    got = [(c[0], c[1], c[2]) for c in out['calls']]
    if got != expected:
        return ('sequence of fg calls: the implementation made %d calls, the model\'s loops %d (first difference at call %d)'
                % (len(got), len(expected), next((k for k, (x, y) in enumerate(zip(got, expected)) if x != y), min(len(got), len(expected)))))
    # offsets: the slice a part's forces load must be the slice its stiffness occupies (col0 the bay hands to the stiffener in calc_k0)
    for (tag, idx, off, size, nf) in layout:
        if tag == 1 and out['k0cols'].get((1, idx), (None, None))[1] != off:
            return 'flange of 2-D blade %d: fext slice starts at %d (model), calc_k0 places it at col0 = %r' % (idx, off, out['k0cols'].get((1, idx)))
        if tag == 2 and out['k0cols'].get((2, idx), (None, None))[1] != off:
            return 'base of T stiffener %d: fext slice starts at %d (model), calc_k0 places it at col0 = %r' % (idx, off, out['k0cols'].get((2, idx)))
        if tag == 3:
            col0 = out['k0cols'].get((2, idx), (None, None))[1]
            if col0 is None or col0 + pc.quiet(bay.tstiff2ds[idx].base.get_size) != off:
                return 'flange of T stiffener %d: fext slice starts at %d (model), calc_k0 places it at col0 + base size = %r' % (idx, off, col0)
    mv = [unq(x) for x in vec_txt.split()]
    if len(mv) != len(fext) or len(mv) != out['size']:
        return 'length: model %d, calc_fext %d, get_size %d' % (len(mv), len(fext), out['size'])
    scale = max(np.abs(fext).max(), 1e-300) if len(fext) else 1.
    worst = max([abs(float(a) - b) for a, b in zip(mv, fext)] + [0.])
    if worst > 1e-12 * scale:
        k = int(np.argmax([abs(float(a) - b) for a, b in zip(mv, fext)]))
        part = [(t, i) for (t, i, off, sz, nf) in layout if off <= k < off + sz]
        return ('external force vector: entry %d (part tag:index %s) is %.6e in the implementation, %.6e in the model (fg rows as recorded)'
                % (k, part, fext[k], float(mv[k])))
    return None


def bay_model_cases(ctx, rng, ncases, dist):
    """bays through the model; a disagreement is first tried as a failing input of the property on the same bay"""
    outs = []
    for t in range(ncases):
        case = gen_bay_loads(rng, scale=rng.choice([1., 1., 1e-9, 1e5]))
        ctx.evaluations += 1
        out = run_bay_model(case)
        if out['skip']:
            dist['bays_skipped'] = dist.get('bays_skipped', 0) + 1
            continue
        if 'exc' in out:
            ctx.violation('C07 fails on the implementation: StiffPanelBay.calc_fext raised ' + out['exc'], dict(case=case, derived='bay-model'))
            return False
        out['case'] = case
        outs.append(out)
        nparts = sum(1 for p_ in bay_parts(out['bay']) if p_[2] is not None)
        multi = sum(1 for p_ in bay_parts(out['bay']) if p_[2] is not None and len(p_[3]) >= 2)
        dist['bay_parts'] = dist.get('bay_parts', 0) + nparts
        dist['bay_parts_with_2+_forces'] = dist.get('bay_parts_with_2+_forces', 0) + multi
        dist['bays_with_padup_only_blade'] = dist.get('bays_with_padup_only_blade', 0) + any(p_[2] is None for p_ in bay_parts(out['bay']))
        if multi and nparts >= 3:
            ctx.nontrivial.add(('bay', nparts, multi, t))
    lines = [l for o in outs for l in o['lines']]
    reps = driver(lines) if lines else []
    for k, o in enumerate(outs):
        d = compare_bay_model(o, reps[2 * k:2 * k + 2])
        bad = bay_predicate(o['bay'], o['fext'])
        if d:
            if bad:
                ctx.violation('C07 fails on the implementation: %s  [found through the model/implementation disagreement on '
                              'StiffPanelBay.calc_fext: %s]' % (bad, d), dict(case=o['case'], derived='bay-model'))
            else:
                ctx.violation('model/implementation disagreement on StiffPanelBay.calc_fext: %s; the virtual-work predicate holds on this bay'
                              % d, dict(case=o['case'], derived='bay-model', tie='H Model/BayLoads.lean bayFext'), found_input=False)
            return False
        if bad:
            ctx.violation('C07 fails on the implementation: ' + bad, dict(case=o['case'], derived='bay-model'))
            return False
        inc_bad = bay_incrementable_predicate(o['bay'], o['fext'])
        if inc_bad:
            # listed finding ONLY in its exact form: the constant forces are all there and the incrementable ones of the stiffener
            # parts are missing altogether (Model/BayLoads.lean: bay_fext_no_load_factor); anything else is a new violation
            ident = 'C07-bay-ignores-incrementable-forces-of-stiffener-parts' if inc_bad[1] else None
            dist['bays_with_incrementable_stiffener_forces'] = dist.get('bays_with_incrementable_stiffener_forces', 0) + 1
            if ctx.violation('C07 fails on the implementation: ' + inc_bad[0], dict(case=o['case'], derived='bay-model-inc'), identity=ident):
                return False
    dist['bays_through_model'] = dist.get('bays_through_model', 0) + len(outs)
    return True


# ---------------------------------------------------------------------------- assemblies with col_start
def gen_assembly_loads(rng):
    n = rng.randint(2, 4)
    cs = [pc.gen_panel_case(rng, models=('Plate', 'Plate', 'CPanel', 'PlateW'), max_mn=3, y12=False) for _ in range(n)]
    pats = [rng.choice(['none', 'const', 'inc', 'inc', 'both']) for _ in range(n)]
    if 'inc' not in pats and rng.random() < 0.7:
        pats[rng.randrange(n)] = 'inc'
    scale = rng.choice([1., 1., 1e-9, 1e5])
    for c, pat in zip(cs, pats):
        c['forces'] = rand_forces(rng, c['a'], c['b'], 3, scale) if pat in ('const', 'both') else []
        c['forces_inc'] = rand_forces(rng, c['a'], c['b'], 3, scale) if pat in ('inc', 'both') else []
        if pat in ('const', 'both') and not c['forces']:
            c['forces'] = rand_forces(rng, c['a'], c['b'], 1, scale) or [[0., 0., scale, scale, scale]]
        if pat in ('inc', 'both') and not c['forces_inc']:
            c['forces_inc'] = [[c['a'] / 2., c['b'] / 2., scale, -scale, scale]]
    return dict(kind='asm-model', panels=cs, patterns=pats, inc=rng.choice([None, 1., 0.3, rng.uniform(0, 2)]))


def run_assembly_model(case):
    from compmech.panel.assembly import PanelAssembly
    import compmech.panel.modelDB as pm
    ps = [pc.make_panel(c) for c in case['panels']]
    for p, c in zip(ps, case['panels']):
        p._rebuild()
        p.forces = [list(f) for f in c['forces']]
        p.forces_inc = [list(f) for f in c['forces_inc']]
    with COV:
        asm = PanelAssembly(ps, conn=[])
        kw = {} if case['inc'] is None else dict(inc=case['inc'])
        fext = np.array(pc.quiet(asm.calc_fext, silent=True, **kw), dtype=float)
        asm.get_size()
    fields = []
    for p in ps:
        num = pm.db[p.model]['num']
        n = num * p.m * p.n
        fields.append('%d %d %d # %s # %s' % (num, p.m, p.n, forces_text(p, p.forces, n), forces_text(p, p.forces_inc, n)))
    line = 'C07 asmfext %s | %s' % ('none' if case['inc'] is None else q(case['inc']), ' | '.join(fields))
    return dict(asm=asm, ps=ps, fext=fext, line=line, size=asm.get_size())


def assembly_predicate(case, out):
    ps, fext, size = out['ps'], out['fext'], out['size']
    inc = 1. if case['inc'] is None else case['inc']
    if np.shape(fext) != (size,):
        return 'assembly fext has shape %r, size is %d' % (np.shape(fext), size)
    for p in ps:
        pc.quiet(p.calc_k0, silent=True)
    c = np.random.RandomState(size).uniform(-1, 1, size)
    work = 0.
    for p in ps:
        cl = c[p.col_start:p.col_start + p.get_size()]
        work += work_of(p, cl, p.forces) + work_of(p, cl, p.forces_inc, inc)
    if abs(float(fext @ c) - work) > 1e-9 * (np.abs(fext).sum() + abs(work) + 1e-300):
        return ('assembly fext.c = %.9e differs from the virtual work %.9e of the panels\' forces (inc = %r, load patterns %s)'
                % (float(fext @ c), work, case['inc'], case['patterns']))
    return None


def compare_assembly_model(out, rep):
    if not rep.startswith('ok '):
        return 'model replied %r' % rep[:100]
    lay_txt, vec_txt = rep[3:].split('|')
    starts = [tuple(int(v) for v in w.split(':')) for w in lay_txt.split()]
    real = [(p.col_start, p.get_size()) for p in out['ps']]
    if starts != real:
        return 'col_start / size of the panels: implementation %r, model %r' % (real, starts)
    mv = [unq(x) for x in vec_txt.split()]
    fext = out['fext']
    if len(mv) != out['size'] or np.shape(fext) != (out['size'],):
        return 'length: model %d, get_size %d, calc_fext %r' % (len(mv), out['size'], np.shape(fext))
    scale = max(np.abs(fext).max(), max([abs(float(v)) for v in mv] + [0.]), 1e-300)
    diffs = [abs(float(a) - b) for a, b in zip(mv, fext)]
    if max(diffs + [0.]) > 1e-12 * scale:
        k = int(np.argmax(diffs))
        pk = [i for i, (c0, n) in enumerate(real) if c0 <= k < c0 + n]
        return 'external force vector: entry %d (panel %s) is %.6e in the implementation, %.6e in the model' % (k, pk, fext[k], float(mv[k]))
    return None


def assembly_model_cases(ctx, rng, ncases, dist):
    cases, outs = [], []
    for t in range(ncases):
        case = gen_assembly_loads(rng)
        ctx.evaluations += 1
        try:
            out = run_assembly_model(case)
        except Exception as e:
            ctx.violation('C07 fails on the implementation: PanelAssembly.calc_fext raised %s: %s' % (type(e).__name__, e),
                          dict(case=case, derived='asm-model'))
            return False
        cases.append(case); outs.append(out)
        for pat in case['patterns']:
            dist['asm_pattern_' + pat] = dist.get('asm_pattern_' + pat, 0) + 1
        if 'inc' in case['patterns'] and case['inc'] not in (None, 1.):
            ctx.nontrivial.add(('asm', tuple(case['patterns']), case['inc']))
    reps = driver([o['line'] for o in outs]) if outs else []
    for case, out, rep in zip(cases, outs, reps):
        d = compare_assembly_model(out, rep)
        bad = assembly_predicate(case, out)
        if d:
            if bad:
                ctx.violation('C07 fails on the implementation: %s  [found through the model/implementation disagreement on '
                              'PanelAssembly.calc_fext: %s]' % (bad, d), dict(case=case, derived='asm-model'))
            else:
                ctx.violation('model/implementation disagreement on PanelAssembly.calc_fext: %s; the virtual-work predicate holds on this '
                              'assembly' % d, dict(case=case, derived='asm-model', tie='H Model/BayLoads.lean asmCalcFext'), found_input=False)
            return False
        if bad:
            ctx.violation('C07 fails on the implementation: ' + bad, dict(case=case, derived='asm-model'))
            return False
    dist['assemblies_through_model'] = dist.get('assemblies_through_model', 0) + len(outs)
    return True


# ---------------------------------------------------------------------------- Analysis.static(NLgeom=False), Panel.static, static()
def gen_static_case(rng):
    from tools.props import C13
    kind = rng.choice(['panel', 'panel.static', 'asm', 'asm', 'bay', 'bay', 'fn', 'raises'])
    scale = rng.choice([1., 1., 1e-10, 1e6])
    pre = rng.choice([None, dict(increments=[0.3, 0.7], cs_len=2, last='lb'), dict(increments=[1.], cs_len=1, last='static')])
    case = dict(kind='static-model', what=kind, scale=scale, pre=pre)
    if kind in ('panel', 'panel.static', 'fn', 'raises'):
        c = pc.gen_panel_case(rng, models=('Plate', 'CPanel', 'PlateW'), max_mn=2, y12=False)
        c['forces'] = rand_forces(rng, c['a'], c['b'], 2, scale)
        c['forces_inc'] = rand_forces(rng, c['a'], c['b'], 2, scale)
        case['panel'] = c
        if kind == 'raises':
            case['raiser'] = rng.choice(['calc_fext', 'calc_k0'])
    elif kind == 'asm':
        a = C13.gen_asm(rng)
        keep = min(len(a['panels']), 3)
        a['panels'] = a['panels'][:keep]
        a['conns'] = [c_ for c_ in a['conns'] if c_['p1'] < keep and c_['p2'] < keep]
        pats = [rng.choice(['const', 'inc', 'both', 'none']) for _ in a['panels']]
        for c, pat in zip(a['panels'], pats):
            c['forces'] = rand_forces(rng, c['a'], c['b'], 2, scale) if pat in ('const', 'both') else []
            c['forces_inc'] = [[c['a'] / 3., c['b'] / 2., scale, scale, -scale]] + rand_forces(rng, c['a'], c['b'], 1, scale) \
                if pat in ('inc', 'both') else []
        case['asm'], case['patterns'] = a, pats
    else:
        for _ in range(20):
            b = gen_bay_loads(rng, scale)
            sz = 3 * b['m'] * b['n'] + sum((3 * s_['mf'] * s_['nf'] if s_['flange'] and s_['type'] in ('b2', 't') else 0)
                                           + (3 * s_['mb'] * s_['nb'] if s_['type'] == 't' else 0) for s_ in b['stiffs'])
            if sz <= 90:
                break
        case['bay'] = b
    return case


def run_static_model(case):
    """runs the linear static analysis with calc_fext, calc_k0, solve and spsolve recorded -> dict"""
    import compmech.sparse as sp
    import importlib
    am = importlib.import_module('compmech.analysis.analysis')
    sm = importlib.import_module('compmech.analysis.static')       # (`compmech.analysis.static` the attribute is the function)
    from compmech.analysis import Analysis
    from scipy.sparse import coo_matrix
    from tools.props import C13
    kind = case['what']
    model_fext_line = None
    try:
        if kind in ('panel', 'panel.static', 'fn', 'raises'):
            c = case['panel']
            p = pc.make_panel(c)
            p.forces = [list(f) for f in c['forces']]
            p.forces_inc = [list(f) for f in c['forces_inc']]
            owner, f_fext, f_k0 = p, p.calc_fext, p.calc_k0
            if kind == 'raises':
                def boom(*a, **kw):
                    raise ValueError('no laminate defined')
                if case['raiser'] == 'calc_fext':
                    f_fext = boom
                else:
                    f_k0 = boom
        elif kind == 'asm':
            asm, ps, conn = C13.build_asm(case['asm'])
            owner, f_fext, f_k0 = asm, asm.calc_fext, asm.calc_k0
        else:
            bay, objs = build_bay_loads(case['bay'])
            owner, f_fext, f_k0 = bay, bay.calc_fext, bay.calc_k0
    except Exception as e:      # construction problems are the business of C13 / C20
        return dict(skip='%s: %s' % (type(e).__name__, e))
    log = []

    def wrap_callable(name, real):
        def f(*a, **kw):
            e = dict(name=name, nargs=len(a), kw=dict(kw))
            log.append(e)
            try:
                out = real(*a, **kw)
            except Exception as ex:
                e['exc'] = type(ex).__name__
                raise
            e['out'] = out
            return out
        return f
    real_solve, real_spsolve = sp.solve, sp.spsolve

    def solve_w(*a, **kw):
        e = dict(name='solve', a=a, kw=dict(kw))
        log.append(e)
        out = real_solve(*a, **kw)
        e['out'] = out
        return out

    def spsolve_w(A, b, **kw):
        e = dict(name='spsolve', A=np.array(A.toarray() if hasattr(A, 'toarray') else A, dtype=float), b=np.array(b, dtype=float, copy=True),
                 kw=dict(kw))
        log.append(e)
        import warnings
        with warnings.catch_warnings():
            warnings.simplefilter('ignore')        # MatrixRankWarning of a singular reduced system: see px_finite below
            px = real_spsolve(A, b, **kw)
        e['px'] = np.array(px, dtype=float, copy=True)
        return px
    res = dict(kind=kind, log=log, owner=owner)
    am_solve, sm_solve = am.solve, sm.solve
    am.solve, sm.solve, sp.spsolve = solve_w, solve_w, spsolve_w
    try:
        if kind == 'fn':
            K = pc.quiet(f_k0, silent=True)
            fx = pc.quiet(f_fext, silent=True)
            res['fn_args'] = (K, fx)
            with COV:
                ret = pc.quiet(sm.static, K, fx, silent=True)
            res.update(ret=ret, increments=ret[0], cs=ret[1], last=None, fext_out=fx, k0_out=K)
        else:
            if kind == 'panel.static':
                an = owner.analysis
                an.calc_fext, an.calc_k0 = wrap_callable('calc_fext', an.calc_fext), wrap_callable('calc_k0', an.calc_k0)
            else:
                an = Analysis(wrap_callable('calc_fext', f_fext), wrap_callable('calc_k0', f_k0))
            if case['pre']:
                an.increments = list(case['pre']['increments'])
                an.cs = [np.ones(3) for _ in range(case['pre']['cs_len'])]
                an.last_analysis = case['pre']['last']
            res['pre_last'] = an.last_analysis
            try:
                with COV:
                    if kind == 'panel.static':
                        ret = pc.quiet(owner.static, silent=True)
                    else:
                        ret = pc.quiet(an.static, NLgeom=False, silent=True)
                if kind == 'panel.static':
                    res['panel_ret_is_cs'] = ret is an.cs
                else:
                    res['ret_is_state'] = (ret[0] is an.increments) and (ret[1] is an.cs)
            except Exception as ex:
                res['raised'] = type(ex).__name__
            res.update(increments=an.increments, cs=an.cs, last=an.last_analysis)
            for e in log:
                if e['name'] == 'calc_fext' and 'out' in e:
                    res['fext_out'] = e['out']
                if e['name'] == 'calc_k0' and 'out' in e:
                    res['k0_out'] = e['out']
    finally:
        am.solve, sm.solve, sp.spsolve = am_solve, sm_solve, real_spsolve
    # ------------------------------------------------------------ the model's operation
    fx, K = res.get('fext_out'), res.get('k0_out')
    n = len(fx) if fx is not None else (K.shape[0] if K is not None else 0)
    trip = ''
    if K is not None:
        coo = coo_matrix(K)
        coo.sum_duplicates()
        trip = ' ; '.join('%d %d %s' % (i, j, q(v)) for i, j, v in zip(coo.row, coo.col, coo.data))
    sps = [e for e in log if e['name'] == 'spsolve']
    px = np.atleast_1d(sps[0]['px']) if sps and 'px' in sps[0] else np.zeros(0)
    # a singular reduced system (free rigid-body motion, fully restrained field) makes SuperLU answer NaN / inf: the glue is still
    # compared (calls, reduced system, state), the VALUES of the scatter are not
    res['px_finite'] = bool(np.all(np.isfinite(px)))
    px = np.where(np.isfinite(px), px, 0.)
    ef = next((e['exc'] for e in log if e['name'] == 'calc_fext' and 'exc' in e), '-')
    ek = next((e['exc'] for e in log if e['name'] == 'calc_k0' and 'exc' in e), '-')
    res['line'] = 'C07 static %d %s %s %s | %s | %s | %s' % (n, (res.get('pre_last') or '_'), ef, ek, trip,
                                                            ' '.join(q(v) for v in (fx if fx is not None else [])),
                                                            ' '.join(q(v) for v in np.atleast_1d(px)))
    res['n'] = n
    # the load vector the analysis must have been handed: the owner's vector at the default load factor 1
    try:
        if kind in ('panel', 'panel.static', 'fn'):
            pnl = owner
            pc.quiet(pnl._rebuild)
            size = pnl.get_size()
            c = case['panel']

            def fl(f):
                return force_text(f, shape_rows(pnl, f[0], f[1]), size)
            res['fext_line'] = 'C07 fext %s 0 %d %d | %s | %s' % (q(1.), size, size, ' ; '.join(fl(f) for f in c['forces']),
                                                                 ' ; '.join(fl(f) for f in c['forces_inc']))
        elif kind == 'asm':
            import compmech.panel.modelDB as pm
            fields = []
            for p_ in owner.panels:
                num = pm.db[p_.model]['num']
                n_ = num * p_.m * p_.n
                fields.append('%d %d %d # %s # %s' % (num, p_.m, p_.n, forces_text(p_, p_.forces, n_), forces_text(p_, p_.forces_inc, n_)))
            res['fext_line'] = 'C07 asmfext none | ' + ' | '.join(fields)
        elif kind == 'bay':
            res['fext_line'] = bay_model_line(owner)
    except Exception as e:
        res['fext_line_exc'] = '%s: %s' % (type(e).__name__, e)
    return res


def compare_static_model(case, res, rep, rep_fext):
    log, kind = res['log'], res['kind']
    if not rep.startswith('ok '):
        return 'model replied %r' % rep[:100]
    f = [x.strip() for x in rep[3:].split('|')]
    m_calls, m_used, m_red, m_rhs, m_inc, m_cs, m_last, m_raised = f
    names = [e['name'] for e in log]
    if kind == 'fn':
        if names != ['solve', 'spsolve']:
            return 'static(): calls made %r, expected solve -> spsolve' % names
        sv = log[0]
        if len(sv['a']) != 2 or sv['a'][0] is not res['fn_args'][0] or sv['a'][1] is not res['fn_args'][1] or sv['kw'] != dict(silent=True):
            return 'static(): solve was not handed (K, fext, silent=silent) as given'
    else:
        want = m_calls.split()
        got = []
        for e in log:
            if e['name'] == 'calc_fext':
                got.append('calc_fext(inc)' if ('inc' in e['kw'] or e['nargs'] > 0) else 'calc_fext()')
            elif e['name'] == 'calc_k0':
                got.append('calc_k0()')
            elif e['name'] == 'solve':
                got.append('solve()')
        if got != want:
            return 'calls of the linear analysis: implementation %r, model %r' % (got, want)
        for e in log:
            if e['name'] in ('calc_fext', 'calc_k0') and (e['nargs'] != 0 or e['kw'] != dict(silent=True)):
                return '%s was called with %d positional arguments and keywords %r; the model: only silent=silent' % (e['name'], e['nargs'], e['kw'])
        raised = res.get('raised', '-')
        if raised != m_raised:
            return 'exception: implementation %r, model %r' % (raised, m_raised)
        last_impl = res['last'] if res['last'] != '' else '_'
        if last_impl != m_last:
            return 'last_analysis: implementation %r, model %r' % (res['last'], m_last)
        if raised != '-':
            if list(res['increments']) != [] or list(res['cs']) != [] or m_inc != '' or m_cs != '-':
                return 'state after the exception: increments %r, %d solutions; model: both empty' % (res['increments'], len(res['cs']))
            return None
        sv = [e for e in log if e['name'] == 'solve']
        if len(sv) != 1 or len(sv[0]['a']) != 2 or sv[0]['a'][0] is not res['k0_out'] or sv[0]['a'][1] is not res['fext_out'] \
                or sv[0]['kw'] != dict(silent=True):
            return 'solve was not handed (k0, fext, silent=silent) exactly as calc_k0 / calc_fext returned them'
        if kind == 'panel.static' and not res.get('panel_ret_is_cs'):
            return 'Panel.static does not return analysis.cs'
        if kind != 'panel.static' and not res.get('ret_is_state'):
            return 'Analysis.static does not return (self.increments, self.cs)'
    inc_m = [float(unq(x)) for x in m_inc.split()]
    if [float(v) for v in res['increments']] != inc_m:
        return 'increments: implementation %r, model %r' % (list(res['increments']), inc_m)
    if len(res['cs']) != 1:
        return 'cs holds %d vectors, the model one' % len(res['cs'])
    used = [int(x) for x in m_used.split()]
    sps = [e for e in log if e['name'] == 'spsolve']
    if len(sps) != 1:
        return ('the model hands the reduced system (%d active of %d amplitudes) to the sparse solver once; the implementation called it %d times'
                % (len(used), res['n'], len(sps)))
    red = np.array([float(unq(x)) for x in m_red.split()]).reshape(len(used), len(used))
    rhs = np.array([float(unq(x)) for x in m_rhs.split()])
    if sps[0]['A'].shape != red.shape or not np.array_equal(sps[0]['A'], red):
        return 'reduced matrix handed to spsolve differs from the model\'s k0[used][:, used] (%r vs %r)' % (sps[0]['A'].shape, red.shape)
    if sps[0]['b'].shape != rhs.shape or not np.array_equal(sps[0]['b'], rhs):
        return 'reduced right-hand side handed to spsolve differs from the model\'s fext[used]'
    cm = np.array([float(unq(x)) for x in m_cs.split()])
    c = np.asarray(res['cs'][0], dtype=float)
    if c.shape != cm.shape:
        return 'stored solution has shape %r, the model\'s %r' % (c.shape, cm.shape)
    if not res['px_finite']:
        null = [k for k in range(len(c)) if k not in set(used)]
        if null and not np.all(c[null] == 0):
            return 'non-zero value stored on an amplitude without stiffness'
    elif np.abs(c - cm).max() > 1e-12 * max(np.abs(cm).max(), 1e-300):
        return ('stored solution differs from the model (scatter of the recorded solver answer into the active amplitudes): max difference %.3e, '
                'max |c| model %.3e, implementation %.3e' % (np.abs(c - cm).max() if c.shape == cm.shape else float('nan'),
                                                          np.abs(cm).max(), np.abs(c).max()))
    # the load vector: the owner's own vector at the default load factor (model ops fext / asmfext / bayfext)
    if rep_fext is not None:
        if not rep_fext.startswith('ok '):
            return 'load-vector model replied %r' % rep_fext[:100]
        vec = rep_fext[3:].split('|')[-1]
        mv = np.array([float(unq(x)) for x in vec.split()])
        fx = np.asarray(res['fext_out'], dtype=float)
        if mv.shape != fx.shape or np.abs(mv - fx).max() > 1e-12 * max(np.abs(mv).max(), np.abs(fx).max(), 1e-300):
            return 'the load vector the analysis solved for is not the model\'s vector at load factor 1 (incrementable forces at full value)'
    return None


def static_predicate(res):
    """the property on the implementation: K c = f on the active amplitudes, zero elsewhere (judged only when the system is regular)"""
    if 'k0_out' not in res or 'fext_out' not in res or not res.get('cs'):
        return None
    from scipy.sparse import csr_matrix
    A = csr_matrix(res['k0_out']).toarray()
    b = np.asarray(res['fext_out'], dtype=float)
    x = np.asarray(res['cs'][0], dtype=float)
    if not (np.all(np.isfinite(x)) and np.all(np.isfinite(b)) and np.all(np.isfinite(A))):
        return None
    act = np.unique(np.nonzero(A)[1])
    if x.shape != b.shape:
        return 'static solution has shape %r, the load vector %r' % (x.shape, b.shape)
    null = [k for k in range(len(b)) if k not in set(act)]
    if null and np.abs(x[null]).max() != 0:
        return 'static solution is not zero on amplitudes without stiffness'
    if len(act) == 0:
        return None
    Ar = A[np.ix_(act, act)]
    if np.linalg.cond(Ar) > 1e10:
        return None
    r = A @ x - b
    den = np.abs(A) @ np.abs(x) + np.abs(b)
    cw = np.abs(r[act]) / np.maximum(den[act], 1e-300)
    if cw.max() > 1e-7:
        return ('static solution does not satisfy K c = f on every active amplitude: row-wise backward error %.3e at amplitude %d '
                '(max |f| = %.3e, max |c| = %.3e)' % (cw.max(), act[int(cw.argmax())], np.abs(b).max(), np.abs(x).max()))
    return None


def static_model_cases(ctx, rng, ncases, dist):
    cases, ress = [], []
    for t in range(ncases):
        case = gen_static_case(rng)
        ctx.evaluations += 1
        res = run_static_model(case)
        if res.get('skip'):
            dist['static_skipped'] = dist.get('static_skipped', 0) + 1
            continue
        cases.append(case); ress.append(res)
        dist['static_' + case['what']] = dist.get('static_' + case['what'], 0) + 1
        dist['static_singular_values_not_compared'] = dist.get('static_singular_values_not_compared', 0) + (not res['px_finite'])
        if case['scale'] != 1. and case['what'] != 'raises':
            ctx.nontrivial.add(('static', case['what'], case['scale'], t))
    lines = []
    for r in ress:
        lines.append(r['line'])
        if r.get('fext_line') and 'fext_out' in r:
            lines.append(r['fext_line'])
    reps = driver(lines) if lines else []
    k = 0
    for case, r in zip(cases, ress):
        rep = reps[k]; k += 1
        rep_fext = None
        if r.get('fext_line') and 'fext_out' in r:
            rep_fext = reps[k]; k += 1
        d = compare_static_model(case, r, rep, rep_fext)
        bad = static_predicate(r)
        if d:
            if bad:
                ctx.violation('C07 fails on the implementation: %s  [found through the model/implementation disagreement on the linear static '
                              'analysis: %s]' % (bad, d), dict(case=case, derived='static-model'))
            else:
                ctx.violation('model/implementation disagreement on the linear static analysis (%s): %s' % (case['what'], d),
                              dict(case=case, derived='static-model', tie='H Model/BayLoads.lean analysisStatic / solve'), found_input=False)
            return False
        if bad:
            ctx.violation('C07 fails on the implementation: ' + bad, dict(case=case, derived='static-model'))
            return False
    dist['static_through_model'] = dist.get('static_through_model', 0) + len(ress)
    return True


def correspondence(ctx):
    translate(ctx)
    rng = ctx.rng
    dist = dict(models={}, n_forces={}, placed=0)
    ctx.cov['input_distribution'] = dist
    lines, impl, cases = [], [], []
    for t in range(ctx.scale(40, 400)):
        case = gen(ctx, rng)
        ctx.evaluations += 1
        dist['models'][case['lean_model']] = dist['models'].get(case['lean_model'], 0) + 1
        nf = len(case['forces']) + len(case['forces_inc'])
        dist['n_forces'][nf] = dist['n_forces'].get(nf, 0) + 1
        dist['placed'] += case['pad'] > 0
        if len(case['forces']) >= 2 and len(case['forces_inc']) >= 2 and case['inc'] != 1.:
            ctx.nontrivial.add((case['lean_model'], case['m'], case['n'], nf, case['inc']))
        ctx.sample(dict(model=case['lean_model'], m=case['m'], n=case['n'], forces=len(case['forces']),
                        forces_inc=len(case['forces_inc']), inc=case['inc'], col0=case['col0']), limit=3)
        line, fext, bad = run_panel(ctx, case)
        if bad:
            if ctx.violation('C07 fails on the implementation: ' + bad[0], dict(case=case), identity=bad[1]):
                return
            continue
        lines.append(line); impl.append(fext); cases.append(case)
    for case, fext, rep in zip(cases, impl, driver(lines)):
        tok = rep.split()
        if tok[0] != 'ok':
            ctx.violation('force-vector model replied %r' % rep[:100], dict(case=case), found_input=False)
            return
        mv = [unq(x) for x in tok[1:]]
        scale = max(np.abs(fext).max(), 1e-300)
        if len(mv) != len(fext) or any(abs(float(a) - b) > 1e-9 * scale for a, b in zip(mv, fext)):
            ctx.violation('model/implementation disagreement on the external force vector; the virtual-work predicate holds '
                          'on this case', dict(case=case, tie='H Model/Static.lean calcFext'), found_input=False)
            return
    slines, sx, sdesc = [], [], []
    for t in range(ctx.scale(30, 300)):
        line, x, bad, desc = solve_case(ctx, rng)
        ctx.evaluations += 1
        if bad:
            ctx.violation('C07 fails on the implementation: ' + bad, dict(case=desc, derived='solve'))
            return
        slines.append(line); sx.append(x); sdesc.append(desc)
    for x, desc, rep in zip(sx, sdesc, driver(slines)):
        mv = [float(unq(v)) for v in rep.split()[1:]]
        if len(mv) != len(x) or np.abs(np.array(mv) - x).max() > 1e-12 * max(np.abs(x).max(), 1e-300):
            ctx.violation('model/implementation disagreement on sparse.solve scatter', dict(case=desc, tie='H scatter'),
                          found_input=False)
            return
    # Model/BayLoads.lean: bay load vector, assembly load vector with col_start, linear static analysis
    global COV
    COV = LineCov()
    try:
        if not bay_model_cases(ctx, rng, ctx.scale(25, 250), dist):
            return
        if not assembly_model_cases(ctx, rng, ctx.scale(15, 150), dist):
            return
        if not static_model_cases(ctx, rng, ctx.scale(16, 160), dist):
            return
    finally:
        cov, COV = COV.report(), _NoCov()
        ctx.cov['line_coverage'] = cov
        # lines of the modelled functions the model does not describe: the non-linear branch of Analysis.static (C09), the
        # NotImplementedError of static(), and the col_start guard of the assembly (col_start is always set by __init__)
        for k, v in cov.items():
            if v['missed']:
                ctx.notes.append('modelled function %s: lines never executed by the correspondence: %s' % (k, v['missed']))
    for t in range(ctx.scale(5, 40)):
        c, bad = assembly_case(ctx, rng)
        ctx.evaluations += 1
        if bad:
            ctx.violation('C07 fails on the implementation: ' + bad, dict(case=c, derived='assembly'))
            return
    for t in range(ctx.scale(3, 20)):
        c, bad, ident = bay_case(ctx, rng)
        ctx.evaluations += 1
        if bad and ctx.violation('C07 fails on the implementation: ' + bad, dict(case=c, derived='bay'), identity=ident):
            return
    nb = 0
    for t in range(ctx.scale(8, 100)):
        c, bad = stiffened_bay_case(ctx, rng)
        ctx.evaluations += 1
        nb += sum(1 for x in c.get('stiffs', []) if x[1] or x[2]) >= 1
        if bad:
            ctx.violation('C07 fails on the implementation: ' + bad, dict(case=c, derived='stiffened bay'))
            return
    dist['stiffened_bays_with_loaded_stiffeners'] = nb
    ctx.cov['input_distribution'] = dist


def search(ctx, reason):
    rng = ctx.rng
    for t in range(ctx.scale(60, 300)):
        case = gen(ctx, rng)
        ctx.evaluations += 1
        line, fext, bad = run_panel(ctx, case)
        if bad and ctx.violation('C07 fails on the implementation: ' + bad[0], dict(case=case, broken=reason), identity=bad[1]):
            return True
        l2, x, bad2, desc = solve_case(ctx, rng)
        if bad2:
            ctx.violation('C07 fails on the implementation: ' + bad2, dict(case=desc, derived='solve', broken=reason))
            return True
    return False


def replay(ctx, data):
    r = data['replay']
    if r.get('case') and not r.get('derived'):
        line, fext, bad = run_panel(ctx, r['case'])
        print('property on implementation:', bad)
        return 1 if bad else 0
    if r.get('derived') in ('bay-model', 'asm-model', 'static-model') and r.get('case'):
        case = r['case']
        if r['derived'] == 'bay-model':
            out = run_bay_model(case)
            if out.get('skip') or 'exc' in out:
                print('bay:', out.get('skip') or out.get('exc'))
                return 1 if 'exc' in out else 0
            d = compare_bay_model(out, driver(out['lines']))
            bad = bay_predicate(out['bay'], out['fext'])
        elif r['derived'] == 'asm-model':
            out = run_assembly_model(case)
            d = compare_assembly_model(out, driver([out['line']])[0])
            bad = assembly_predicate(case, out)
        else:
            res = run_static_model(case)
            if res.get('skip'):
                print('construction:', res['skip'])
                return 0
            lines = [res['line']] + ([res['fext_line']] if res.get('fext_line') and 'fext_out' in res else [])
            reps = driver(lines)
            d = compare_static_model(case, res, reps[0], reps[1] if len(reps) > 1 else None)
            bad = static_predicate(res)
        print('model/implementation disagreement:', d)
        print('property on implementation:', bad)
        return 1 if (d or bad) else 0
    print('replay:', data['what'])
    return 1
