"""C07 — static analysis: load vector = virtual work of the loads; K c = f solved on the active amplitudes.
H: Model/Static.lean (calc_fext placement/scaling, sparse.solve scatter) vs the running Python through the driver
   (the shape rows g are recorded from the real fg; the solver's reduced answer is recorded from spsolve).
T: Gen/Field (cfg rows = amplitude-derivative of the series; theorem shape_rows_match_field).
Implementation arm: fext.c against sum of force x displacement reported by the package's own uvw, for panels,
assemblies and stiffened bays; residual of the linear static solution; linearity in the loads.
"""
import numpy as np
from scipy.sparse import csr_matrix

from tools.common import q, unq, driver
from tools.props import panel_common as pc
from tools.translate import gen_field

TRUSTED = pc.TRUSTED_T[:3] + [
    'hand model lean/CompmechVerif/Model/Static.lean of Panel.calc_fext, PanelAssembly.calc_fext and sparse.solve '
    '(remove_null_cols + scatter), tied by the driver correspondence on explored cases',
    'SuperLU spsolve is a parameter of the model: its answer is recorded and fed to the model; its residual is checked per sample',
    'StiffPanelBay.calc_fext is covered by the virtual-work predicate on explored bays only',
]
ASSUMPTIONS = ['distributed loads do not exist in the panel API: only point forces',
               'a symmetric matrix has null rows exactly where it has null columns (remove_null_cols looks at columns)']
RULE = ('random panels of every model with 0-5 constant and 0-5 incrementable point forces at interior/edge/corner '
        'positions, random load factors, placement inside larger vectors; assemblies of 2-4 panels; bays with skin/flange/base '
        'forces; random symmetric systems with null rows/columns for solve; non-trivial = >= 2 forces of each kind and inc != 1')


def translate(ctx):
    if not hasattr(ctx, '_field_ir'):
        ctx._field_ir = gen_field.translate_all()
    return ctx._field_ir


def gen_forces(rng, a, b, kmax=5):
    out = []
    for _ in range(rng.randint(0, kmax)):
        x = rng.choice([0., a, a / 2., rng.uniform(0, a)])
        y = rng.choice([0., b, b / 2., rng.uniform(0, b)])
        out.append([x, y, rng.uniform(-10, 10), rng.uniform(-10, 10), rng.uniform(-100, 100)])
    return out


def gen(ctx, rng):
    case = pc.gen_panel_case(rng, models=('Plate', 'CPanel', 'KPanel', 'PlateW'), max_mn=3, y12=False)
    case['forces'] = gen_forces(rng, case['a'], case['b'])
    case['forces_inc'] = gen_forces(rng, case['a'], case['b'])
    case['inc'] = rng.choice([1., 0.3, rng.uniform(0, 1)])
    case['pad'] = rng.choice([0, 0, 4, 9])
    case['col0'] = rng.choice([0, case['pad']]) if case['pad'] else 0
    return case


def shape_rows(p, x, y):
    from compmech.panel import modelDB
    db = modelDB.db[p.model]
    g = np.zeros((db['dofs'], p.get_size()))
    db['field'].fg(g, x, y, p)
    return g


def run_panel(ctx, case):
    """returns (model line, impl fext, property failure)"""
    p = pc.make_panel(case)
    p._rebuild()
    p.forces = [list(f) for f in case['forces']]
    p.forces_inc = [list(f) for f in case['forces_inc']]
    n = p.get_size()
    size = n + case['pad']
    try:
        fext = pc.quiet(p.calc_fext, inc=case['inc'], size=size, col0=case['col0'], silent=True)
    except Exception as e:
        ident = 'C07-w-only-model-fext-raises' if case['lean_model'] == 'PlateW' and (case['forces'] or case['forces_inc']) else None
        return None, None, ('Panel.calc_fext raised %s: %s (model %s)' % (type(e).__name__, e, case['model']), ident)
    # virtual work against the package's own displacement field
    pc.quiet(p.calc_k0, silent=True)
    rng = np.random.RandomState(len(case['forces']) * 7 + len(case['forces_inc']))
    c = rng.uniform(-1, 1, size)
    cl = np.ascontiguousarray(c[case['col0']:case['col0'] + n])
    work = 0.
    for fs, fac in ((case['forces'], 1.), (case['forces_inc'], case['inc'])):
        for (x, y, fx, fy, fz) in fs:
            u, v, w, _, _ = p.uvw(cl, xs=np.array([x]), ys=np.array([y]))
            work += fac * (fx * float(np.ravel(u)[0]) + fy * float(np.ravel(v)[0]) + fz * float(np.ravel(w)[0]))
    got = float(fext @ c)
    scale = sum(abs(f[2]) + abs(f[3]) + abs(f[4]) for f in case['forces'] + case['forces_inc']) + 1e-300
    bad = None
    if abs(got - work) > 1e-9 * scale:
        bad = ('fext.c = %.9e but the forces do virtual work %.9e against the displacements reported by uvw (inc=%r)'
               % (got, work, case['inc']), None)
    # model line
    dofs = 1 if case['lean_model'] == 'PlateW' else 3

    def fl(f):
        x, y, fx, fy, fz = f
        g = shape_rows(p, x, y)
        comps = [fx, fy, fz] if dofs == 3 else [fz, 0., 0.]
        rows = [g[k] if k < g.shape[0] else np.zeros(n) for k in range(3)]
        return ' '.join(q(v) for v in comps + list(rows[0]) + list(rows[1]) + list(rows[2]))
    line = 'C07 fext %s %d %d %d | %s | %s' % (q(case['inc']), case['col0'], n, size,
                                              ' ; '.join(fl(f) for f in case['forces']),
                                              ' ; '.join(fl(f) for f in case['forces_inc']))
    return line, fext, bad


def solve_case(ctx, rng):
    """random symmetric system with null rows/cols through the real sparse.solve, spsolve's answer recorded"""
    import compmech.sparse as sp
    n = rng.choice([3, 5, 8, 13])
    act = sorted(rng.sample(range(n), rng.randint(1, n)))
    M = np.array([[rng.uniform(-1, 1) for _ in act] for _ in act])
    Ared = M @ M.T + len(act) * np.eye(len(act))
    kind = rng.choice(['spd', 'spd', 'chain', 'saddle', 'graded']) if len(act) >= 3 else 'spd'
    if kind == 'chain':
        # spring chain k*tridiag(-1, 2, -1): positive definite, interior columns sum EXACTLY to zero
        k_ = rng.choice([1., 2., 1000.])
        Ared = k_ * (2 * np.eye(len(act)) - np.eye(len(act), k=1) - np.eye(len(act), k=-1))
    elif kind == 'saddle':
        # Lagrange-multiplier border [[K, G^T], [G, 0]]: non-singular, an active amplitude with ZERO diagonal entry
        nk = len(act) - 1
        Kb = M[:nk, :nk] @ M[:nk, :nk].T + nk * np.eye(nk)
        G = np.array([[rng.choice([1., -1.]) * rng.uniform(0.5, 1.5) for _ in range(nk)]])
        Ared = np.block([[Kb, G.T], [G, np.zeros((1, 1))]])
    dgr = np.ones(n)
    if kind == 'graded':
        # stiffness spanning many orders of magnitude (thin sheets next to penalty springs; small units): D K D with a graded
        # diagonal D - every scaled amplitude is still an ACTIVE amplitude with its own equation
        dg = np.array([10 ** rng.choice([0, 0, -3, -6, -9, -12, -15, -16]) for _ in act])
        dg[0] = 1.
        Ared = Ared * np.outer(dg, dg)
        dgr[act] = dg
    A = np.zeros((n, n))
    A[np.ix_(act, act)] = Ared
    b = np.array([rng.uniform(-1, 1) for _ in range(n)]) * dgr
    seen = {}
    old = sp.spsolve

    def rec(a, bb, **kw):
        px = old(a, bb, **kw)
        seen['px'] = np.array(px)
        return px
    sp.spsolve = rec
    try:
        x = pc.quiet(sp.solve, csr_matrix(A), b, silent=True)
    finally:
        sp.spsolve = old
    line = 'C07 scatter %d | %s | %s' % (n, ' '.join(str(k) for k in act), ' '.join(q(v) for v in seen['px']))
    bad = None
    r = A @ x - b
    if kind == 'graded':
        # row-wise (componentwise) backward error: every active equation must hold relative to its own terms
        den = np.abs(A) @ np.abs(x) + np.abs(b)
        cw = np.abs(r[act]) / np.maximum(den[act], 1e-300)
        if cw.max() > 1e-8:
            bad = ('static solution does not satisfy K c = f on every active amplitude of a system whose stiffness spans %d orders '
                   'of magnitude: row-wise backward error %.3e at amplitude %d' % (
                       int(round(-2 * np.log10(dgr[act].min()))), cw.max(), act[int(cw.argmax())]))
    elif np.abs(r[act]).max() > 1e-9 * max(np.abs(b).max(), 1e-300):
        bad = 'static solution does not satisfy K c = f on the active amplitudes (max residual %.3e)' % np.abs(r[act]).max()
    null = [k for k in range(n) if k not in act]
    if null and np.abs(x[null]).max() != 0:
        bad = 'static solution is not zero on amplitudes without stiffness'
    # linearity
    b2 = np.array([rng.uniform(-1, 1) for _ in range(n)])
    x2 = pc.quiet(sp.solve, csr_matrix(A), b2, silent=True)
    x12 = pc.quiet(sp.solve, csr_matrix(A), 2 * b - 3 * b2, silent=True)
    if np.abs(x12 - (2 * x - 3 * x2)).max() > 1e-9 * max(np.abs(x12).max(), 1e-300):
        bad = 'static solution does not depend linearly on the loads'
    # ... linearly over many orders of magnitude (micro-Newton probe loads, MN unit systems): c(s f) = s c(f)
    for s_ in (1e-12, 1e-9, 1e-5, 1e7):
        xs = pc.quiet(sp.solve, csr_matrix(A), s_ * b, silent=True)
        if np.abs(xs - s_ * x).max() > 1e-9 * max(np.abs(s_ * x).max(), 1e-300):
            bad = ('static solution does not depend linearly on the loads: scaling the load vector by %g does not scale the solution by %g '
                   '(max |c(s f)| = %.3e, s max|c(f)| = %.3e)' % (s_, s_, np.abs(xs).max(), s_ * np.abs(x).max()))
            break
    return line, x, bad, dict(n=n, active=act)


def assembly_case(ctx, rng):
    from compmech.panel.assembly import PanelAssembly
    cs = [pc.gen_panel_case(rng, models=('Plate',), max_mn=3, y12=False) for _ in range(rng.randint(2, 4))]
    ps = [pc.make_panel(c) for c in cs]
    for p, c in zip(ps, cs):
        p._rebuild()
        p.forces = gen_forces(rng, c['a'], c['b'], 3)
        p.forces_inc = gen_forces(rng, c['a'], c['b'], 3)
        pc.quiet(p.calc_k0, silent=True)
    asm = PanelAssembly(ps)
    inc = rng.uniform(0, 1)
    fext = pc.quiet(asm.calc_fext, inc=inc, silent=True)
    size = asm.get_size()
    rs = np.random.RandomState(size)
    c = rs.uniform(-1, 1, size)
    work = 0.
    for p in ps:
        cl = np.ascontiguousarray(c[p.col_start:p.col_end])
        for fs, fac in ((p.forces, 1.), (p.forces_inc, inc)):
            for (x, y, fx, fy, fz) in fs:
                u, v, w, _, _ = p.uvw(cl, xs=np.array([x]), ys=np.array([y]))
                work += fac * (fx * float(np.ravel(u)[0]) + fy * float(np.ravel(v)[0]) + fz * float(np.ravel(w)[0]))
    if np.shape(fext) != (size,):
        return dict(panels=[(c_['m'], c_['n']) for c_ in cs]), 'assembly fext has shape %r, size is %d' % (np.shape(fext), size)
    if abs(float(fext @ c) - work) > 1e-9 * (np.abs(fext).sum() + 1e-300):
        return dict(panels=[(c_['m'], c_['n']) for c_ in cs], inc=inc), \
            'assembly fext.c = %.9e differs from the virtual work %.9e of the panels\' forces' % (float(fext @ c), work)
    # a second load case on the SAME assembly object: forces edited in place / replaced, same number of forces, same load factor
    for p in ps:
        for fs in (p.forces, p.forces_inc):
            for f in fs:
                f[2], f[3], f[4] = rng.uniform(-1, 1), rng.uniform(-1, 1), rng.uniform(-1, 1)
        if p.forces and rng.random() < 0.5:
            p.forces = [list(f) for f in p.forces]
    fext2 = pc.quiet(asm.calc_fext, inc=inc, silent=True)
    work2 = 0.
    for p in ps:
        cl = np.ascontiguousarray(c[p.col_start:p.col_end])
        for fs, fac in ((p.forces, 1.), (p.forces_inc, inc)):
            for (x, y, fx, fy, fz) in fs:
                u, v, w, _, _ = p.uvw(cl, xs=np.array([x]), ys=np.array([y]))
                work2 += fac * (fx * float(np.ravel(u)[0]) + fy * float(np.ravel(v)[0]) + fz * float(np.ravel(w)[0]))
    if abs(float(fext2 @ c) - work2) > 1e-9 * (np.abs(fext2).sum() + np.abs(fext).sum() + 1e-300):
        return dict(panels=[(c_['m'], c_['n']) for c_ in cs], inc=inc, history='calc_fext; forces edited in place; calc_fext'), \
            ('second load case on the same assembly: fext.c = %.9e differs from the virtual work %.9e of the edited forces '
             '(first load case: %.9e)' % (float(fext2 @ c), work2, float(fext @ c)))
    return None, None


def bay_case(ctx, rng):
    from compmech.stiffpanelbay import StiffPanelBay
    bay = StiffPanelBay()
    bay.a, bay.b = rng.uniform(0.5, 2), rng.uniform(0.5, 2)
    bay.m = bay.n = 3
    bay.stack = [0, 90, 0]
    bay.plyt = 1e-3
    bay.laminaprop = (142.5e9, 8.7e9, 0.28, 5.1e9, 5.1e9, 5.1e9)
    bay.mu = 1500.
    bay.add_panel(y1=0, y2=bay.b, plyt=bay.plyt)
    bay.forces_skin = [[rng.uniform(0, bay.a), rng.uniform(0, bay.b), rng.uniform(-5, 5), rng.uniform(-5, 5), rng.uniform(-50, 50)]
                       for _ in range(rng.randint(1, 3))]
    desc = dict(a=bay.a, b=bay.b, forces_skin=bay.forces_skin)
    try:
        pc.quiet(bay.calc_k0, silent=True)
        fext = pc.quiet(bay.calc_fext, silent=True)
    except Exception as e:
        return desc, 'StiffPanelBay.calc_fext with skin forces raised %s: %s' % (type(e).__name__, e), 'C07-bay-skin-forces-raise'
    size = bay.get_size()
    rs = np.random.RandomState(7)
    c = rs.uniform(-1, 1, size)
    p = bay.panels[0]
    work = 0.
    for (x, y, fx, fy, fz) in bay.forces_skin:
        u, v, w, _, _ = p.uvw(np.ascontiguousarray(c[:p.get_size()]), xs=np.array([x]), ys=np.array([y]))
        work += fx * float(np.ravel(u)[0]) + fy * float(np.ravel(v)[0]) + fz * float(np.ravel(w)[0])
    if abs(float(fext @ c) - work) > 1e-9 * (np.abs(fext).sum() + 1e-300):
        return desc, 'bay fext.c = %.9e differs from the virtual work %.9e of the skin forces' % (float(fext @ c), work), None
    return None, None, None


def stiffened_bay_case(ctx, rng):
    """bay with 0-2 stiffeners of each kind (generator of the C13 check), point forces on skin / flanges / bases of a random
    subset of the stiffeners (e.g. only on the SECOND 2-D stiffener): fext . c = virtual work of every force against the
    displacement of ITS component evaluated with that component's own slice of c"""
    from tools.props import C13
    case = C13.gen_bay(rng)
    # make loaded / unloaded stiffeners alternate at random
    for s_ in case['stiffs']:
        # 0..3 forces on every loadable part (several forces on ONE flange / base / skin: accumulation, not assignment)
        if s_['type'] in ('b2', 't') and s_['flange']:
            s_['forces_flange'] = [[rng.uniform(0, case['a']), rng.uniform(0, s_['bf']), rng.uniform(-1, 1), 0., rng.uniform(-1, 1)]
                                   for _ in range(rng.choice([0, 1, 2, 3]))]
        if s_['type'] == 't':
            s_['forces_base'] = [[rng.uniform(0, case['a']), rng.uniform(0, s_['bb']), 0., rng.uniform(-1, 1), rng.uniform(-1, 1)]
                                 for _ in range(rng.choice([0, 1, 2, 3]))]
    case['forces_skin'] = [[rng.uniform(0, case['a']), rng.uniform(0, case['b']), rng.uniform(-1, 1), rng.uniform(-1, 1), 1.]
                           for _ in range(rng.choice([0, 1, 2, 3]))]
    desc = dict(kind='stiffened bay', stiffs=[(s_['type'], bool(s_['forces_flange']), bool(s_['forces_base'])) for s_ in case['stiffs']],
                skin=bool(case['forces_skin']))
    try:
        bay, objs = C13.build_bay(case)
        pc.quiet(bay.calc_k0, silent=True)
        fext = np.array(pc.quiet(bay.calc_fext, silent=True))
        ranges = C13.bay_ranges(case, bay)
    except Exception as e:
        return desc, None      # construction problems are the business of C13 / C20
    size = sum(sz for _, sz in ranges)
    if fext.shape != (size,):
        return desc, 'bay fext has shape %r, the component sizes add up to %d' % (fext.shape, size)
    c = np.random.RandomState(size).uniform(-1, 1, size)
    start = {}
    off = 0
    for key, sz in ranges:
        start[key] = (off, off + sz)
        off += sz
    work = 0.

    def add(panel, sl, forces):
        w_ = 0.
        cl = np.ascontiguousarray(c[sl[0]:sl[1]])
        for (x, y, fx, fy, fz) in forces:
            u, v, w, _, _ = panel.uvw(cl, xs=np.array([x]), ys=np.array([y]))
            w_ += fx * float(np.ravel(u)[0]) + fy * float(np.ravel(v)[0]) + fz * float(np.ravel(w)[0])
        return w_
    try:
        work += add(bay.panels[0], start['skin'], bay.forces_skin)
        for s_ in bay.bladestiff2ds:
            if s_.flange is not None:
                work += add(s_.flange, start[('b2f', id(s_))], s_.flange.forces)
        for s_ in bay.tstiff2ds:
            work += add(s_.base, start[('tb', id(s_))], s_.base.forces)
            work += add(s_.flange, start[('tf', id(s_))], s_.flange.forces)
    except Exception:
        return desc, None
    if abs(float(fext @ c) - work) > 1e-9 * (np.abs(fext).sum() + 1e-300):
        return desc, 'stiffened bay: fext.c = %.9e differs from the virtual work %.9e of the forces on skin, flanges and bases' \
            % (float(fext @ c), work)
    return desc, None


def correspondence(ctx):
    translate(ctx)
    rng = ctx.rng
    dist = dict(models={}, n_forces={}, placed=0)
    lines, impl, cases = [], [], []
    for t in range(ctx.scale(40, 400)):
        case = gen(ctx, rng)
        ctx.evaluations += 1
        dist['models'][case['lean_model']] = dist['models'].get(case['lean_model'], 0) + 1
        nf = len(case['forces']) + len(case['forces_inc'])
        dist['n_forces'][nf] = dist['n_forces'].get(nf, 0) + 1
        dist['placed'] += case['pad'] > 0
        if len(case['forces']) >= 2 and len(case['forces_inc']) >= 2 and case['inc'] != 1.:
            ctx.nontrivial.add((case['lean_model'], case['m'], case['n'], nf, case['inc']))
        ctx.sample(dict(model=case['lean_model'], m=case['m'], n=case['n'], forces=len(case['forces']),
                        forces_inc=len(case['forces_inc']), inc=case['inc'], col0=case['col0']), limit=3)
        line, fext, bad = run_panel(ctx, case)
        if bad:
            if ctx.violation('C07 fails on the implementation: ' + bad[0], dict(case=case), identity=bad[1]):
                return
            continue
        lines.append(line); impl.append(fext); cases.append(case)
    for case, fext, rep in zip(cases, impl, driver(lines)):
        tok = rep.split()
        if tok[0] != 'ok':
            ctx.violation('force-vector model replied %r' % rep[:100], dict(case=case), found_input=False)
            return
        mv = [unq(x) for x in tok[1:]]
        scale = max(np.abs(fext).max(), 1e-300)
        if len(mv) != len(fext) or any(abs(float(a) - b) > 1e-9 * scale for a, b in zip(mv, fext)):
            ctx.violation('model/implementation disagreement on the external force vector; the virtual-work predicate holds '
                          'on this case', dict(case=case, tie='H Model/Static.lean calcFext'), found_input=False)
            return
    slines, sx, sdesc = [], [], []
    for t in range(ctx.scale(30, 300)):
        line, x, bad, desc = solve_case(ctx, rng)
        ctx.evaluations += 1
        if bad:
            ctx.violation('C07 fails on the implementation: ' + bad, dict(case=desc, derived='solve'))
            return
        slines.append(line); sx.append(x); sdesc.append(desc)
    for x, desc, rep in zip(sx, sdesc, driver(slines)):
        mv = [float(unq(v)) for v in rep.split()[1:]]
        if len(mv) != len(x) or np.abs(np.array(mv) - x).max() > 1e-12 * max(np.abs(x).max(), 1e-300):
            ctx.violation('model/implementation disagreement on sparse.solve scatter', dict(case=desc, tie='H scatter'),
                          found_input=False)
            return
    for t in range(ctx.scale(5, 40)):
        c, bad = assembly_case(ctx, rng)
        ctx.evaluations += 1
        if bad:
            ctx.violation('C07 fails on the implementation: ' + bad, dict(case=c, derived='assembly'))
            return
    for t in range(ctx.scale(3, 20)):
        c, bad, ident = bay_case(ctx, rng)
        ctx.evaluations += 1
        if bad and ctx.violation('C07 fails on the implementation: ' + bad, dict(case=c, derived='bay'), identity=ident):
            return
    nb = 0
    for t in range(ctx.scale(25, 200)):
        c, bad = stiffened_bay_case(ctx, rng)
        ctx.evaluations += 1
        nb += sum(1 for x in c.get('stiffs', []) if x[1] or x[2]) >= 1
        if bad:
            ctx.violation('C07 fails on the implementation: ' + bad, dict(case=c, derived='stiffened bay'))
            return
    dist['stiffened_bays_with_loaded_stiffeners'] = nb
    ctx.cov['input_distribution'] = dist


def search(ctx, reason):
    rng = ctx.rng
    for t in range(ctx.scale(60, 300)):
        case = gen(ctx, rng)
        ctx.evaluations += 1
        line, fext, bad = run_panel(ctx, case)
        if bad and ctx.violation('C07 fails on the implementation: ' + bad[0], dict(case=case, broken=reason), identity=bad[1]):
            return True
        l2, x, bad2, desc = solve_case(ctx, rng)
        if bad2:
            ctx.violation('C07 fails on the implementation: ' + bad2, dict(case=desc, derived='solve', broken=reason))
            return True
    return False


def replay(ctx, data):
    r = data['replay']
    if r.get('case') and not r.get('derived'):
        line, fext, bad = run_panel(ctx, r['case'])
        print('property on implementation:', bad)
        return 1 if bad else 0
    print('replay:', data['what'])
    return 1
