"""C14 — equivalent descriptions of one structure give identical matrices and eigenvalues.
T: Gen/Panel regenerated; Props/C14.lean (entry-level equivalences between the regenerated kernel models).
Implementation arm: every pair of descriptions is run through the public API and compared (matrices entry-wise,
eigenvalues through scipy on the package's matrices).
"""
import numpy as np
from scipy.linalg import eigh

from tools.props import panel_common as pc

TRUSTED = pc.TRUSTED_T + [
    'LAPACK eigh for the eigenvalue comparisons (axis exchange, similarity)',
    'the numerically integrated kernels (fkL_num, fkG_num) are compared with the analytic ones at the undeformed state '
    'numerically only (exploration): they are not yet translated to Lean',
]
ASSUMPTIONS = [
    'entry-level theorems: summation over sections / series indices and placement are checked numerically',
    '"tends to the flat plate" is the exact expansion plate + X/r + Y/r^2 (no analytic limit is formalised)',
    'axis exchange is stated for the reflection x<->y (laminate angles theta -> 90 - theta); a 90-degree turn differs from '
    'it by a mirror y -> -y which is checked numerically through the eigenvalues',
]
RULE = ('random geometries, laminates, flags, loads and scale factors; pairs: kpanel(alpha=0)/cpanel, cpanel(r)/plate '
        'expansion, plate_w/w-block, numeric/analytic at c=0, axis exchange, similarity; non-trivial = unsymmetric laminate '
        'or generic flags; distinct by case parameters')


def regen_gauss_table():
    """the `*_tabulated` theorems quote the Gauss-Legendre table of the C library (Gen/CTables/LegGauss*.lean): regenerate the C tables
    from the tree under test as C10 does (files are rewritten only when their content changes)"""
    import os
    from tools import common
    from tools.translate import ctables as ct
    ct.emit_all(common.REPO, os.path.join(common.LEAN, 'CompmechVerif', 'Gen', 'CTables'), common.write_if_changed)



def translate(ctx):
    pc.translated(ctx)
    # num_at_zero_eq_analytic_* (Props/C14.lean) are about the numerically integrated kernels fkL_num: regenerated too
    from tools.translate import gen_num
    if not hasattr(ctx, '_num_ir'):
        ctx._num_ir = gen_num.translate_all()
    regen_gauss_table()


def with_option(case, rng, prob=0.3):
    """sometimes switch on Panel.force_orthotropic_laminate, on a laminate where it matters (off-axis, unsymmetric)"""
    if rng.random() < prob:
        case['force_ortho'] = True
        if all(abs(a_) % 90 == 0 for a_ in case['stack']) or list(case['stack']) == list(case['stack'])[::-1]:
            case['stack'] = list(case['stack']) + [rng.choice([30., -55., 17.])]
        if len(case['laminaprop']) == 3 or case['laminaprop'][0] == case['laminaprop'][1]:
            case['laminaprop'] = (142.5e9, 8.7e9, 0.28, 5.1e9, 5.1e9, 5.1e9)      # the option is void for an isotropic ply
    return case


def mats(case, which=('k0', 'kG0', 'kM'), N=(-1., 0., 0.)):
    p = pc.make_panel(case)
    p.Nxx, p.Nyy, p.Nxy = N
    out = {}
    out['k0'] = pc.quiet(p.calc_k0, silent=True).toarray()
    if 'kG0' in which:
        out['kG0'] = pc.quiet(p.calc_kG0, silent=True).toarray()
    if 'kM' in which:
        out['kM'] = pc.quiet(p.calc_kM, silent=True).toarray()
    return out, p


def pair_alpha0(ctx, rng):
    case = with_option(pc.gen_panel_case(rng, models=('KPanel',), max_mn=3), rng)
    case['alphadeg'] = 0.
    N = (rng.uniform(-5, 5), rng.uniform(-5, 5), rng.uniform(-5, 5))
    A, _ = mats(case, N=N)
    c2 = dict(case, lean_model='CPanel', model=pc.MODEL_OF['CPanel'], alphadeg=None)
    B, _ = mats(c2, N=N)
    for k in A:
        d = pc.rel_diff(A[k], B[k])
        if d > 1e-9:
            return case, 'conical panel with zero semi-vertex angle: %s differs from the cylindrical panel (rel %.3e)' % (k, d)
    return None, None


def pair_large_radius(ctx, rng):
    case = with_option(pc.gen_panel_case(rng, models=('CPanel',), max_mn=3), rng)
    pl = dict(case, lean_model='Plate', model=pc.MODEL_OF['Plate'], r=None)
    K0, _ = mats(pl, which=('k0',))
    Ks = {}
    for r in (1., 2., 3.7, 1e4, 1e7):
        Ks[r], _ = mats(dict(case, r=r), which=('k0',))
    # K(r) = K0 + X/r + Y/r^2 : solve X, Y from r = 1, 2 and predict r = 3.7
    D1 = Ks[1.]['k0'] - K0['k0']
    D2 = Ks[2.]['k0'] - K0['k0']
    Y = (D1 - 2 * D2) * 2.
    X = D1 - Y
    pred = K0['k0'] + X / 3.7 + Y / 3.7 ** 2
    d = pc.rel_diff(pred, Ks[3.7]['k0'])
    if d > 1e-8:
        return case, 'cylindrical stiffness is not plate + X/r + Y/r^2 (prediction at r=3.7 off by rel %.3e)' % d
    # "tends to the flat plate": the distance to the plate matrix is the exact expansion X/r + Y/r^2 and decays like 1/r
    # (no absolute bound: for a very thin laminate the membrane term A22/r^2 competes with D22/b^4 even at r = 1e7)
    for r in (1e4, 1e7):
        d = pc.rel_diff(Ks[r]['k0'], K0['k0'] + X / r + Y / r ** 2)
        if d > 1e-8:
            return case, 'cylindrical panel of radius %g is not plate + X/r + Y/r^2 (rel %.3e)' % (r, d)
    # the distance itself is bounded by the two terms of the expansion (a RATIO d(1e7)/d(1e4) is not: X/r and Y/r^2 can have
    # opposite signs and partly cancel at r = 1e4 - thorough tier, seed 3, thin [45/30] strip: ratio 2.8e-3, a false alarm of an earlier version)
    import numpy as _np
    sc = max(_np.abs(K0['k0']).max(), 1e-300)
    for r in (1e4, 1e7):
        d = pc.rel_diff(Ks[r]['k0'], K0['k0'])
        bound = (_np.abs(X).max() / r + _np.abs(Y).max() / r ** 2) / sc
        if d > bound * (1 + 1e-6) + 1e-12:
            return case, ('the distance of the cylindrical panel of radius %g from the flat plate (rel %.3e) exceeds |X|/r + |Y|/r^2 = %.3e'
                          % (r, d, bound))
    return None, None


def pair_w_block(ctx, rng):
    case = with_option(pc.gen_panel_case(rng, models=('Plate',), max_mn=4), rng)
    if rng.random() < 0.5:      # reference surface away from the mid-plane (by up to a few thicknesses): rotary inertia d^2 + h^2/12
        case['offset'] = rng.choice([-1, 1]) * rng.uniform(0.3, 4.) * case['plyt'] * len(case['stack'])
    N = (rng.uniform(-5, 5), rng.uniform(-5, 5), rng.uniform(-5, 5))
    A, pa = mats(case, which=('k0', 'kG0', 'kM'), N=N)
    cw = dict(case, lean_model='PlateW', model=pc.MODEL_OF['PlateW'])
    B, pb = mats(cw, which=('k0', 'kG0', 'kM'), N=N)
    # aerodynamic matrices (flow along x and along y) and the aerodynamic damping matrix act on w only
    for flow in ('x', 'y'):
        for p_ in (pa, pb):
            p_.flow, p_.beta, p_.gamma, p_.aeromu = flow, 3.7, 0.0, 0.21
        try:
            A['kA' + flow], B['kA' + flow] = (pc.quiet(p_.calc_kA, silent=True).toarray() for p_ in (pa, pb))
            A['cA' + flow], B['cA' + flow] = (pc.quiet(p_.calc_cA, 0.21, silent=True).toarray() for p_ in (pa, pb))
        except Exception as e:                          # noqa  (an option combination the package rejects for both models)
            pass
    for k in B:
        d = pc.rel_diff(A[k][2::3, 2::3], B[k])
        if d > 1e-10:
            return case, 'w-only plate model: %s differs from the out-of-plane block of the full plate model (rel %.3e)' % (k, d)
    return None, None


def pair_num_analytic(ctx, rng):
    case = pc.gen_panel_case(rng, models=('Plate', 'CPanel'), max_mn=3, y12=False)
    case['force_ortho'] = rng.random() < 0.5          # rarely used option: both integration routes must see the same laminate
    if case['force_ortho'] and all(abs(a_) % 90 == 0 for a_ in case['stack']):
        case['stack'] = list(case['stack']) + [30.]
    p = pc.make_panel(case)
    p.force_orthotropic_laminate = case['force_ortho']
    N = (rng.uniform(-5, 5), rng.uniform(-5, 5), rng.uniform(-5, 5))
    k0 = pc.quiet(p.calc_k0, silent=True).toarray()
    size = p.get_size()
    c = np.zeros(size)
    nx, ny = case['m'] + 3, case['n'] + 3
    kL = pc.quiet(p.calc_k0, silent=True, c=c, nx=nx, ny=ny).toarray()
    d = pc.rel_diff(k0, kL)
    if d > 1e-8:
        return case, 'numerically integrated stiffness at the undeformed state differs from the analytic one (rel %.3e)' % d
    kT = pc.quiet(p.calc_kT, silent=True, c=c, nx=nx, ny=ny).toarray()
    d = pc.rel_diff(k0, kT)
    if d > 1e-8:
        return case, 'tangent stiffness at the undeformed state differs from the linear stiffness (rel %.3e)' % d
    return None, None


def lowest(K, M, k=4, positive=True):
    act = np.where(np.abs(K).sum(axis=0) != 0)[0]
    w = eigh(K[np.ix_(act, act)], M[np.ix_(act, act)], eigvals_only=True)
    return w


def exchange_case(case):
    c = dict(case)
    c['a'], c['b'] = case['b'], case['a']
    c['stack'] = [90. - t for t in case['stack']]
    fl = {}
    sw = {'u': 'v', 'v': 'u', 'w': 'w'}
    for k, v in case['flags'].items():
        f, e, d = k[0], k[1:3], k[3]
        fl[sw[f] + e + ('y' if d == 'x' else 'x')] = v
    c['flags'] = fl
    return c


def pair_axis_exchange(ctx, rng):
    case = with_option(pc.gen_panel_case(rng, models=('Plate',), max_mn=4, y12=False), rng, 0.5)
    for k in case['flags']:
        case['flags'][k] = float(rng.choice([0, 1]))
    case['m'] = case['n'] = rng.choice([5, 6])       # beyond the four edge functions: no field is switched off by its flags
    for f in 'w':       # keep the plate restrained enough for a positive definite stiffness
        for e in ('1t', '2t'):
            for d in 'xy':
                case['flags'][f + e + d] = 0.
    for f in 'uv':
        case['flags'][f + '1tx'] = case['flags'][f + '1ty'] = 0.
    N = (rng.uniform(-5, -1), rng.uniform(-5, 0), 0.)
    A, _ = mats(case, N=N)
    B, _ = mats(exchange_case(case), N=(N[1], N[0], N[2]))
    # the matrices themselves: exchanging the axes permutes the amplitudes, (u, i, j) <-> (v, j, i), (w, i, j) <-> (w, j, i)  (m = n)
    m_ = case['m']
    perm = np.zeros(3 * m_ * m_, dtype=int)
    for i in range(m_):
        for j in range(m_):
            for al, be in ((0, 1), (1, 0), (2, 2)):
                perm[3 * (j * m_ + i) + al] = 3 * (i * m_ + j) + be
    for name in ('k0', 'kG0', 'kM'):
        d = pc.rel_diff(A[name], B[name][np.ix_(perm, perm)])
        if d > 1e-9:
            return case, '%s changes under the exchange of x and y beyond the permutation of the amplitudes (rel %.3e)' % (name, d)
    for name, (P, Q) in (('buckling', ('kG0', 'k0')), ('frequency', ('k0', 'kM'))):
        try:
            wa = lowest(A[P], A[Q])
            wb = lowest(B[P], B[Q])
        except np.linalg.LinAlgError:
            return None, None
        if len(wa) == 0 and len(wb) == 0:
            continue
        if len(wa) != len(wb) or np.abs(wa - wb).max() > 1e-7 * np.abs(wa).max():
            return case, '%s eigenvalues change under the exchange of x and y (max rel diff %.3e)' % (
                name, np.abs(wa - wb).max() / np.abs(wa).max() if len(wa) == len(wb) else float('nan'))
    return None, None


def pair_similarity(ctx, rng):
    case = with_option(pc.gen_panel_case(rng, models=('Plate', 'CPanel'), max_mn=3, y12=False), rng)
    for k in case['flags']:
        case['flags'][k] = float(rng.choice([0, 1]))
    for e in ('1t', '2t'):
        for d in 'xy':
            case['flags']['w' + e + d] = 0.
    for f in 'uv':
        case['flags'][f + '1tx'] = case['flags'][f + '1ty'] = 0.
    s, e, qq = rng.uniform(0.3, 3), rng.uniform(0.3, 3), rng.uniform(0.3, 3)
    if rng.random() < 0.4:      # a change of the unit system (m -> mm / um, Pa -> GPa / MPa ...): many orders of magnitude
        s, e, qq = s * rng.choice([1e-3, 1e-2, 1e3]), e * rng.choice([1e-9, 1e-6, 1e3]), qq * rng.choice([1e-9, 1e-3, 1.])
    N = (-1., 0., 0.)
    A, _ = mats(case, N=N)
    c2 = dict(case, a=case['a'] * s, b=case['b'] * s, plyt=case['plyt'] * s, offset=case['offset'] * s, mu=case['mu'] * qq)
    if case['r'] is not None:
        c2['r'] = case['r'] * s
    lp = list(case['laminaprop'])
    for k in (0, 1, 3, 4, 5):
        if k < len(lp):
            lp[k] = lp[k] * e
    if len(lp) == 3:
        lp = [lp[0], lp[1], lp[2]]
    c2['laminaprop'] = tuple(lp)
    B, _ = mats(c2, N=N)
    for name, M1, M2, fac in (('k0', A['k0'], B['k0'], e * s), ('kG0', A['kG0'], B['kG0'], 1.), ('kM', A['kM'], B['kM'], qq * s ** 3)):
        d = pc.rel_diff(M1 * fac, M2)
        if d > 1e-9:
            return dict(case=case, s=s, e=e, q=qq), 'similarity: %s does not scale by the stated factor %.6g (rel %.3e)' % (name, fac, d)
    return None, None


PAIRS = [pair_alpha0, pair_large_radius, pair_w_block, pair_num_analytic, pair_axis_exchange, pair_similarity]


def correspondence(ctx):
    pc.translated(ctx)
    rng = ctx.rng
    dist = {}
    for t in range(ctx.scale(8, 40)):
        for fn in PAIRS:
            c, bad = fn(ctx, rng)
            ctx.evaluations += 1
            dist[fn.__name__] = dist.get(fn.__name__, 0) + 1
            ctx.nontrivial.add((fn.__name__, t))
            if t == 0:
                ctx.sample(dict(pair=fn.__name__), limit=6)
            if bad:
                ctx.violation('C14 fails on the implementation: ' + bad, dict(case=c, pair=fn.__name__))
                return
    ctx.cov['input_distribution'] = dist


def source_arm(ctx, reason):
    """model arm: the SOURCE AS WRITTEN (translated kernels interpreted) for the two descriptions of one structure; finds what a stale
    binary hides.  Pairs: conical panel at zero angle / cylindrical panel; w-only plate / w-block of the plate."""
    from tools import panel_v
    try:
        ir = pc.translated(ctx)
    except Exception as e:
        ctx.log('translator unusable for the model arm: %s' % e)
        return False
    rng = ctx.rng
    for t in range(ctx.scale(24, 80)):
        case = pc.gen_panel_case(rng, models=('KPanel',), max_mn=3, y12=(t % 2 == 1))
        case['alphadeg'] = 0.
        case['m'], case['n'] = rng.choice([2, 3]), rng.choice([2, 3])         # at least two terms each way: index-order slips need i != k
        N = dict(Nxx=rng.uniform(-5, 5), Nyy=rng.uniform(-5, 5), Nxy=rng.uniform(-5, 5))
        c2 = dict(case, lean_model='CPanel', model=pc.MODEL_OF['CPanel'], alphadeg=None)
        pk, pcyl = pc.make_panel(case), pc.make_panel(c2)
        for p_ in (pk, pcyl):
            pc.quiet(p_.calc_k0, silent=True)
        size = pk.get_size()
        y12 = case['y1'] is not None
        for kname, extra in (('fk0', {}), ('fkG0', N), ('fkM', dict(d=-case['offset']))):
            kn = kname + ('y1y2' if y12 else '')
            params = dict(extra, y1=case['y1'], y2=case['y2'])
            ctx.evaluations += 1
            try:
                A = panel_v.interp_kernel(ir['KPanel'][0][kn], ir['KPanel'][2], pk, params, size, 0, 0)
                B = panel_v.interp_kernel(ir['CPanel'][0][kn], ir['CPanel'][2], pcyl, params, size, 0, 0)
            except Exception as e:                                   # noqa
                ctx.log('model arm: %s not interpretable (%s)' % (kn, e))
                continue
            d = pc.rel_diff(A, B)
            if d > 1e-9:
                i, j = np.unravel_index(np.abs(A - B).argmax(), A.shape)
                ctx.violation('C14 fails on the source as written: %s of the conical panel kernel at zero semi-vertex angle gives %.6e at [%d,%d], '
                              'the cylindrical panel kernel %.6e (rel %.3e of the matrix); the running binary is stale w.r.t. this source if '
                              'the implementation arm stays quiet' % (kn, A[i, j], i, j, B[i, j], d),
                              dict(case=case, loads=N, kernel=kn, source_arm=True, broken=reason))
                return True
    return False


def search(ctx, reason):
    if source_arm(ctx, reason):
        return True
    rng = ctx.rng
    for t in range(ctx.scale(10, 60)):
        for fn in PAIRS:
            try:
                c, bad = fn(ctx, rng)
            except Exception:
                continue
            ctx.evaluations += 1
            if bad:
                ctx.violation('C14 fails on the implementation: ' + bad, dict(case=c, pair=fn.__name__, broken=reason))
                return True
    return False


def replay(ctx, data):
    print('replay:', data['what'])
    return 1
