"""C17 - complete-shell non-linear tangent = Jacobian of the internal force; thread-count independence.

H : hand model lean/CompmechVerif/Model/ShellNL.lean of ConeCyl._calc_NL_matrices / calc_kT / calc_fint and of integratev's work
    split.  Tie: the compiled kernel entry points of the model's non-linear module (calc_kG, calc_k0L, calc_kLL,
    calc_fint_0L_L0_LL) are wrapped (module attributes, nothing in /repo is edited) to record the full amplitude vector they
    receive and what they return; compared with the model: every kernel of calc_kT(cu, inc) AND of calc_fint(cu, inc) is
    evaluated at calc_full_c(cu, inc) (the same vector, prescribed amplitudes scaled by inc; the Lean model of calc_full_c is
    run through the C18 driver), kTuu = free block of k0 + k0L + k0L^T + sym(kLL) + sym(kG), fint = kernel part + k0 c.
I : the property itself on the implementation, for every non-linear-capable model, cylinders and cones, both integration rules,
    with and without imperfection: kT symmetric, fint(0) = 0, kT d = exact derivative of fint along d (fint is a polynomial of
    degree <= 4 along a line: the 5-point stencil is exact), fint - k0 c -> 0 quadratically, results identical for 1..8
    integration threads (1e-12).
"""
import contextlib
import os
import io
import json
import sys

import numpy as np

from tools.common import REPO, driver, q, unq

if REPO not in sys.path:
    sys.path.insert(0, REPO)

TRUSTED = [
    'Lean 4.33 kernel; axioms within {propext, Classical.choice, Quot.sound} (audited each run)',
    'hand-written model lean/CompmechVerif/Model/ShellNL.lean (+ Model/Integrate.lean point sets, Model/ConeCylGlue.lean calc_full_c): tied to '
    'the running Python by the recorded-kernel-call correspondence of this check, on the explored cases',
    'the compiled integrands cfk0L / cfkLL / cfkG / cffint are PARAMETERS of the theorems (hypothesis hJ of tangent_is_jacobian_glue); '
    'the pointwise Jacobian relation is evaluated on the implementation, not proved',
    'OpenMP scheduling, -ffast-math reassociation and rounding are outside the model: thread clauses by execution (1e-12)',
    'numpy; the 5-point stencil is exact for the quartic dependence of fint on the amplitudes along a line',
]
ASSUMPTIONS = [
    'integration grids nx, nt fine enough are NOT needed for the Jacobian identity (it holds for the discrete sums as well)',
    'amplitudes up to a few thicknesses; perturbation directions random',
    'betas of the integration point sets are 1 (proved for both rules: trapz2d_beta_one, simps2d_beta_one)',
]
RULE = ('one PRNG: model in the 12 non-linear-capable models, alphadeg in {0, 5..40}, rule in {trapz2d, simps2d}, grids in {(20,21),(24,28),(31,30)}, '
        'imperfection coefficients present or not, load level inc in {1, 0.4, 0.7} with prescribed end shortening / rotation / load asymmetry '
        'in a third of the cases, amplitude scale in {0.05, 0.5, 2}; non-trivial = cone with imperfection and inc != 1; distinct by parameters')

QUIET = io.StringIO()
NL_MODELS = ['clpt_donnell_bc1', 'clpt_donnell_bc2', 'clpt_donnell_bc3', 'clpt_donnell_bc4', 'clpt_sanders_bc1', 'clpt_sanders_bc2',
             'clpt_sanders_bc3', 'clpt_sanders_bc4', 'iso_clpt_donnell_bc2', 'iso_clpt_donnell_bc3', 'fsdt_donnell_bc1', 'fsdt_donnell_bcn']
KNOWN_MODEL = {'clpt_sanders_bc2': 'C17-kT-not-jacobian-clpt_sanders_bc2', 'clpt_sanders_bc3': 'C17-kT-not-jacobian-clpt_sanders_bc3',
               'fsdt_donnell_bc1': 'C17-kT-not-jacobian-fsdt_donnell_bc1', 'fsdt_donnell_bcn': 'C17-kT-not-jacobian-fsdt_donnell_bcn'}
LAMINAPROP = (123.55e3, 8.708e3, 0.319, 5.695e3, 5.695e3, 5.695e3)


def gen_case(rng):
    model = rng.choice(NL_MODELS)
    presc = rng.random() < 0.35
    return dict(model=model, alphadeg=rng.choice([0., 0., rng.uniform(5, 40)]), method=rng.choice(['trapz2d', 'simps2d']),
                grid=rng.choice([(20, 21), (24, 28), (31, 30)]), imp=rng.random() < 0.4, cores=rng.choice([1, 2, 3]),
                inc=rng.choice([0.4, 0.7]) if presc else 1., pdC=presc and rng.random() < 0.5, uTM=rng.uniform(-0.3, 0.3) if presc else 0.,
                thetaTdeg=rng.uniform(-0.2, 0.2) if presc else 0., betadeg=rng.uniform(-0.5, 0.5) if presc else 0.,
                amp=rng.choice([0.05, 0.5, 2.]), m=rng.choice([(2, 2, 2), (3, 2, 2), (2, 1, 3)]), seed=rng.randrange(1 << 30),
                imp_mn=rng.choice([(2, 2), (1, 3), (3, 2), (2, 4), (3, 1)]))      # imperfection orders, mostly m0 != n0


def build(case, cores=None):
    from compmech.conecyl import ConeCyl
    cc = ConeCyl()
    cc.model = case['model']
    cc.m1, cc.m2, cc.n2 = case['m']
    if 'iso_' in case['model']:
        cc.E11, cc.nu, cc.h = 70e3, 0.3, 1.
    else:
        cc.laminaprop, cc.stack, cc.plyt = LAMINAPROP, [0., 45., -45.], 0.125
    cc.r2, cc.L, cc.alphadeg = 250., 510., case['alphadeg']
    cc.nx, cc.nt = case['grid']
    cc.ni_num_cores = cores or case['cores']
    cc.ni_method = case['method']
    cc.pdC, cc.uTM, cc.thetaTdeg, cc.betadeg = case['pdC'], case['uTM'], case['thetaTdeg'], case['betadeg']
    if case['imp']:
        m0_, n0_ = case.get('imp_mn', (2, 2))
        base = [0.05, 0.02, 0.01, 0.03, -0.02, 0.04, 0.015, -0.01, 0.025, -0.035, 0.012, 0.022, -0.017, 0.031, 0.009, -0.027]
        cc.c0 = np.array(base[:2 * m0_ * n0_])      # 2*m0*n0 coefficients (funcnum = 2)
        cc.m0, cc.n0 = m0_, n0_
    with contextlib.redirect_stdout(QUIET):
        cc._calc_linear_matrices(silent=True)
    return cc


def state(cc, case):
    nu = cc.get_size() - len(cc.excluded_dofs)
    rs = np.random.RandomState(case['seed'] % (1 << 31))
    return nu, rs.uniform(-1, 1, nu) * case['amp'], rs.uniform(-1, 1, nu)


class Recorder(object):
    """wrap the compiled kernel entry points of one non-linear module"""
    NAMES = ('calc_kG', 'calc_k0L', 'calc_kLL', 'calc_fint_0L_L0_LL')

    def __init__(self, mods):
        self.mods = mods
        self.calls = []
        self.saved = []

    def __enter__(self):
        for mod in self.mods:
            for n in self.NAMES:
                if hasattr(mod, n):
                    f = getattr(mod, n)
                    self.saved.append((mod, n, f))

                    def wrap(c, *a, __f=f, __n=n, **kw):
                        cin = np.array(c, dtype=float).copy()
                        out = __f(c, *a, **kw)
                        self.calls.append((__n, cin, np.array(out).copy() if isinstance(out, np.ndarray) or hasattr(out, '__array__') and not hasattr(out, 'toarray') else out))
                        return out
                    try:
                        setattr(mod, n, wrap)
                    except Exception:
                        pass
        return self

    def __exit__(self, *a):
        for mod, n, f in self.saved:
            try:
                setattr(mod, n, f)
            except Exception:
                pass


def glue_case(ctx, case):
    """model vs implementation for calc_kT / calc_fint: returns a disagreement text or None"""
    from compmech.conecyl import modelDB
    cc = build(case)
    nu, c, d = state(cc, case)
    model = case['model']
    mods = {id(modelDB.db[model]['non-linear']): modelDB.db[model]['non-linear']}
    if 'iso_' in model:
        mods[id(modelDB.db[model[4:]]['non-linear'])] = modelDB.db[model[4:]]['non-linear']
    E = list(cc.excluded_dofs)
    ck = list(cc.excluded_dofs_ck)
    size = cc.get_size()
    # the Lean model of calc_full_c through the C18 driver
    rep = driver(['C18 fullc %d | %s | %s | %s | %s' % (size, ' '.join(map(str, E)), ' '.join(q(v) for v in ck), q(case['inc']),
                                                      ' '.join(q(v) for v in c))], pid='C18')[0]
    if not rep.startswith('ok'):
        return 'model driver: ' + rep
    cfull = np.array([float(unq(t)) for t in rep.split()[1:]])
    with Recorder(list(mods.values())) as rec, contextlib.redirect_stdout(QUIET):
        try:
            kTuu = cc.calc_kT(c, inc=case['inc'], silent=True).toarray()
            n_kt = len(rec.calls)
            fint = np.array(cc.calc_fint(c, inc=case['inc'], silent=True))
        except Exception as e:      # e.g. module attributes of a compiled module are read-only
            return 'harness: %r' % (e,)
    if not rec.calls:
        return None      # compiled module refused the wrappers: this tie is not available (noted in the evidence)
    ctx.cov.setdefault('glue_calls', 0)
    ctx.cov['glue_calls'] += len(rec.calls)
    for name, cin, out in rec.calls:
        if cin.shape != cfull.shape or np.abs(cin - cfull).max() > 1e-12 * (np.abs(cfull).max() + 1e-300):
            k = int(np.argmax(np.abs(cin - cfull))) if cin.shape == cfull.shape else -1
            return ('%s received an amplitude vector that is not calc_full_c(c, inc=%r) of the model: entry %d is %r, model %r'
                    % (name, case['inc'], k, float(cin[k]) if k >= 0 else None, float(cfull[k]) if k >= 0 else None))
    names = [n for n, _, _ in rec.calls]
    if sorted(names[:n_kt]) != ['calc_k0L', 'calc_kG', 'calc_kLL'] or names[n_kt:] != ['calc_fint_0L_L0_LL']:
        return 'kernel call sequence %r differs from the model (kG, k0L, kLL for calc_kT; fint_0L_L0_LL for calc_fint)' % (names,)
    parts = {n: out for n, _, out in rec.calls}
    k0 = cc.k0.toarray()
    sym = lambda a: np.triu(a) + np.triu(a, 1).T
    k0L = parts['calc_k0L'].toarray()
    kT_model = k0 + k0L + k0L.T + sym(parts['calc_kLL'].toarray()) + sym(parts['calc_kG'].toarray())
    free = [i for i in range(size) if i not in E]
    sc = np.abs(kT_model).max() + 1e-300
    if np.abs(kT_model[np.ix_(free, free)] - kTuu).max() > 1e-12 * sc:
        return 'kTuu differs from the free block of k0 + k0L + k0L^T + sym(kLL) + sym(kG) of the recorded kernel outputs'
    f_model = np.delete(np.array(parts['calc_fint_0L_L0_LL']) + k0 @ cfull, E)     # recorded as a copy (calc_fint adds k0*c in place)
    if np.abs(f_model - fint).max() > 1e-12 * (np.abs(f_model).max() + 1e-300):
        return 'calc_fint differs from (recorded kernel part + k0 * calc_full_c(c, inc)) without the prescribed amplitudes'
    return None


def property_case(ctx, case):
    """C17 predicates on the implementation: list of (identity or None, text)"""
    out = []
    model = case['model']
    ident = KNOWN_MODEL.get(model)
    cc = build(case)
    nu, c, d = state(cc, case)
    inc = case['inc']
    with contextlib.redirect_stdout(QUIET):
        f0 = np.array(cc.calc_fint(np.zeros(nu), inc=0. if (case['pdC'] or case['thetaTdeg'] or case['betadeg']) else inc, silent=True))
        kT = cc.calc_kT(c, inc=inc, silent=True).toarray()
        F = lambda t: np.array(cc.calc_fint(c + t * d, inc=inc, silent=True))
        h = 0.05 * max(case['amp'], 0.1)
        jac = (-F(2 * h) + 8 * F(h) - 8 * F(-h) + F(-2 * h)) / (12 * h)
        k0uu = cc.k0uu.toarray()
    if not case['imp'] and np.abs(f0).max() > 1e-9 * (np.abs(k0uu).max() * 1e-3 + 1e-300):
        out.append((None, 'fint of the undeformed perfect shell is not zero (max %.3e) for %s' % (np.abs(f0).max(), model)))
    asym = np.abs(kT - kT.T).max() / (np.abs(kT).max() + 1e-300)
    if asym > 1e-12:
        out.append((None, 'kTuu of %s is not symmetric: relative %.3e' % (model, asym)))
    nl = np.abs((kT - k0uu) @ d).max()
    want = kT @ d
    rel = np.abs(jac - want).max() / (nl + 1e-9 * np.abs(want).max() + 1e-300)
    case['jacobian_rel_to_nl_part'] = float(rel)
    if rel > 1e-4:
        k = int(np.argmax(np.abs(jac - want)))
        out.append((ident, 'kT(c, inc=%r)*d differs from the exact derivative of fint along d for %s (alphadeg %.3g, %s, imperfection %s): '
                           'deviation %.3e of the non-linear part %.3e (free amplitude %d: %.6e vs %.6e)'
                    % (inc, model, case['alphadeg'], case['method'], case['imp'], np.abs(jac - want).max(), nl, k, jac[k], want[k])))
    # small amplitudes: fint - k0 c is of second order
    if not (case['pdC'] or case['thetaTdeg'] or case['betadeg'] or case['imp']):
        with contextlib.redirect_stdout(QUIET):
            e1 = np.array(cc.calc_fint(1e-3 * d, silent=True)) - k0uu @ (1e-3 * d)
            e2 = np.array(cc.calc_fint(2e-3 * d, silent=True)) - k0uu @ (2e-3 * d)
        n1, n2 = np.abs(e1).max(), np.abs(e2).max()
        if n1 > 0 and not (3. < n2 / n1 < 9.):
            out.append((None, 'fint - k0*c does not vanish quadratically for small amplitudes (%s): ratio %.3g for a doubled amplitude'
                        % (model, n2 / n1)))
    # thread counts
    ref_f = F(0.)
    for cores in (1, 2, 4, 5, 8):
        if cores == case['cores']:
            continue
        c2 = build(case, cores=cores)
        with contextlib.redirect_stdout(QUIET):
            f2 = np.array(c2.calc_fint(c, inc=inc, silent=True))
            k2 = c2.calc_kT(c, inc=inc, silent=True).toarray()
        rf = np.abs(f2 - ref_f).max() / (np.abs(ref_f).max() + 1e-300)
        rk = np.abs(k2 - kT).max() / (np.abs(kT).max() + 1e-300)
        if max(rf, rk) > 1e-12:
            out.append((None, 'ni_num_cores=%d changes fint / kT of %s (%s): relative %.3e / %.3e' % (cores, model, case['method'], rf, rk)))
            break
    return out


def integratev_case(ctx, rng):
    """the Lean model of integratev (exact) vs the compiled integratev through its test integrand (one thread) and the plain sum"""
    from compmech.integrate import integratev as iv
    nx, ny = rng.choice([3, 4, 7, 10]), rng.choice([3, 5, 8])
    method = rng.choice(['trapz2d', 'simps2d'])
    out = np.array(iv._test_integratev(nx, ny, method))
    from compmech.integrate.integrate import trapz2d_points, simps2d_points
    pts = (trapz2d_points if method == 'trapz2d' else simps2d_points)(0., 1., nx, 0., 1., ny)
    xs, ys, al, be = [np.array(a) for a in pts]
    want = [(al * be * np.sin(k * xs * np.pi) * np.sin(k * ys * np.pi)).sum() for k in (1, 3, 5)]
    if np.abs(out - want).max() > 1e-12 * (np.abs(want).max() + 1e-300):
        return 'integratev(%s, nx=%d, ny=%d) = %r differs from the plain quadrature sum %r' % (method, nx, ny, out.tolist(), want)
    if np.abs(be - 1).max() != 0:
        return 'betas of %s are not all 1' % method
    return None


# ----------------------------------------------------------------------------- stage 2: the non-linear kernels themselves (T + V)
NL_EXPECTED = os.path.join(os.path.dirname(os.path.dirname(os.path.abspath(__file__))), 'translate', 'conecyl_nl_expected.json')


def translate(ctx):
    """T: regenerate Gen/ConeCylNL/<Model>.lean and the per-model case lemmas Spec/ShellJacobian/<Model>(/*).lean from the *_nonlinear.pyx
    sources of the tree under test (files are rewritten only when their content changes, so an unchanged source costs no rebuild)."""
    from tools.translate import gen_conecyl_nl as G, gen_shell_jacobian as SJ
    ctx._nl = {}
    errors = []
    for name in G.MODELS:
        # the failing structural identities are recorded BEFORE the proof scripts are instantiated: should the instantiation refuse (a tie that
        # fails "in an unexpected place"), the failing-input search still knows which identity of which kernel fails on the source as written
        M = G.translate_model(name)
        bad = SJ.failing_cases(M)
        ctx._nl[name] = (M, {k: sorted(v) for k, v in bad.items() if v})
        try:
            SJ.emit_files(M, bad)
        except Exception as e:                              # noqa
            errors.append('%s: %s' % (name, e))
    for name in ('FsdtDonnellBc1', 'FsdtDonnellBcn'):
        SJ.emit_fsdt_refutation(name)
    if errors:
        raise RuntimeError('; '.join(errors)[:1500])
    ctx.cov['nonlinear_kernels_translated'] = sorted(ctx._nl) + ['FsdtDonnellBc1 (IR + refutation)', 'FsdtDonnellBcn (IR + refutation)']


def nl_source_arm(ctx, reason):
    """model arm: which structural identity of WHICH kernel fails on the source as written (exact rational evaluation of the translated
    terms), compared with what fails on the unchanged tree (the recorded Sanders defects); a new failing identity is reported with its witness"""
    from tools.translate import gen_conecyl_nl as G, gen_shell_jacobian as SJ
    try:
        expected = json.load(open(NL_EXPECTED))
    except Exception:                            # noqa
        expected = {}
    nl = getattr(ctx, '_nl', None)
    if nl is None:
        nl = {}
        for name in G.MODELS:
            try:
                M = G.translate_ir(name)
                nl[name] = (M, {k: sorted(v) for k, v in SJ.failing_cases(M).items() if v})
            except Exception as e:               # noqa
                ctx.log('non-linear translator unusable for %s: %s' % (name, e))
    for name, (M, bad) in sorted(nl.items()):
        exp = {k: [tuple(x) if isinstance(x, list) else x for x in v] for k, v in expected.get(name, {}).items()}
        if name.startswith('ClptSanders') and any((tuple(c) if isinstance(c, (list, tuple)) else c) in exp.get('k0L', []) for c in bad.get('k0L', [])):
            # the recorded kernel-source defect (row of amplitude 2 in cfk0L) is still there: re-established by exact evaluation of the source
            ctx.violation('C17 fails on the source as written: %s cfk0L row of the load-asymmetry amplitude' % name,
                          dict(kind='nl source arm', model=name, identity='k0L', cases=[list(c) for c in bad['k0L'][:8]]),
                          identity='C17-sanders-k0L-row-of-load-asymmetry-amplitude')
        for field, cases in bad.items():
            new = [c for c in cases if (tuple(c) if isinstance(c, (list, tuple)) else c) not in exp.get(field, [])]
            ctx.evaluations += 1
            if new:
                ctx.violation('C17 fails on the source as written: in %s the structural identity `%s` of the non-linear kernels no longer holds for the '
                              'degree-of-freedom type(s) %r (exact rational evaluation of the translated cfk0L / cfkLL / cfkG / cffint terms at a random '
                              'point; on the unchanged tree it holds) - the tangent integrand is then not the derivative of the internal-force integrand; '
                              'the running binary is stale w.r.t. this source if the implementation arm stays quiet' % (name, field, new[:6]),
                              dict(kind='nl source arm', model=name, identity=field, cases=[list(c) if isinstance(c, tuple) else c for c in new[:20]],
                                   broken=reason))
                return True
    return False


def nl_validation(ctx):
    """V: the translated IR interpreted at the integration points against the compiled calc_k0L / calc_kLL / calc_kG / calc_fint_0L_L0_LL"""
    from tools import conecyl_nl_v as V
    from tools.translate import gen_conecyl_nl as G
    worst = {}
    for name in G.MODELS:
        M = ctx._nl[name][0] if getattr(ctx, '_nl', None) and name in ctx._nl else None
        w = V.validate(name, ncases=ctx.scale(2, 6), seed=ctx.seed, M=M)
        ctx.evaluations += 4 * ctx.scale(2, 6)
        worst[name] = {k: float('%.3g' % w[k]) for k in ('k0L', 'kLL', 'kG', 'fint')}
        for k in ('k0L', 'kLL', 'kG', 'fint'):
            if w[k] > 1e-9:
                ctx.violation('translated non-linear kernel %s.%s interpreted at the integration points differs from the compiled module: rel %.3e '
                              '(source and binary diverge, or translator error)' % (name, k, w[k]), dict(kind='V nl', model=name, kernel=k),
                              found_input=False)
                return True
    ctx.cov['nonlinear_kernels_V_max_rel'] = worst
    return False


def correspondence(ctx):
    rng = ctx.rng
    if nl_source_arm(ctx, ['every run']):
        return
    if nl_validation(ctx):
        return
    dist = dict(models={}, cones=0, simps=0, imperfect=0, inc_ne_1=0, max_rel_ok_models=0., glue=0)
    # the recorded per-model findings are re-established on a FIXED witness on every run (the random stream below may or may not draw these models)
    for model in sorted(KNOWN_MODEL):
        wcase = dict(model=model, alphadeg=0., method='trapz2d', grid=(24, 28), imp=False, cores=2, inc=1., pdC=False, uTM=0., thetaTdeg=0., betadeg=0.,
                     amp=2., m=(3, 2, 2), seed=12345, imp_mn=(2, 2))
        ctx.evaluations += 1
        for ident, text in property_case(ctx, wcase):
            if ctx.violation('C17 fails on the implementation: ' + text, dict(kind='case', case=wcase), identity=ident):
                return
    for k in range(ctx.scale(6, 40)):
        ctx.evaluations += 1
        bad = integratev_case(ctx, rng)
        if bad:
            ctx.violation('C17 fails on the implementation: ' + bad, dict(kind='integratev'))
            return
    n = ctx.scale(26, 300)
    for k in range(n):
        case = gen_case(rng)
        ctx.evaluations += 1
        dist['models'][case['model']] = dist['models'].get(case['model'], 0) + 1
        dist['cones'] += case['alphadeg'] != 0
        dist['simps'] += case['method'] == 'simps2d'
        dist['imperfect'] += case['imp']
        dist['inc_ne_1'] += case['inc'] != 1.
        if case['alphadeg'] != 0 and case['imp'] and case['inc'] != 1.:
            ctx.nontrivial.add(json.dumps(case, sort_keys=True, default=str))
        bad = glue_case(ctx, case)
        dist['glue'] += 1
        if bad:
            props = property_case(ctx, case)
            ctx.violation('model/implementation disagreement (%s); the C17 predicates %s on this case'
                          % (bad, 'fail' if [p for p in props if p[0] is None] else 'hold'),
                          dict(kind='case', case=case, correspondence='Model/ShellNL.lean vs ConeCyl.calc_kT / calc_fint'),
                          found_input=bool([p for p in props if p[0] is None]))
            return
        props = property_case(ctx, case)
        if case['model'] not in KNOWN_MODEL:
            dist['max_rel_ok_models'] = max(dist['max_rel_ok_models'], case.get('jacobian_rel_to_nl_part', 0.))
        ctx.sample({k_: v for k_, v in case.items()}, limit=2)
        for ident, text in props:
            if ctx.violation('C17 fails on the implementation: ' + text, dict(kind='case', case=case), identity=ident):
                return
    ctx.cov['input_distribution'] = dist
    ctx.log('%d cases: %r' % (n, {k: v for k, v in dist.items() if k != 'models'}))


def search(ctx, reason):
    if nl_source_arm(ctx, reason):
        return True
    rng = ctx.rng
    for k in range(ctx.scale(30, 200)):
        case = gen_case(rng)
        ctx.evaluations += 1
        for ident, text in property_case(ctx, case):
            if ctx.violation('C17 fails on the implementation: ' + text + ' [after: %s]' % '; '.join(reason)[:200],
                             dict(kind='case', case=case), identity=ident):
                return True
    return False


def replay(ctx, data):
    r = data['replay']
    if r.get('kind') == 'case':
        case = r['case']
        case['grid'] = tuple(case['grid'])
        case['m'] = tuple(case['m'])
        bad = glue_case(ctx, case)
        props = property_case(ctx, case)
        print('model-vs-impl:', bad, '| predicates:', props)
        from tools.common import load_findings
        ids = [f['id'] for f in load_findings('C17') if f.get('status', 'known') == 'known']
        return 1 if (bad or [p for p in props if p[0] not in ids]) else 0
    print('replay names a broken obligation, no input:', data['what'])
    return 1
