"""Source-level reading of the hand-written Cython files (tools/cyexec.py): the .pyx / .pxi TEXT is executed in Python and compared with
the compiled extension modules on every run.  Cython cannot be rebuilt in this sandbox, so an edit of such a source changes nothing that
runs; this tie makes the checks see it.  A disagreement is not by itself a violation: the caller then evaluates the property on the
source reading (e.g. `fg . c == fuvw` for the shell field functions) and reports a failing input of the SOURCE AS WRITTEN when it finds one.

    failures, rows = source_tie.run(('conecyl_clpt', 'conecyl_fsdt', 'mgi'))
"""
import atexit
import ctypes
import glob
import hashlib
import os
import subprocess
from concurrent.futures import ThreadPoolExecutor

import numpy as np

from tools import cyexec
from tools import cyexec_check as cc

GROUPS = ('integrate', 'conecyl_clpt', 'conecyl_fsdt', 'mgi', 'panel_field', 'linear_kernels', 'stiffener_kernels')


def _conecyl(kind):
    return [(rel, mod, nls) for rel, mod, nls in cc.CONECYL if ('/%s/' % kind) in rel]


def run(groups, quiet=True):
    """returns (failures, rows): failures = [(label, worst relative difference or inf, note)], rows = every comparison made"""
    tally = cc.Tally(quiet=quiet)
    unhandled = []

    def attempt(path, fn):
        try:
            fn()
        except cyexec.Unsupported as e:
            unhandled.append((path, str(e)))
            tally.line(path, 0, float('inf'), False, 'Unsupported: ' + str(e)[:200])
        except FileNotFoundError as e:
            tally.line(path, 0, float('inf'), False, 'source file missing: %s' % e)

    if 'integrate' in groups:
        attempt('integrate/integrate.pyx', lambda: cc.integrate_checks(
            tally, cyexec.load(cc.source('integrate/integrate.pyx'), repo=cc.REPO), cc.binary('compmech.integrate.integrate')))
    for kind in ('clpt', 'fsdt'):
        if 'conecyl_' + kind in groups:
            for k, (rel, modname, nls) in enumerate(_conecyl(kind)):
                label = rel.split('/', 1)[1][:-4]
                attempt(rel, lambda rel=rel, modname=modname, nls=nls, label=label, k=k: cc.conecyl_checks(
                    tally, cyexec.load(cc.source(rel), repo=cc.REPO), cc.binary(modname), label, nls, 1000 + k + (50 if kind == 'fsdt' else 0)))
    if 'mgi' in groups:
        attempt('conecyl/imperfections/mgi.pyx', lambda: cc.mgi_checks(
            tally, cyexec.load(cc.source('conecyl/imperfections/mgi.pyx'), repo=cc.REPO), cc.binary('compmech.conecyl.imperfections.mgi')))
    if 'panel_field' in groups:
        ext, how, so = cc.bardell_externs()
        attempt('panel/models/clt_bardell_field.pyx', lambda: cc.panel_checks(
            tally, cyexec.load(cc.source('panel/models/clt_bardell_field.pyx'), repo=cc.REPO, externs=ext),
            cc.binary('compmech.panel.models.clt_bardell_field'), 'panel/models/clt_bardell_field', 3, 2001))
        attempt('panel/models/clt_bardell_field_w.pyx', lambda: cc.panel_checks(
            tally, cyexec.load(cc.source('panel/models/clt_bardell_field_w.pyx'), repo=cc.REPO, externs=ext),
            cc.binary('compmech.panel.models.clt_bardell_field_w'), 'panel/models/clt_bardell_field_w', 1, 2002))
        if so:
            try:
                os.remove(so)
            except OSError:
                pass
    if 'linear_kernels' in groups:
        for name in ('clpt_donnell_bc1_linear', 'clpt_sanders_bc2_linear'):
            rel = 'conecyl/clpt/%s.pyx' % name
            attempt(rel, lambda rel=rel, name=name: cc.kernel_checks(
                tally, cyexec.load(cc.source(rel), repo=cc.REPO), cc.binary('compmech.conecyl.clpt.' + name), 'clpt/' + name))
    if 'stiffener_kernels' in groups:
        ext = None
        try:
            ext = stiffener_externs()
        except (OSError, RuntimeError, AttributeError) as e:
            tally.line('stiffener/models (C library)', 0, float('inf'), False, 'compmech/lib/src could not be compiled / loaded: %s' % str(e)[:200])
        if ext is not None:
            for name in STIFFENER_FILES:
                rel = 'stiffener/models/%s.pyx' % name
                attempt(rel, lambda rel=rel, name=name: stiffener_checks(
                    tally, cyexec.load(cc.source(rel), repo=cc.REPO, externs=ext), cc.binary('compmech.stiffener.models.' + name), name))
    failures = [(label, worst, note) for label, ncases, worst, ok, note in tally.rows if not ok]
    return failures, tally.rows


# ---------------------------------------------------------------------------------------------- stiffener kernels
STIFFENER_FILES = ('bladestiff1d_clt_donnell_bardell', 'bladestiff2d_clt_donnell_bardell', 'tstiff2d_clt_donnell_bardell')
# C files of compmech/lib/src that define the external functions the three kernel files declare (`cdef extern from 'bardell*.h'`)
_STIFF_C = ('bardell.c', 'bardell_functions.c', 'bardell_integral_ff_12.c', 'bardell_integral_ffxi_12.c', 'bardell_integral_fxifxi_12.c',
            'bardell_integral_ff_c0c1.c', 'bardell_integral_ffxi_c0c1.c')
_STIFF_LIB = {}


def stiffener_externs():
    """{name: ctypes function} for integral_ff/ffxi/ffxixi/fxifxi/fxifxixi/fxixifxixi, integral_{ff,ffxi,fxifxi}_12,
    integral_{ff,ffxi}_c0c1, calc_f/calc_fxi/calc_fxixi - compiled with gcc -O0 from compmech/lib/src/*.c of the tree under test
    (signatures as in tools/props/C10.py CLib).  Built once per process; the shared object lives under .scratch/source_tie/ and is
    keyed by the hash of the C sources, so an edited C file is recompiled and an unchanged one is not."""
    if 'ext' in _STIFF_LIB:
        return _STIFF_LIB['ext']
    src = os.path.join(cc.REPO, 'compmech', 'lib', 'src')
    h = hashlib.sha256()
    for f in _STIFF_C:
        with open(os.path.join(src, f), 'rb') as fh:
            h.update(f.encode() + b'\0' + fh.read() + b'\0')
    out = os.path.join(cc.ROOT, '.scratch', 'source_tie')
    os.makedirs(out, exist_ok=True)
    so = os.path.join(out, 'libbardell_%s.so' % h.hexdigest()[:20])
    if not os.path.exists(so):
        tmp = os.path.join(out, 'build_%d' % os.getpid())
        os.makedirs(tmp, exist_ok=True)

        def compile_one(f):
            o = os.path.join(tmp, f[:-2] + '.o')
            p = subprocess.run(['gcc', '-O0', '-fPIC', '-c', os.path.join(src, f), '-o', o], stdout=subprocess.PIPE, stderr=subprocess.STDOUT,
                               text=True)
            if p.returncode != 0:
                raise RuntimeError('gcc failed on %s: %s' % (f, p.stdout[-400:]))
            return o
        try:
            with ThreadPoolExecutor(8) as ex:
                objs = list(ex.map(compile_one, _STIFF_C))
            p = subprocess.run(['gcc', '-shared', '-o', so + '.%d' % os.getpid()] + objs + ['-lm'], stdout=subprocess.PIPE,
                               stderr=subprocess.STDOUT, text=True)
            if p.returncode != 0:
                raise RuntimeError('gcc link failed: ' + p.stdout[-400:])
            os.replace(so + '.%d' % os.getpid(), so)
        finally:
            for f in glob.glob(os.path.join(tmp, '*')):
                os.remove(f)
            os.rmdir(tmp)
    lib = ctypes.CDLL(so)
    D, I = ctypes.c_double, ctypes.c_int
    ext = {}
    for fam in ('ff', 'ffxi', 'ffxixi', 'fxifxi', 'fxifxixi', 'fxixifxixi'):
        fn = getattr(lib, 'integral_' + fam)
        fn.restype, fn.argtypes = D, [I, I] + [D] * 8
        ext['integral_' + fam] = fn
    for fam in ('ff_12', 'ffxi_12', 'fxifxi_12', 'ff_c0c1', 'ffxi_c0c1'):
        fn = getattr(lib, 'integral_' + fam)
        fn.restype, fn.argtypes = D, [D, D, I, I] + [D] * 8
        ext['integral_' + fam] = fn
    for nm in ('calc_f', 'calc_fxi', 'calc_fxixi'):
        fn = getattr(lib, nm)
        fn.restype, fn.argtypes = D, [I, D, D, D, D, D]
        ext[nm] = fn
    _STIFF_LIB['ext'] = ext
    _STIFF_LIB['so'] = so
    return ext


def _flags(r, nquad):
    """`nquad` quadruples (1t, 1r, 2t, 2r) of edge flags as the stiffener classes pass them: 0. or 1."""
    out = []
    for _ in range(nquad):
        out += [float(r.randint(0, 2)) for _ in range(4)]
    if nquad and not any(out):
        out[0] = 1.
    return out


def stiffener_cases(fname, seed, ncases=10):
    """positional argument lists in the order the stiffener classes call the compiled kernels (compmech/stiffener/bladestiff1d.py,
    bladestiff2d.py, tstiff2d.py): bay geometry, flange / base geometry and beam constants of realistic magnitude, random series orders
    for skin (m, n) and flange / base (m1, n1), 0/1 edge flags, random placement (row0, col0) inside a larger matrix"""
    r = np.random.RandomState(seed)
    cases = []
    for t in range(ncases):
        m, n, m1, n1 = (int(r.randint(1, 8)) for _ in range(4))
        if t == 0:
            m, n, m1, n1 = 9, 7, 8, 6             # above the four boundary functions in both directions
        a, b = float(r.uniform(0.3, 3.)), float(r.uniform(0.2, 2.))
        ys = float(r.choice([0., b, r.uniform(0.05, 0.95) * b]))
        h, hb, hf = (float(r.uniform(1e-4, 5e-3)) for _ in range(3))
        bf = float(r.uniform(0.01, 0.12))
        nskin, nsub = 3 * m * n, 3 * m1 * n1
        pad = int(r.randint(0, 7))
        if fname == 'fk0f':
            E1 = float(r.uniform(1e6, 2e8))
            row0 = int(r.randint(0, 5))
            args = [ys, a, b, bf, bf / 2. + hb + h / 2., E1, bf ** 2 / 12. * E1, float(r.uniform(-1, 1) * 1e-2 * E1 * hf),
                    hf * bf ** 3 / 12. + bf * hf ** 3 / 12., m, n] + _flags(r, 4) + [nskin + row0 + pad, row0, row0]
        elif fname == 'fkG0f':
            row0 = int(r.randint(0, 5))
            args = [ys, float(r.uniform(-1, 1) * 1e4), a, b, bf, m, n] + _flags(r, 2) + [nskin + row0 + pad, row0, row0]
        elif fname == 'fkMf':
            row0 = int(r.randint(0, 5))
            args = [ys, float(r.uniform(1e3, 8e3)), h, hb, hf, a, b, bf, bf / 2. + hb + h / 2., m, n] + _flags(r, 6) + \
                   [nskin + row0 + pad, row0, row0]
        elif fname == 'fkCss':
            args = [float(10 ** r.uniform(5, 10)), float(10 ** r.uniform(1, 6)), ys, a, b, m, n] + _flags(r, 6) + [nskin + nsub + pad, 0, 0]
        elif fname == 'fkCsf':
            col0 = nskin + int(r.randint(0, 4))
            args = [float(10 ** r.uniform(5, 10)), float(10 ** r.uniform(1, 6)), ys, a, b, bf, m, n, m1, n1] + _flags(r, 12) + \
                   [col0 + nsub + pad, 0, col0]
        elif fname == 'fkCff':
            row0 = nskin + int(r.randint(0, 4))
            args = [float(10 ** r.uniform(5, 10)), float(10 ** r.uniform(1, 6)), a, bf, m1, n1] + _flags(r, 6) + [row0 + nsub + pad, row0, row0]
        else:
            bb = float(r.uniform(0.05, 0.5) * b)
            yc = float(r.uniform(bb / 2., b - bb / 2.))
            y1, y2 = yc - bb / 2., yc + bb / 2.
            if t == 1:
                y1, y2 = 0., b
            kt = float(10 ** r.uniform(5, 10))
            dpb = h / 2. + hb / 2.
            if fname == 'fkCppy1y2':
                args = [y1, y2, kt, a, b, dpb, m, n] + _flags(r, 6) + [nskin + nsub + pad, 0, 0]
            elif fname == 'fkCpby1y2':
                col0 = nskin + int(r.randint(0, 4))
                args = [y1, y2, kt, a, b, dpb, m, n, m1, n1] + _flags(r, 12) + [col0 + nsub + pad, 0, col0]
            elif fname == 'fkCbbpby1y2':
                row0 = nskin + int(r.randint(0, 4))
                args = [y1, y2, kt, a, b, m1, n1] + _flags(r, 6) + [row0 + nsub + pad, row0, row0]
            else:
                raise ValueError(fname)
        cases.append((args, {}))
    return cases


def stiffener_checks(tally, ns, mod, name, ncases=10):
    """every `fk*` function of one stiffener kernel file: source reading vs compiled module, dense matrices, 1e-12 relative"""
    names = sorted(k for k, v in ns.items() if k.startswith('fk') and callable(v))
    binnames = sorted(k for k in dir(mod) if k.startswith('fk') and callable(getattr(mod, k)))
    if names != binnames:
        tally.line('stiffener/models/%s' % name, 0, float('inf'), False, 'kernel functions of the source %s, of the compiled module %s'
                   % (names, binnames))
        return False
    ok = True
    for k, fname in enumerate(names):
        def dense(f):
            return lambda *a: np.asarray(f(*a).toarray(), dtype=float)
        try:
            cases = stiffener_cases(fname, 4100 + 17 * k + len(name), ncases)
        except ValueError:
            tally.line('stiffener/models/%s.%s' % (name, fname), 0, float('inf'), False, 'no argument builder for this function')
            ok = False
            continue
        ok &= cc.compare(tally, 'stiffener/models/%s.%s' % (name, fname), dense(ns[fname]), dense(getattr(mod, fname)), cases)
    return ok


def conecyl_field_predicate(seed=7, n=6):
    """C18 / C11-style predicate ON THE SOURCE READING of the shell field functions: the shape-function rows `fg` (which build the load
    vector) applied to an amplitude vector give the displacements `fuvw` reports at the same point - for every commons file.
    returns None or (text, replay dict)"""
    for rel, modname, nls in cc.CONECYL:
        try:
            ns = cyexec.load(cc.source(rel), repo=cc.REPO)
        except Exception:                      # noqa  (unreadable source: reported by run())
            continue
        ndisp = 3 if ns['num1'] == 3 else 5
        for d in cc.conecyl_cases(ns, seed, n):
            g = np.zeros((ndisp, d['size']))
            try:
                ns['fg'](g, d['m1'], d['m2'], d['n2'], d['r2'], d['x'], d['t'], d['L'], d['cosa'], d['tLA'])
                out = ns['fuvw'](d['c'], d['m1'], d['m2'], d['n2'], d['alpharad'], d['r2'], d['L'], d['tLA'],
                                 np.array([d['x']]), np.array([d['t']]), 1)
            except Exception:                  # noqa
                continue
            uvw = np.array([float(np.asarray(o)[0]) for o in out[:3]])
            got = (g @ d['c'])[:3]
            sc = max(np.abs(uvw).max(), np.abs(got).max(), 1e-300)
            if ndisp == 3 and len(out) >= 5:
                # classical models: the reported rotations are minus the slopes of the reported w (phix = -w,x ; phit = -w,theta / r, r = r2 + x sin(alpha))
                def w_at(x_, t_):
                    return float(np.asarray(ns['fuvw'](d['c'], d['m1'], d['m2'], d['n2'], d['alpharad'], d['r2'], d['L'], d['tLA'],
                                                       np.array([x_]), np.array([t_]), 1)[2])[0])
                x0, t0 = min(max(d['x'], 0.05 * d['L']), 0.95 * d['L']), d['t']
                o2 = ns['fuvw'](d['c'], d['m1'], d['m2'], d['n2'], d['alpharad'], d['r2'], d['L'], d['tLA'], np.array([x0]), np.array([t0]), 1)
                hx, ht = 1e-3 * d['L'], 1e-3
                wx = (-w_at(x0 + 2 * hx, t0) + 8 * w_at(x0 + hx, t0) - 8 * w_at(x0 - hx, t0) + w_at(x0 - 2 * hx, t0)) / (12 * hx)
                wt = (-w_at(x0, t0 + 2 * ht) + 8 * w_at(x0, t0 + ht) - 8 * w_at(x0, t0 - ht) + w_at(x0, t0 - 2 * ht)) / (12 * ht)
                r_ = d['r2'] + x0 * d['sina']
                for nm_, got_, ref_ in (('phix', float(np.asarray(o2[3])[0]), -wx), ('phit', float(np.asarray(o2[4])[0]), -wt / r_)):
                    if abs(got_ - ref_) > 1e-6 * max(abs(ref_), abs(wx), abs(wt) / r_, 1e-300):
                        return ('%s (source as written): the reported rotation %s at (x=%.6g, theta=%.6g) is %.9e, minus the slope of the reported w '
                                '(finite difference of the same source, local radius %.6g) is %.9e' % (rel, nm_, x0, t0, got_, r_, ref_),
                                dict(source=rel, m1=d['m1'], m2=d['m2'], n2=d['n2'], x=x0, t=t0, alpharad=d['alpharad'], r2=d['r2'], L=d['L'], seed=seed))
            if np.abs(got - uvw).max() > 1e-10 * sc:
                k = int(np.abs(got - uvw).argmax())
                return ('%s (source as written): the shape-function row fg at (x=%.6g, theta=%.6g) applied to the amplitudes gives %s = %.9e, '
                        'the displacement field fuvw of the same source reports %.9e' % (rel, d['x'], d['t'], 'uvw'[k], got[k], uvw[k]),
                        dict(source=rel, m1=d['m1'], m2=d['m2'], n2=d['n2'], x=d['x'], t=d['t'], alpharad=d['alpharad'], r2=d['r2'], L=d['L'],
                             tLA=d['tLA'], seed=seed))
    return None


def check(ctx, pid, groups, predicate=None):
    """run the source reading for `groups`; record coverage; on a disagreement evaluate `predicate()` (property on the source reading) and
    report.  returns True when a violation was recorded."""
    failures, rows = run(groups)
    ctx.evaluations += len(rows)
    ctx.cov['source_reading'] = dict(groups=list(groups), functions_compared=len(rows),
                                     what='hand-written .pyx/.pxi sources executed as text (tools/cyexec.py) and compared with the compiled '
                                          'modules on fixed-seed inputs; tolerance 1e-12 relative; exception classes compared too')
    if not failures:
        return False
    label, worst, note = failures[0]
    found = predicate() if predicate else None
    if found:
        text, rep = found
        ctx.violation('%s fails on the source as written: %s (the running binary is stale w.r.t. this source)' % (pid, text),
                      dict(kind='source reading', disagreeing=[f[0] for f in failures][:8], **rep))
    else:
        ctx.violation('source reading: %s as written in the source no longer agrees with the compiled module (max relative difference %r%s); '
                      'the hand model / oracle of this check is tied to the binary only' % (label, worst, ('; ' + note) if note else ''),
                      dict(kind='source reading', disagreeing=[f[0] for f in failures][:8]), found_input=False)
    return True


# ---------------------------------------------------------------------------------------------- emulated rebuild of a shell model
import contextlib
import types


@contextlib.contextmanager
def conecyl_source_build(model):
    """Within the block, ConeCyl objects of `model` run on the SOURCE AS WRITTEN of their linear-kernel and commons modules (executed from text by
    tools/cyexec.py) instead of the compiled binaries: an emulated rebuild, since Cython cannot be run here.  The package's registry
    compmech.conecyl.modelDB.db is patched from this process and restored afterwards; nothing in the repository is touched.  Slow (Python loops):
    meant for a handful of small shells in the failing-input search."""
    from compmech.conecyl import modelDB
    entry = modelDB.db[model]
    saved = {k: entry[k] for k in ('linear', 'commons')}
    try:
        for key in ('linear', 'commons'):
            mod = entry[key]
            rel = mod.__name__.split('compmech.', 1)[1].replace('.', '/') + '.pyx'
            ns = cyexec.load(cc.source(rel), repo=cc.REPO)
            entry[key] = types.SimpleNamespace(**{k: v for k, v in ns.items() if not k.startswith('__')}, __name__=mod.__name__ + ' (source reading)')
        yield
    finally:
        entry.update(saved)
