"""Source-level reading of the hand-written Cython files (tools/cyexec.py): the .pyx / .pxi TEXT is executed in Python and compared with
the compiled extension modules on every run.  Cython cannot be rebuilt in this sandbox, so an edit of such a source changes nothing that
runs; this tie makes the checks see it.  A disagreement is not by itself a violation: the caller then evaluates the property on the
source reading (e.g. `fg . c == fuvw` for the shell field functions) and reports a failing input of the SOURCE AS WRITTEN when it finds one.

    failures, rows = source_tie.run(('conecyl_clpt', 'conecyl_fsdt', 'mgi'))
"""
import os

import numpy as np

from tools import cyexec
from tools import cyexec_check as cc

GROUPS = ('integrate', 'conecyl_clpt', 'conecyl_fsdt', 'mgi', 'panel_field', 'linear_kernels')


def _conecyl(kind):
    return [(rel, mod, nls) for rel, mod, nls in cc.CONECYL if ('/%s/' % kind) in rel]


def run(groups, quiet=True):
    """returns (failures, rows): failures = [(label, worst relative difference or inf, note)], rows = every comparison made"""
    tally = cc.Tally(quiet=quiet)
    unhandled = []

    def attempt(path, fn):
        try:
            fn()
        except cyexec.Unsupported as e:
            unhandled.append((path, str(e)))
            tally.line(path, 0, float('inf'), False, 'Unsupported: ' + str(e)[:200])
        except FileNotFoundError as e:
            tally.line(path, 0, float('inf'), False, 'source file missing: %s' % e)

    if 'integrate' in groups:
        attempt('integrate/integrate.pyx', lambda: cc.integrate_checks(
            tally, cyexec.load(cc.source('integrate/integrate.pyx'), repo=cc.REPO), cc.binary('compmech.integrate.integrate')))
    for kind in ('clpt', 'fsdt'):
        if 'conecyl_' + kind in groups:
            for k, (rel, modname, nls) in enumerate(_conecyl(kind)):
                label = rel.split('/', 1)[1][:-4]
                attempt(rel, lambda rel=rel, modname=modname, nls=nls, label=label, k=k: cc.conecyl_checks(
                    tally, cyexec.load(cc.source(rel), repo=cc.REPO), cc.binary(modname), label, nls, 1000 + k + (50 if kind == 'fsdt' else 0)))
    if 'mgi' in groups:
        attempt('conecyl/imperfections/mgi.pyx', lambda: cc.mgi_checks(
            tally, cyexec.load(cc.source('conecyl/imperfections/mgi.pyx'), repo=cc.REPO), cc.binary('compmech.conecyl.imperfections.mgi')))
    if 'panel_field' in groups:
        ext, how, so = cc.bardell_externs()
        attempt('panel/models/clt_bardell_field.pyx', lambda: cc.panel_checks(
            tally, cyexec.load(cc.source('panel/models/clt_bardell_field.pyx'), repo=cc.REPO, externs=ext),
            cc.binary('compmech.panel.models.clt_bardell_field'), 'panel/models/clt_bardell_field', 3, 2001))
        attempt('panel/models/clt_bardell_field_w.pyx', lambda: cc.panel_checks(
            tally, cyexec.load(cc.source('panel/models/clt_bardell_field_w.pyx'), repo=cc.REPO, externs=ext),
            cc.binary('compmech.panel.models.clt_bardell_field_w'), 'panel/models/clt_bardell_field_w', 1, 2002))
        if so:
            try:
                os.remove(so)
            except OSError:
                pass
    if 'linear_kernels' in groups:
        for name in ('clpt_donnell_bc1_linear', 'clpt_sanders_bc2_linear'):
            rel = 'conecyl/clpt/%s.pyx' % name
            attempt(rel, lambda rel=rel, name=name: cc.kernel_checks(
                tally, cyexec.load(cc.source(rel), repo=cc.REPO), cc.binary('compmech.conecyl.clpt.' + name), 'clpt/' + name))
    failures = [(label, worst, note) for label, ncases, worst, ok, note in tally.rows if not ok]
    return failures, tally.rows


def conecyl_field_predicate(seed=7, n=6):
    """C18 / C11-style predicate ON THE SOURCE READING of the shell field functions: the shape-function rows `fg` (which build the load
    vector) applied to an amplitude vector give the displacements `fuvw` reports at the same point - for every commons file.
    returns None or (text, replay dict)"""
    for rel, modname, nls in cc.CONECYL:
        try:
            ns = cyexec.load(cc.source(rel), repo=cc.REPO)
        except Exception:                      # noqa  (unreadable source: reported by run())
            continue
        ndisp = 3 if ns['num1'] == 3 else 5
        for d in cc.conecyl_cases(ns, seed, n):
            g = np.zeros((ndisp, d['size']))
            try:
                ns['fg'](g, d['m1'], d['m2'], d['n2'], d['r2'], d['x'], d['t'], d['L'], d['cosa'], d['tLA'])
                out = ns['fuvw'](d['c'], d['m1'], d['m2'], d['n2'], d['alpharad'], d['r2'], d['L'], d['tLA'],
                                 np.array([d['x']]), np.array([d['t']]), 1)
            except Exception:                  # noqa
                continue
            uvw = np.array([float(np.asarray(o)[0]) for o in out[:3]])
            got = (g @ d['c'])[:3]
            sc = max(np.abs(uvw).max(), np.abs(got).max(), 1e-300)
            if np.abs(got - uvw).max() > 1e-10 * sc:
                k = int(np.abs(got - uvw).argmax())
                return ('%s (source as written): the shape-function row fg at (x=%.6g, theta=%.6g) applied to the amplitudes gives %s = %.9e, '
                        'the displacement field fuvw of the same source reports %.9e' % (rel, d['x'], d['t'], 'uvw'[k], got[k], uvw[k]),
                        dict(source=rel, m1=d['m1'], m2=d['m2'], n2=d['n2'], x=d['x'], t=d['t'], alpharad=d['alpharad'], r2=d['r2'], L=d['L'],
                             tLA=d['tLA'], seed=seed))
    return None


def check(ctx, pid, groups, predicate=None):
    """run the source reading for `groups`; record coverage; on a disagreement evaluate `predicate()` (property on the source reading) and
    report.  returns True when a violation was recorded."""
    failures, rows = run(groups)
    ctx.evaluations += len(rows)
    ctx.cov['source_reading'] = dict(groups=list(groups), functions_compared=len(rows),
                                     what='hand-written .pyx/.pxi sources executed as text (tools/cyexec.py) and compared with the compiled '
                                          'modules on fixed-seed inputs; tolerance 1e-12 relative; exception classes compared too')
    if not failures:
        return False
    label, worst, note = failures[0]
    found = predicate() if predicate else None
    if found:
        text, rep = found
        ctx.violation('%s fails on the source as written: %s (the running binary is stale w.r.t. this source)' % (pid, text),
                      dict(kind='source reading', disagreeing=[f[0] for f in failures][:8], **rep))
    else:
        ctx.violation('source reading: %s as written in the source no longer agrees with the compiled module (max relative difference %r%s); '
                      'the hand model / oracle of this check is tied to the binary only' % (label, worst, ('; ' + note) if note else ''),
                      dict(kind='source reading', disagreeing=[f[0] for f in failures][:8]), found_input=False)
    return True
